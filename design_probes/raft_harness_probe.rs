// ---- harness code appended inside the module (access to private fields) ----
#[cfg(kani)]
pub(crate) mod harness {
    use super::*;

    pub(crate) struct MemLog {
        pub logs: Vec<Log<u8>>,
        pub commit: u64,
    }
    impl Storage<u8, ()> for MemLog {
        async fn append(&mut self, log: Log<u8>, _n: Option<()>) -> ServerResult<()> {
            // mirrors ClusterStorage::append: drop uncommitted logs with index >= log.index
            let commit = self.commit;
            let idx = log.index;
            self.logs.retain(|l| l.index <= commit || l.index < idx);
            self.logs.push(log);
            Ok(())
        }
        async fn commit(&mut self, index: u64) -> ServerResult<()> { self.commit = index; Ok(()) }
        fn log_index(&self) -> u64 { self.logs.last().map_or(0, |l| l.index) }
        fn log_term(&self) -> u64 { self.logs.last().map_or(0, |l| l.term) }
        fn log_commit(&self) -> u64 { self.commit }
        async fn logs(&self, from: u64) -> ServerResult<Vec<Log<u8>>> {
            Ok(self.logs.iter().filter(|l| l.index > from).cloned().collect())
        }
    }

    fn mk(index: u64) -> Cluster<u8, (), MemLog> {
        Cluster::new(MemLog { logs: vec![], commit: 0 }, ClusterSettings {
            index, size: 3, hash: 7, election_factor_ms: 10,
            heartbeat_timeout: Duration::from_millis(5), term_timeout: Duration::from_millis(50),
        })
    }

    fn vote_req(from: u64, target: u64, term: u64) -> Request<u8> {
        Request { hash: 7, index: from, target, term, log_index: 0, log_term: 0, log_commit: 0, data: RequestType::Vote }
    }

    // A node never answers OK to Vote requests of two different candidates in the same term,
    // whatever the clock does in between.
    #[kani::proof]
    #[kani::unwind(5)]
    fn vote_once_per_term() {
        crate::vclock::set(0);
        let mut c = mk(2);
        let t: u64 = kani::any();
        kani::assume(t >= 1 && t < 5);
        let r1 = kani::block_on(c.request(&vote_req(0, 2, t)));
        let dt: u64 = kani::any();
        kani::assume(dt < 1000);
        crate::vclock::set(dt);
        let _ = c.process();
        let r2 = kani::block_on(c.request(&vote_req(1, 2, t)));
        let ok1 = matches!(r1.result, ResponseType::Ok);
        let ok2 = matches!(r2.result, ResponseType::Ok);
        assert!(!(ok1 && ok2));
        std::mem::forget(c);
    }
}
