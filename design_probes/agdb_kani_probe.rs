use crate::*;
use crate::utilities::serialize::Serialize;

// P1: u64 / i64 / f64 roundtrip
#[kani::proof]
#[kani::unwind(10)]
fn p1_u64_roundtrip() {
    let v: u64 = kani::any();
    let b = v.serialize();
    assert_eq!(b.len() as u64, v.serialized_size());
    let w = u64::deserialize(&b).unwrap();
    assert_eq!(v, w);
}

// P2: slice
#[kani::proof]
#[kani::unwind(6)]
fn p2_slice() {
    let mut q = crate::query::search_query::SearchQuery::new();
    q.limit = kani::any();
    q.offset = kani::any();
    let n: usize = kani::any();
    kani::assume(n <= 4);
    let mut ids = Vec::new();
    for i in 0..n {
        ids.push(DbId(i as i64 + 1));
    }
    let r = q.slice_probe(ids);
    assert!(r.is_ok());
}

// P7: DbMemory creation concrete
#[kani::proof]
#[kani::stub(std::fmt::format, fmt_stub)]
#[kani::stub(crate::DbError::new, dberror_new_stub)]
#[kani::unwind(70)]
fn p7_db_new() {
    let db = DbMemory::with_data(MemoryStorage::from_buffer("x", vec![]));
    assert!(db.is_ok());
    std::mem::forget(db);
}

use crate::storage::Storage;

// P6a: Storage over MemoryStorage: create + insert small symbolic value + read back
#[kani::proof]
#[kani::stub(std::fmt::format, fmt_stub)]
#[kani::unwind(26)]
fn p6_storage_insert() {
    let mut s = Storage::<MemoryStorage>::with_data(MemoryStorage::from_buffer("x", vec![])).unwrap();
    let n: usize = kani::any();
    kani::assume(n <= 3);
    let data: [u8; 3] = kani::any();
    let idx = s.insert_bytes(&data[..n]).unwrap();
    let back = s.value_as_bytes(idx).unwrap();
    assert_eq!(back.len(), n);
    if n > 0 { assert_eq!(back[0], data[0]); }
    std::mem::forget(s);
}

// P6b: read_records on symbolic buffer (C07)
#[kani::proof]
#[kani::stub(std::fmt::format, fmt_stub)]
#[kani::unwind(58)]
fn p6_read_records() {
    const N: usize = 56;
    let buf: [u8; N] = kani::any();
    let n: usize = kani::any();
    kani::assume(n <= N);
    let r = Storage::<MemoryStorage>::with_data(MemoryStorage::from_buffer("x", buf[..n].to_vec()));
    std::mem::forget(r);
}

fn fmt_stub(_args: std::fmt::Arguments<'_>) -> String { String::new() }

// ---------- Graph probes -------------
use crate::graph::{GraphData, GraphImpl, GraphIndex};
use crate::graph_search::{GraphSearch, SearchControl, SearchHandler};

const GN: usize = 8;
pub struct ArrGraph {
    from: [i64; GN],
    to: [i64; GN],
    from_meta: [i64; GN],
    to_meta: [i64; GN],
    cap: u64,
}
impl ArrGraph {
    fn new() -> Self {
        let mut g = ArrGraph { from: [0; GN], to: [0; GN], from_meta: [0; GN], to_meta: [0; GN], cap: 1 };
        g.from_meta[0] = i64::MIN;
        g
    }
}
impl<D: StorageData> GraphData<D> for ArrGraph {
    fn capacity(&self) -> Result<u64, DbError> { Ok(self.cap) }
    fn commit(&mut self, _s: &mut Storage<D>, _id: u64) -> Result<(), DbError> { Ok(()) }
    fn free_index(&self, _s: &Storage<D>) -> Result<i64, DbError> { Ok(self.from_meta[0]) }
    fn from(&self, _s: &Storage<D>, i: GraphIndex) -> Result<i64, DbError> { Ok(self.from[i.as_u64() as usize]) }
    fn from_meta(&self, _s: &Storage<D>, i: GraphIndex) -> Result<i64, DbError> { Ok(self.from_meta[i.as_u64() as usize]) }
    fn grow(&mut self, _s: &mut Storage<D>) -> Result<(), DbError> { kani::assume((self.cap as usize) < GN); self.cap += 1; Ok(()) }
    fn node_count(&self, _s: &Storage<D>) -> Result<u64, DbError> { Ok(self.to_meta[0] as u64) }
    fn set_from(&mut self, _s: &mut Storage<D>, i: GraphIndex, v: i64) -> Result<(), DbError> { self.from[i.as_u64() as usize] = v; Ok(()) }
    fn set_from_meta(&mut self, _s: &mut Storage<D>, i: GraphIndex, v: i64) -> Result<(), DbError> { self.from_meta[i.as_u64() as usize] = v; Ok(()) }
    fn set_node_count(&mut self, _s: &mut Storage<D>, c: u64) -> Result<(), DbError> { self.to_meta[0] = c as i64; Ok(()) }
    fn set_to(&mut self, _s: &mut Storage<D>, i: GraphIndex, v: i64) -> Result<(), DbError> { self.to[i.as_u64() as usize] = v; Ok(()) }
    fn set_to_meta(&mut self, _s: &mut Storage<D>, i: GraphIndex, v: i64) -> Result<(), DbError> { self.to_meta[i.as_u64() as usize] = v; Ok(()) }
    fn shrink_to_fit(&mut self, _s: &mut Storage<D>) -> Result<(), DbError> { Ok(()) }
    fn to(&self, _s: &Storage<D>, i: GraphIndex) -> Result<i64, DbError> { Ok(self.to[i.as_u64() as usize]) }
    fn to_meta(&self, _s: &Storage<D>, i: GraphIndex) -> Result<i64, DbError> { Ok(self.to_meta[i.as_u64() as usize]) }
    fn transaction(&mut self, _s: &mut Storage<D>) -> u64 { 0 }
}

struct AllHandler;
impl SearchHandler for AllHandler {
    fn process(&mut self, _i: GraphIndex, _d: u64) -> Result<SearchControl, DbError> { Ok(SearchControl::Continue(true)) }
}

fn null_storage() -> Storage<MemoryStorage> {
    // version record only: index 0, size 8, version 1
    let mut b = vec![0u8; 24];
    b[8] = 8; b[16] = 1;
    Storage::<MemoryStorage>::with_data(MemoryStorage::from_buffer("x", b)).unwrap()
}

// P3: 3 nodes, 3 symbolic edges, then BFS from symbolic node; check result is set of reachable
#[kani::proof]
#[kani::stub(std::fmt::format, fmt_stub)]
#[kani::unwind(26)]
fn p3_graph_bfs() {
    let mut s = null_storage();
    let mut g = GraphImpl::<MemoryStorage, ArrGraph>::from_data_probe(ArrGraph::new());
    for _ in 0..3 { g.insert_node(&mut s).unwrap(); }
    let mut adj = [[false; 4]; 4];
    for _ in 0..3 {
        let a: i64 = kani::any(); let b: i64 = kani::any();
        kani::assume(a >= 1 && a <= 3 && b >= 1 && b <= 3);
        let e = g.insert_edge(&mut s, GraphIndex(a), GraphIndex(b)).unwrap();
        assert!(e.0 < 0);
        adj[a as usize][b as usize] = true;
    }
    // a removal
    let rn: i64 = kani::any();
    kani::assume(rn >= 1 && rn <= 3);
    g.remove_node(&mut s, GraphIndex(rn)).unwrap();
    for i in 0..4 { adj[rn as usize][i] = false; adj[i][rn as usize] = false; }
    let o: i64 = kani::any();
    kani::assume(o >= 1 && o <= 3 && o != rn);
    let res = GraphSearch::from((&g, &s)).breadth_first_search(GraphIndex(o), AllHandler).unwrap();
    // reference reachability
    let mut reach = [false; 4];
    reach[o as usize] = true;
    for _ in 0..3 { for i in 1..4 { if reach[i] { for j in 1..4 { if adj[i][j] { reach[j] = true; } } } } }
    assert!(res[0] == GraphIndex(o));
    for n in 1..4i64 {
        let cnt = res.iter().filter(|x| x.0 == n).count();
        assert_eq!(cnt, reach[n as usize] as usize);
    }
    std::mem::forget(s); std::mem::forget(res);
}

// ---------- MultiMap probes -------------
use crate::collections::map::{MapData, MapValueState};
use crate::collections::multi_map::MultiMapImpl;
use std::marker::PhantomData;

const MC: usize = 64;
pub struct ArrMap {
    states: [u8; MC], // 0 empty 1 valid 2 deleted
    keys: [u64; MC],
    values: [u64; MC],
    len: u64,
    cap: u64,
}
impl<D: StorageData> MapData<u64, u64, D> for ArrMap {
    fn capacity(&self) -> u64 { self.cap }
    fn commit(&mut self, _s: &mut Storage<D>, _id: u64) -> Result<(), DbError> { Ok(()) }
    fn len(&self) -> u64 { self.len }
    fn key(&self, _s: &Storage<D>, i: u64) -> Result<u64, DbError> { Ok(self.keys[i as usize]) }
    fn remove_from_storage(self, _s: &mut Storage<D>) -> Result<(), DbError> { Ok(()) }
    fn resize(&mut self, _s: &mut Storage<D>, c: u64) -> Result<(), DbError> {
        kani::assume(c as usize <= MC);
        for i in (c as usize)..MC { self.states[i] = 0; self.keys[i] = 0; self.values[i] = 0; }
        self.cap = c; Ok(())
    }
    fn set_len(&mut self, _s: &mut Storage<D>, l: u64) -> Result<(), DbError> { self.len = l; Ok(()) }
    fn set_state(&mut self, _s: &mut Storage<D>, i: u64, st: MapValueState) -> Result<(), DbError> {
        self.states[i as usize] = match st { MapValueState::Empty => 0, MapValueState::Valid => 1, MapValueState::Deleted => 2 }; Ok(())
    }
    fn set_key(&mut self, _s: &mut Storage<D>, i: u64, k: &u64) -> Result<(), DbError> { self.keys[i as usize] = *k; Ok(()) }
    fn set_value(&mut self, _s: &mut Storage<D>, i: u64, v: &u64) -> Result<(), DbError> { self.values[i as usize] = *v; Ok(()) }
    fn shrink_to_fit(&mut self, _s: &mut Storage<D>) -> Result<(), DbError> { Ok(()) }
    fn state(&self, _s: &Storage<D>, i: u64) -> Result<MapValueState, DbError> {
        Ok(match self.states[i as usize] { 0 => MapValueState::Empty, 1 => MapValueState::Valid, _ => MapValueState::Deleted })
    }
    fn swap(&mut self, _s: &mut Storage<D>, a: u64, b: u64) -> Result<(), DbError> {
        self.states.swap(a as usize, b as usize); self.keys.swap(a as usize, b as usize); self.values.swap(a as usize, b as usize); Ok(())
    }
    fn transaction(&mut self, _s: &mut Storage<D>) -> u64 { 0 }
    fn value(&self, _s: &Storage<D>, i: u64) -> Result<u64, DbError> { Ok(self.values[i as usize]) }
}

// P4: from an arbitrary table state (cap 64) satisfying len == #valid and len < max_len,
// insert_or_replace terminates within 65 probe steps (unwinding assertion) .
#[kani::proof]
#[kani::stub(std::fmt::format, fmt_stub)]
#[kani::unwind(66)]
fn p4_multimap_insert_terminates() {
    let mut s = null_storage();
    let states: [u8; MC] = kani::any();
    let keys: [u64; MC] = kani::any();
    let mut valid = 0u64;
    for i in 0..MC { kani::assume(states[i] <= 2); if states[i] == 1 { valid += 1; } }
    kani::assume(valid < 60);
    let data = ArrMap { states, keys, values: [0; MC], len: valid, cap: 64 };
    let mut m = MultiMapImpl::<u64, u64, MemoryStorage, ArrMap> { data, phantom_marker: PhantomData };
    let k: u64 = kani::any();
    let r = m.insert_or_replace(&mut s, &k, |_| true, &7);
    assert!(r.is_ok());
    std::mem::forget(s);
}

const STUB_LOC: &std::panic::Location<'static> = std::panic::Location::caller();
fn dberror_new_stub(category: crate::db::db_error::DbErrorCategory, ty: DbErrorType, _description: impl Into<String>) -> DbError {
    DbError { description: String::new(), category, ty, cause: None, source_location: *STUB_LOC }
}

// ---------- FileStorage / WAL probe (C01) -------------
use crate::verif_fs;

fn file_content() -> ([u8; verif_fs::CAP], usize) {
    let f = &verif_fs::fs().files[0];
    (f.data, f.len)
}

#[kani::proof]
#[kani::stub(std::fmt::format, fmt_stub)]
#[kani::stub(crate::DbError::new, dberror_new_stub)]
#[kani::stub(crate::storage::write_ahead_log::WriteAheadLog::wal_filename, wal_name_stub)]
#[kani::unwind(34)]
fn p5_wal_two_writes() {
    // committed content: 8 symbolic bytes
    let init: [u8; 8] = kani::any();
    {
        let fs = verif_fs::fs();
        for i in 0..8 { fs.files[0].data[i] = init[i]; }
        fs.files[0].len = 8;
        fs.files[1].len = 0;
        fs.step = 0;
        fs.snapped = false;
        fs.crash_at = kani::any();
    }
    let mut st = FileStorage::new("db").unwrap();
    let (c0, l0) = file_content();
    // two symbolic writes of <=2 bytes each within/at end
    for _ in 0..2 {
        let pos: u64 = kani::any();
        let n: usize = kani::any();
        let bytes: [u8; 2] = kani::any();
        kani::assume(n <= 2 && pos <= st.len());
        st.write(pos, &bytes[..n]).unwrap();
    }
    std::mem::forget(st);
    let fs = verif_fs::fs();
    kani::assume(fs.snapped); // crash happened somewhere inside
    fs.files = fs.snapshot;
    fs.crash_at = u32::MAX;
    let st2 = FileStorage::new("db").unwrap();
    let (c1, l1) = file_content();
    assert_eq!(l0, l1);
    for i in 0..16 { if i < l0 { assert_eq!(c0[i], c1[i]); } }
    assert_eq!(verif_fs::fs().files[1].len, 0);
    std::mem::forget(st2);
}

#[kani::proof]
#[kani::stub(std::fmt::format, fmt_stub)]
#[kani::stub(crate::DbError::new, dberror_new_stub)]
#[kani::unwind(10)]
fn p3a_graph_ops() {
    let mut s = null_storage();
    let mut g = GraphImpl::<MemoryStorage, ArrGraph>::from_data_probe(ArrGraph::new());
    for _ in 0..3 { g.insert_node(&mut s).unwrap(); }
    let mut outc = [0u64; 4];
    let mut inc = [0u64; 4];
    for _ in 0..3 {
        let a: i64 = kani::any(); let b: i64 = kani::any();
        kani::assume(a >= 1 && a <= 3 && b >= 1 && b <= 3);
        let e = g.insert_edge(&mut s, GraphIndex(a), GraphIndex(b)).unwrap();
        assert!(e.0 < 0);
        outc[a as usize] += 1; inc[b as usize] += 1;
    }
    let rn: i64 = kani::any();
    kani::assume(rn >= 1 && rn <= 3);
    let n = g.node(&s, GraphIndex(rn)).unwrap();
    assert_eq!(n.edge_count_from(), outc[rn as usize]);
    assert_eq!(n.edge_count_to(), inc[rn as usize]);
    std::mem::forget(s);
}

#[kani::proof]
#[kani::stub(std::fmt::format, fmt_stub)]
#[kani::stub(crate::DbError::new, dberror_new_stub)]
#[kani::unwind(12)]
fn p3b_bfs_concrete_graph() {
    let mut s = null_storage();
    let mut g = GraphImpl::<MemoryStorage, ArrGraph>::from_data_probe(ArrGraph::new());
    for _ in 0..3 { g.insert_node(&mut s).unwrap(); }
    g.insert_edge(&mut s, GraphIndex(1), GraphIndex(2)).unwrap();
    g.insert_edge(&mut s, GraphIndex(2), GraphIndex(3)).unwrap();
    let o: i64 = kani::any();
    kani::assume(o >= 1 && o <= 3);
    let res = GraphSearch::from((&g, &s)).breadth_first_search(GraphIndex(o), AllHandler).unwrap();
    assert!(res[0] == GraphIndex(o));
    assert!(res.len() == (7 - 2 * o as usize));
    std::mem::forget(s); std::mem::forget(res);
}

#[kani::proof]
#[kani::stub(std::fmt::format, fmt_stub)]
#[kani::stub(crate::DbError::new, dberror_new_stub)]
#[kani::stub(crate::storage::write_ahead_log::WriteAheadLog::wal_filename, wal_name_stub)]
#[kani::stub(<crate::DbError as std::convert::From<std::io::Error>>::from, ioerr_stub)]
#[kani::unwind(20)]
fn p5a_wal_one_write() {
    let init: [u8; 4] = kani::any();
    {
        let fs = verif_fs::fs();
        for i in 0..4 { fs.files[0].data[i] = init[i]; }
        fs.files[0].len = 4;
        fs.files[1].len = 0;
        fs.step = 0;
        fs.snapped = false;
        fs.crash_at = kani::any();
    }
    let mut st = ok(FileStorage::new("db"));
    let pos: u64 = kani::any();
    let b: u8 = kani::any();
    kani::assume(pos <= 4);
    ok(st.write(pos, &[b]));
    std::mem::forget(st);
    let fs = verif_fs::fs();
    kani::assume(fs.snapped);
    fs.files = fs.snapshot;
    fs.crash_at = u32::MAX;
    let st2 = ok(FileStorage::new("db"));
    let f = &verif_fs::fs().files[0];
    assert_eq!(f.len, 4);
    for i in 0..4 { assert_eq!(f.data[i], init[i]); }
    std::mem::forget(st2);
}

fn wal_name_stub(_f: &str) -> String { String::from(".w") }

fn ok<T>(r: Result<T, DbError>) -> T { match r { Ok(v) => v, Err(_) => panic!("unexpected Err") } }

fn ioerr_stub(_e: std::io::Error) -> DbError { DbError { description: String::new(), category: crate::db::db_error::DbErrorCategory::Db, ty: DbErrorType::TypeError, cause: None, source_location: *STUB_LOC } }

#[cfg(agdb_verif)]
#[kani::proof]
fn p0_cfg_passthrough() {
    let x: u8 = kani::any();
    assert!(x as u16 <= 255);
}
