#![allow(dead_code, unused)]
mod raft;
mod server_error {
    #[derive(Debug)]
    pub struct ServerError { pub description: String }
    pub type ServerResult<T = ()> = Result<T, ServerError>;
}
mod vclock {
    use std::time::Duration;
    static mut NOW_MS: u64 = 0;
    pub fn set(ms: u64) { unsafe { NOW_MS = ms; } }
    #[derive(Clone, Copy, Debug)]
    pub struct Instant(u64);
    impl Instant {
        pub fn now() -> Self { Instant(unsafe { NOW_MS }) }
        pub fn elapsed(&self) -> Duration { Duration::from_millis(unsafe { NOW_MS } - self.0) }
    }
}
fn main() {}
