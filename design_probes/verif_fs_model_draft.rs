//! Model file system for verification: two files (data, wal) held in static byte arrays.
use std::io::{Error, ErrorKind, Result, SeekFrom};

pub const CAP: usize = 64;

#[derive(Clone, Copy)]
pub struct FileState {
    pub data: [u8; CAP],
    pub len: usize,
}

pub struct Fs {
    pub files: [FileState; 2],
    pub step: u32,      // number of mutating calls performed
    pub crash_at: u32,  // snapshot is taken just before mutating call number crash_at
    pub snapshot: [FileState; 2],
    pub snapped: bool,
}

pub static mut FS: Fs = Fs {
    files: [FileState { data: [0; CAP], len: 0 }; 2],
    step: 0,
    crash_at: u32::MAX,
    snapshot: [FileState { data: [0; CAP], len: 0 }; 2],
    snapped: false,
};

#[allow(static_mut_refs)]
pub fn fs() -> &'static mut Fs {
    unsafe { &mut FS }
}

fn before_mutation() {
    let f = fs();
    if f.step == f.crash_at && !f.snapped {
        f.snapshot = f.files;
        f.snapped = true;
    }
    f.step += 1;
}

fn slot_of(name: &str) -> usize {
    if name.as_bytes().first() == Some(&b'.') { 1 } else { 0 }
}

#[derive(Debug)]
pub struct File {
    slot: usize,
    pos: std::cell::Cell<u64>,
}

pub struct OpenOptions;

impl OpenOptions {
    pub fn new() -> Self { OpenOptions }
    pub fn read(&mut self, _v: bool) -> &mut Self { self }
    pub fn write(&mut self, _v: bool) -> &mut Self { self }
    pub fn truncate(&mut self, _v: bool) -> &mut Self { self }
    pub fn create(&mut self, _v: bool) -> &mut Self { self }
    pub fn open<P: AsRef<str>>(&self, name: P) -> Result<File> {
        Ok(File { slot: slot_of(name.as_ref()), pos: std::cell::Cell::new(0) })
    }
}

impl File {
    pub fn open<P: AsRef<str>>(name: P) -> Result<File> {
        Ok(File { slot: slot_of(name.as_ref()), pos: std::cell::Cell::new(0) })
    }
    pub fn set_len(&self, len: u64) -> Result<()> {
        before_mutation();
        let st = &mut fs().files[self.slot];
        let len = len as usize;
        if len > CAP { return Err(Error::from(ErrorKind::Other)); }
        let mut i = st.len;
        while i < len { st.data[i] = 0; i += 1; }
        st.len = len;
        Ok(())
    }
    fn do_seek(&self, pos: SeekFrom) -> Result<u64> {
        let len = fs().files[self.slot].len as u64;
        let new = match pos {
            SeekFrom::Start(p) => p,
            SeekFrom::End(o) => (len as i64 + o) as u64,
            SeekFrom::Current(o) => (self.pos.get() as i64).wrapping_add(o) as u64,
        };
        self.pos.set(new);
        Ok(new)
    }
    fn do_read_exact(&self, buf: &mut [u8]) -> Result<()> {
        let st = &fs().files[self.slot];
        let pos = self.pos.get() as usize;
        if pos > st.len || st.len - pos < buf.len() {
            return Err(Error::from(ErrorKind::UnexpectedEof));
        }
        let mut i = 0;
        while i < buf.len() { buf[i] = st.data[pos + i]; i += 1; }
        self.pos.set((pos + buf.len()) as u64);
        Ok(())
    }
    fn do_write_all(&self, buf: &[u8]) -> Result<()> {
        before_mutation();
        let st = &mut fs().files[self.slot];
        let pos = self.pos.get() as usize;
        if pos + buf.len() > CAP { return Err(Error::from(ErrorKind::Other)); }
        let mut i = st.len;
        while i < pos { st.data[i] = 0; i += 1; }
        let mut i = 0;
        while i < buf.len() { st.data[pos + i] = buf[i]; i += 1; }
        if pos + buf.len() > st.len { st.len = pos + buf.len(); }
        self.pos.set((pos + buf.len()) as u64);
        Ok(())
    }
}

impl std::io::Seek for File {
    fn seek(&mut self, pos: SeekFrom) -> Result<u64> { self.do_seek(pos) }
}
impl std::io::Seek for &File {
    fn seek(&mut self, pos: SeekFrom) -> Result<u64> { self.do_seek(pos) }
}
impl std::io::Read for File {
    fn read(&mut self, _buf: &mut [u8]) -> Result<usize> { unimplemented!() }
    fn read_exact(&mut self, buf: &mut [u8]) -> Result<()> { self.do_read_exact(buf) }
}
impl std::io::Read for &File {
    fn read(&mut self, _buf: &mut [u8]) -> Result<usize> { unimplemented!() }
    fn read_exact(&mut self, buf: &mut [u8]) -> Result<()> { self.do_read_exact(buf) }
}
impl std::io::Write for File {
    fn write(&mut self, _buf: &[u8]) -> Result<usize> { unimplemented!() }
    fn write_all(&mut self, buf: &[u8]) -> Result<()> { self.do_write_all(buf) }
    fn flush(&mut self) -> Result<()> { Ok(()) }
}
