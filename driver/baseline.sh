#!/bin/bash
# Runs the repository's pinned test suite with the verification guard OFF
# (no --cfg agdb_verif, not under Kani) and compares with BASELINE.json:
# exit 0 iff every test in stable_pass passes.
set -u
REPO="${VERIF_REPO:-/repo}"
OUT="$(mktemp -d "${TMPDIR:-/tmp}/agdb-baseline-XXXXXX")"
trap 'rm -rf "$OUT"' EXIT
cd "$REPO" || exit 2
unset RUSTFLAGS AGDB_VERIF_HARNESS
export CARGO_NET_OFFLINE=true
cargo nextest run --workspace --no-fail-fast --tool-config-file pb:/w/lib/nextest.toml --profile pb --test-threads 8 --offline > "$OUT/log" 2>&1
rc=$?
J="$REPO/target/nextest/pb/junit.xml"
python3 - "$J" "$rc" <<'PY'
import json, sys, xml.etree.ElementTree as ET
j, rc = sys.argv[1], sys.argv[2]
base = set(json.load(open('/root/.vp/BASELINE.json'))['stable_pass'])
passed, failed = set(), set()
for tc in ET.parse(j).getroot().iter('testcase'):
    tid = (tc.get('classname') or '') + '::' + (tc.get('name') or '')
    if tc.find('failure') is not None or tc.find('error') is not None or tc.find('flakyFailure') is not None:
        failed.add(tid)
    elif tc.find('skipped') is None:
        passed.add(tid)
passed -= failed
missing = sorted(base - passed)
names = {}
for tc in ET.parse(j).getroot().iter('testcase'):
    names[(tc.get('classname') or '') + '::' + (tc.get('name') or '')] = (tc.get('classname'), tc.get('name'))
# The server tests start real server processes and are timing sensitive under
# load; a baseline test that did not pass is retried alone (up to 2 times)
# before it is reported.
import subprocess
if 0 < len(missing) <= 40:
    still = []
    for m in missing:
        cls, name = names.get(m, (None, None))
        okk = False
        if name:
            for _ in range(2):
                r = subprocess.run(['cargo', 'nextest', 'run', '--workspace', '--offline', '--test-threads', '2',
                                    '-E', f'test(={name})'], capture_output=True, text=True)
                if r.returncode == 0 and '1 passed' in (r.stdout + r.stderr):
                    okk = True
                    break
        print(('  RETRY-PASS: ' if okk else '  RETRY-FAIL: ') + m)
        if not okk:
            still.append(m)
    missing = still
print(f"nextest rc={rc} passed={len(passed)} failed={len(failed)} baseline={len(base)} baseline_not_passing={len(missing)}")
for m in missing[:40]:
    print("  NOT PASSING:", m)
sys.exit(0 if not missing else 1)
PY
