#!/usr/bin/env python3
"""Fills seeded/<name>/meta.json with the change description and the check result, and injects the
table into DESIGN.md (placeholder SEEDED_TABLE or the previously generated block)."""
import json, os, re
V = os.path.dirname(os.path.dirname(os.path.abspath(__file__)))
INFO = {
 "C04_1": ("StorageRecords::clear_free no longer clears the by-size free index", "a free region in the middle, then optimize_storage, then an insert that fits the stale region: a live record is overwritten", "MISSED (exit 0): the free-space index functions are replaced by a contract model in every C04 harness because CBMC cannot execute BTreeMap<u64, BTreeSet<u64>>; stated limit of the C04 claim"),
 "C04_2": ("Storage::enlarge_in_place drops a remainder of exactly one header (16 bytes)", "a non-last value growing into the free region behind it by exactly its data size, then a reopen", "VIOLATION by c04_hist_grow_inplace_a (file no longer tiled by records and free regions)"),
 "C08_1": ("GraphImpl::free_index no longer resets the slot's to_meta", "a slot freed with a non-zero to_meta and reused by insert_node: the new node reports incoming edges", "VIOLATION by c08_edge_unlink_positions, c08_remove_node_cascade, c08_reuse_after_remove_node"),
 "C08_2": ("GraphImpl::remove_to_edge decrements the incoming count only on the head-of-list path", "removing an incoming edge that is not the newest one of its target", "VIOLATION by c08_edge_unlink_positions, c08_edge_slot_reuse_after_unlink, c08_remove_node_cascade"),
 "C12_1": ("store_db_value decides inline vs out of line by the CHARACTER count of a string", "a non-ASCII string of >= 16 bytes but < 16 characters: neither stored inline nor written, reads back empty", "first INCONCLUSIVE (the new loop over the bytes exceeded the unwind bound of six string harnesses); VIOLATION by c12_string_nonascii_placement_by_byte_length after that harness was added"),
 "C12_2": ("DbF64::serialize writes the canonical NaN for every NaN", "an f64 vector containing a NaN with payload / sign / signalling bit", "first INCONCLUSIVE (two f64-vector harnesses timed out on the added float branch); VIOLATION by c12_f64_vector_element_encoding_is_bit_exact after that harness was added"),
 "C14_1": ("SearchImpl::process_index returns early for an already visited element (sibling chain cut)", "origin is an edge, a cycle leads back to its source node, and that node has an edge older than the origin", "VIOLATION by c14_edge_origin_cycle_older_sibling"),
 "C14_2": ("reverse depth-first expand chains next_edge_from instead of next_edge_to", "reverse DFS over a node with two or more incoming edges from different sources", "VIOLATION by c14_triangle_reverse, c14_parallel_selfloop_reverse, c14_reused_slot_order, c14_after_node_removal, c14_edge_origin_cycle_older_sibling"),
 "C15_1": ("evaluate_conditions: a passing `beyond` yields Continue(true) instead of the accumulated value", "`beyond` not first in its list, joined with `or`, accumulated result false", "VIOLATION by c15_evaluate_conditions_flat_list and c15_evaluate_conditions_nested_where"),
 "C15_2": ("Comparison::LessThan loses the same-type guard", "LessThan between a stored value and a condition value of a later-declared type", "VIOLATION by c15_compare_ordering_is_type_strict"),
 "C19_1": ("MultiMapIterator::next: `continue` on a non-matching Valid slot skips the stop-at-start check", "a table without an Empty slot and a Valid foreign key just before the home slot: lookups never end", "VIOLATION by c19_lookup_terminates_cap8, c19_iter_key_terminates_cap8, c19_remove_key_terminates_cap8 (termination oracle, no native replay possible)"),
 "C19_2": ("MultiMapImpl::free_index accepts only Empty slots (tombstones treated as occupied)", "every Empty slot used up by insert/remove cycles at capacity 64: insert never ends", "VIOLATION by c19_insert_terminates_cap8"),
 "C20_1": ("SystemTime::deserialize adds the nanoseconds in the before-epoch branch", "a SystemTime before the epoch with a non-zero sub-second part", "VIOLATION by c20_system_time"),
 "C20_2": ("derive(DbSerialize): serialized_size of an enum struct-variant omits the tag byte", "a user enum with a struct variant, followed by more data or size-checked", "VIOLATION by c20_derive_enum and c20_derive_nested_generic"),
 "C21_1": ("SystemTime::deserialize back to Duration::new(secs, nanos)", "13 bytes with nanos >= 10^9 and seconds within 4 of u64::MAX", "VIOLATION by c21_system_time_duration"),
 "C21_2": ("derive(DbSerialize): generated enum deserializer indexes buffer[0]", "an empty remaining slice reaching a derived enum (incl. DbValue, QueryId)", "VIOLATION by c21_derive_corpus, c21_key_value_pinned_tags, c21_query_id_count_comparison"),
 "C06_1": ("FileStorageMemoryMapped::resize resizes its memory copy only when growing", "a shrink followed by a grow: the memory copy keeps the old tail and serves stale bytes where every other variant reads zeros", "first MISSED (quick tier made one call per variant; two symbolic calls only in thorough); VIOLATION by c06_memory_mapped_shrink_then_grow after the shrink-then-grow harnesses were added to quick"),
 "C06_2": ("FileStorage::write counts every growing write as a pure append", "one write that starts inside the data and ends past the end", "VIOLATION by c06_file_storage_one_call, c06_any_file_matches_reference, c06_memory_mapped_one_call"),
 "C07_1": ("Storage::extract_version: fit check drops the header size", "a file truncated inside the version record value (length 17..=23) or a version size reaching into the last 16 bytes", "VIOLATION by c07_mem_bad_version_size"),
 "C07_2": ("GraphDataStorageIndexes::deserialize slices exact 8-byte ranges instead of open-ended ones", "a graph index record shorter than 32 bytes in an otherwise consistent file", "VIOLATION by c07_graph_storage_indexes_arbitrary"),
 "C10_1": ("IndexedMapImpl::insert: the 'key already existed' branch returns before removing the stale forward entry", "one insert that is both a steal and a re-alias: a->1, b->2, then a->2", "first MISSED (needs three inserts; the quick tier had two); VIOLATION by c10_indexed_map_inserts_keep_bijection after that harness (1..3 symbolic inserts) was moved from thorough to quick"),
 "C10_2": ("IndexedMapImpl::insert: reverse removal guarded by `v != *value`", "inserting the identical (alias, node) pair twice", "VIOLATION by c10_indexed_map_two_inserts_keep_bijection"),
 "C16_1": ("SearchQuery::sort: `(None, None) => break` instead of Equal", "ordered search with two or more keys where two elements both lack a non-last key but differ on a later one", "MISSED (exit 0): the sort comparator reads values through DbImpl, which is outside the C16 claim (stated in the manifest)"),
 "C16_2": ("LimitOffsetHandler::process returns Continue(false) early for elements skipped by the offset", "unordered search with limit AND offset and a not_beyond/beyond condition whose Stop falls on a skipped element", "MISSED (exit 0): the handler harnesses use an empty condition list; a variant with pruning conditions was written and ran out of memory (conditions on the heap), so pruning conditions in the streaming handlers stay outside the claim"),
 "C17_1": ("PathSearch::sort_paths orders by number of elements first, cost second", "a path with more hops that is strictly cheaper", "VIOLATION by c17_sort_paths_cheapest_last"),
 "C17_2": ("PathSearch::expand_node exempts the destination from 'stopped elements cannot be used'", "conditions that evaluate to Stop exactly on the destination", "VIOLATION by c17_expand_successors, c17_expand_skips_selfloop, c17_single_edge_end_to_end"),
 "C22_1": ("derive(DbType): the generated reader of a renamed Option field looks the value up under the field identifier", "a field that is both Option<T> and renamed and holds Some", "first MISSED (no corpus type had a field both renamed and optional); VIOLATION by c22_renamed_option_field after that harness was added"),
 "C22_2": ("TryFrom<DbValue> for f32 rejects values beyond f32::MAX, i.e. also +-infinity", "an f32 field holding an infinity", "first MISSED (no f32 in the corpus); VIOLATION by c22_scalar_conversions_are_lossless (all 2^32 f32 bit patterns) after that harness was added"),
 "C09_1": ("DbKeyValues::remove_value removes by swap-with-last instead of shifting", "an element with >= 3 keys, removal of a key with >= 2 pairs behind it, then an order-sensitive selection", "first MISSED by construction (no C09 harness removed from a list of three); VIOLATION by c09_remove_first_of_three_keeps_order after that harness was added"),
 "C18_1": ("GraphImpl::next_element skips at most ONE freed slot (`while` became `if`)", "two or more adjacent freed, not reused slots: the second freed id is returned as a live element", "VIOLATION by c18_iter_slot_order (symbolic history reaches two adjacent freed slots; the two ElementSearch harnesses on concrete histories pass)"),
 "C29_1": ("validate_log_for_vote compares the voter's last log term with the candidate's ELECTION term instead of its last log term", "a candidate with a longer log of an older term than the voter's, the voter not yet knowing the commit index; lost commit heartbeats, then re-election", "VIOLATION by c29_vote_only_for_up_to_date_candidate (lemma L6)"),
 "C32_1": ("Storage::end_transaction flushes before decrementing the nesting counter (`?` on flush leaks the counter)", "a failing StorageData::flush at an outermost commit (writes all succeed), then a later successful mutation, close and reopen", "first MISSED by construction (the array back end's flush could not fail); VIOLATION by c32_failed_flush_closes_transaction after flush-failure injection and that harness were added"),
}
rows = []
for name in sorted(os.listdir(os.path.join(V, "seeded"))):
    mp = os.path.join(V, "seeded", name, "meta.json")
    if not os.path.exists(mp):
        continue
    m = json.load(open(mp))
    if name in INFO:
        ch, needs, res = INFO[name]
        m.update({"change": ch, "needs_to_manifest": needs, "check_result": res,
                  "ran": f"driver/test_seeded.sh {name} {name[:3]} seeded/{name}/patch.diff  (quick check against a scratch worktree of /repo HEAD with the patch applied)"})
        json.dump(m, open(mp, "w"), indent=1)
    conf = m.get("confirmation", {}).get("confirmed")
    rows.append(f"| {name} | {m.get('change','')} | {m.get('needs_to_manifest','')} | {'yes' if conf else 'NO'} | {m.get('check_result','')} |")
table = ("<!-- seeded table begin -->\n| change | what it is | needs, to manifest | confirmed | result of the property's quick check |\n| --- | --- | --- | --- | --- |\n"
         + "\n".join(rows) + "\n<!-- seeded table end -->")
dp = os.path.join(V, "DESIGN.md")
s = open(dp).read()
if "SEEDED_TABLE" in s:
    s = s.replace("SEEDED_TABLE", table)
else:
    s = re.sub(r"<!-- seeded table begin -->.*?<!-- seeded table end -->", lambda _: table, s, flags=re.S)
open(dp, "w").write(s)
print(len(rows), "rows")
