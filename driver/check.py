#!/usr/bin/env python3
"""Driver for the solver-based checks (Kani/CBMC) of agnesoft/agdb.

usage: check.py <PROPERTY_ID> [--tier quick|thorough] [--harness NAME ...]
                [--jobs N] [--keep] [--no-replay] [--list]
       check.py --replay <path>

Exit status: 0 = every obligation of the property was decided by the solver and
held within its bounds (known findings are printed, not failed);
1 = at least one violation that is not a listed known finding, confirmed by
native replay (line "VIOLATION property=<id> replay=<path>");
2 = inconclusive (time-out, out-of-memory, build error, counterexample that did
not replay natively, vacuous harness) -- never reported as success.
"""
import argparse
import concurrent.futures
import json
import os
import re
import shlex
import shutil
import signal
import subprocess
import sys
import tempfile
import time

VERIF = os.path.dirname(os.path.dirname(os.path.abspath(__file__)))
REPO = os.environ.get("VERIF_REPO", "/repo")
HARNESS_AGDB = os.path.join(VERIF, "harness", "agdb")
HARNESS_RAFT = os.path.join(VERIF, "harness", "raft")
KNOWN_FILE = os.path.join(VERIF, "KNOWN_FINDINGS.txt")
EVIDENCE_DIR = os.path.join(VERIF, "evidence")
REPLAY_DIR = os.path.join(VERIF, "replay")

DEFAULT_MEM_GB = 10
TIMEOUT_SCALE = float(os.environ.get("VERIF_TIMEOUT_SCALE", "1.0"))


# --------------------------------------------------------------------------
# registry
# --------------------------------------------------------------------------

def parse_kv(line):
    out = {}
    for m in re.finditer(r'(\w+)=("([^"]*)"|\S+)', line):
        out[m.group(1)] = m.group(3) if m.group(3) is not None else m.group(2)
    return out


def load_registry():
    """Harnesses are declared in the harness sources themselves:
    a line `//@ id=C16 tier=quick timeout=300 bounds="..." desc="..."` followed
    (within a few lines) by the `fn name()` of a `#[kani::proof]`."""
    reg = []
    for crate, d in (("agdb", HARNESS_AGDB), ("raft", HARNESS_RAFT)):
        if not os.path.isdir(d):
            continue
        for fn in sorted(os.listdir(d)):
            if not fn.endswith(".rs"):
                continue
            path = os.path.join(d, fn)
            lines = open(path).read().split("\n")
            for i, l in enumerate(lines):
                s = l.strip()
                if not s.startswith("//@ "):
                    continue
                kv = parse_kv(s[4:])
                name = None
                stubs = []
                for j in range(i + 1, min(i + 40, len(lines))):
                    ms = re.search(r"kani::stub\(\s*([^,]+),", lines[j])
                    if ms:
                        stubs.append(ms.group(1).strip())
                    m = re.match(r"\s*(?:pub\s+)?fn\s+(\w+)\s*\(", lines[j])
                    if m:
                        name = m.group(1)
                        break
                if not name:
                    raise SystemExit(f"registry: no fn after //@ line {path}:{i+1}")
                kv["name"] = name
                kv["ids"] = [x for x in kv.get("id", "").split(",") if x]
                kv["file"] = path
                kv["crate"] = kv.get("crate", crate)
                kv["stubs"] = stubs
                kv.setdefault("tier", "quick")
                kv.setdefault("timeout", "600")
                kv.setdefault("mem", str(DEFAULT_MEM_GB))
                reg.append(kv)
    names = [h["name"] for h in reg]
    dup = {n for n in names if names.count(n) > 1}
    if dup:
        raise SystemExit(f"registry: duplicate harness names {dup}")
    return reg


def load_known():
    known, fixed = [], []
    if os.path.exists(KNOWN_FILE):
        for l in open(KNOWN_FILE):
            l = l.strip()
            if not l or l.startswith("#"):
                continue
            if l.startswith("known:"):
                body, _, what = l[6:].partition(" :: ")
                kv = parse_kv(body)
                kv["what"] = what.strip()
                known.append(kv)
            elif l.startswith("fixed:"):
                fixed.append(l)
    return known, fixed


# --------------------------------------------------------------------------
# running kani
# --------------------------------------------------------------------------

def kani_env(crate="agdb"):
    env = dict(os.environ)
    env["CARGO_NET_OFFLINE"] = "true"
    env["AGDB_VERIF_HARNESS"] = HARNESS_AGDB
    flags = env.get("RUSTFLAGS", "")
    if crate == "agdb" and "agdb_verif" not in flags:
        # the Raft scratch crate uses agdb only for the DbId type: hooks stay off there
        env["RUSTFLAGS"] = (flags + " --cfg agdb_verif").strip()
    env.pop("CARGO_TARGET_DIR", None)
    return env


def make_raft_crate(scratch):
    """Scratch crate with a verbatim copy of the current agdb_server/src/raft.rs,
    one mechanical substitution (Instant -> virtual clock) and the harness module
    appended inside that module. Returns crate dir or raises."""
    d = os.path.join(scratch, "raftcrate")
    if os.path.exists(os.path.join(d, "Cargo.toml")):
        return d
    os.makedirs(os.path.join(d, "src"), exist_ok=True)
    src = open(os.path.join(REPO, "agdb_server", "src", "raft.rs")).read()
    needle = "use std::time::Instant;"
    if src.count(needle) != 1:
        raise RuntimeError(f"raft.rs: expected exactly one `{needle}`, found {src.count(needle)}")
    src = src.replace(needle, "use crate::vclock::Instant;")
    # the file's own unit-test module (needs tokio/anyhow, irrelevant here) is cut so
    # that native replay (`cargo kani playback`, which builds cfg(test)) compiles
    tm = "\n#[cfg(test)]\nmod test {"
    if src.count(tm) > 1:
        raise RuntimeError("raft.rs: more than one `#[cfg(test)] mod test`")
    if src.count(tm) == 1:
        src = src[:src.index(tm)] + "\n"
    harness = ""
    for fn in sorted(os.listdir(HARNESS_RAFT)):
        if fn.endswith("_h.rs"):
            harness += open(os.path.join(HARNESS_RAFT, fn)).read() + "\n"
    src += "\n// ---- verification harness (appended by /verif/driver/check.py) ----\n"
    src += "#[cfg(kani)]\n#[allow(unused, dead_code)]\npub(crate) mod verif_h {\nuse super::*;\n" + harness + "\n}\n"
    open(os.path.join(d, "src", "raft.rs"), "w").write(src)
    shutil.copy(os.path.join(HARNESS_RAFT, "lib.rs"), os.path.join(d, "src", "lib.rs"))
    open(os.path.join(d, "Cargo.toml"), "w").write(
        '[package]\nname = "raftcheck"\nversion = "0.0.0"\nedition = "2024"\n\n[workspace]\n\n'
        '[dependencies]\nserde = { version = "1", features = ["derive"] }\n'
        f'agdb = {{ path = "{REPO}/agdb" }}\n\n'
        "[lints.rust]\nunexpected_cfgs = { level = \"allow\", check-cfg = ['cfg(kani)'] }\n"
    )
    shutil.copy(os.path.join(REPO, "Cargo.lock"), os.path.join(d, "Cargo.lock"))
    return d


def kani_cmd(h, target_dir, extra=None):
    cmd = ["cargo", "kani"]
    if h["crate"] == "agdb":
        cmd += ["-p", "agdb"]
    cmd += ["--harness", h["name"], "-Z", "stubbing", "-Z", "unstable-options",
            "--target-dir", target_dir, "--output-format", "regular"]
    if h["crate"] == "raft":
        cmd += ["-Z", "async-lib"]
    if h.get("reach") != "1" and "--no-assertion-reach-checks" not in (h.get("args") or ""):
        # per-check reachability probes cost 10-15 extra SAT calls per harness;
        # vacuity is guarded by the mandatory kani::cover! properties instead
        cmd += ["--no-assertion-reach-checks"]
    if h.get("solver"):
        cmd += ["--solver", h["solver"]]
    if h.get("args"):
        cmd += shlex.split(h["args"])
    if extra:
        cmd += extra
    if h.get("cbmc"):
        cmd += ["--cbmc-args"] + shlex.split(h["cbmc"])
    return cmd


def run_limited(cmd, cwd, env, timeout, mem_gb, log_path):
    """Run under a virtual-memory cap and a wall-clock cap; returns (rc|None, secs)."""
    kb = int(mem_gb * 1024 * 1024)
    shell = f"ulimit -v {kb}; exec " + " ".join(shlex.quote(c) for c in cmd)
    t0 = time.time()
    with open(log_path, "w") as log:
        p = subprocess.Popen(["bash", "-c", shell], cwd=cwd, env=env, stdout=log,
                             stderr=subprocess.STDOUT, start_new_session=True)
        try:
            rc = p.wait(timeout=timeout)
        except subprocess.TimeoutExpired:
            try:
                os.killpg(p.pid, signal.SIGKILL)
            except ProcessLookupError:
                pass
            p.wait()
            rc = None
    return rc, time.time() - t0


CHECK_RE = re.compile(
    r"^Check (\d+): (.+)\n\t - Status: (\w+)\n\t - Description: \"(.*)\"\n\t - Location: (.*)$",
    re.M)


def parse_kani_output(text):
    res = {"checks": 0, "failed": [], "unreachable": 0, "success": 0, "undetermined": 0,
           "covers_total": 0, "covers_sat": 0, "repo_decided": 0, "covers_unsat": [], "verdict": None,
           "time_s": None, "stubs_seen": [], "errors": []}
    for m in CHECK_RE.finditer(text):
        _, cname, status, desc, loc = m.groups()
        func = loc.split(" in function ")[-1].strip() if " in function " in loc else loc.strip()
        if ".cover." in cname or status in ("SATISFIED", "UNSATISFIABLE"):
            res["covers_total"] += 1
            if status == "SATISFIED":
                res["covers_sat"] += 1
            else:
                res["covers_unsat"].append(desc)
            continue
        res["checks"] += 1
        in_repo = not re.search(r"rustlib/src/rust|/\.kani/|library/kani|<builtin-library", loc)
        if in_repo and status in ("SUCCESS", "FAILURE"):
            res["repo_decided"] += 1
        if status == "SUCCESS":
            res["success"] += 1
        elif status == "UNREACHABLE":
            res["unreachable"] += 1
        elif status == "FAILURE":
            res["failed"].append({"check": cname, "desc": desc, "func": func, "loc": loc})
        else:
            res["undetermined"] += 1
    m = re.search(r"^VERIFICATION:- (\w+)", text, re.M)
    if m:
        res["verdict"] = m.group(1)
    m = re.search(r"^Verification Time: ([0-9.]+)s", text, re.M)
    if m:
        res["time_s"] = float(m.group(1))
    res["stubs_seen"] = re.findall(r"^\s*- Stub: (.*)$", text, re.M)
    for pat in (r"^error(\[E\d+\])?:.*$", r"^CBMC failed.*$", r".*ran out of memory.*", r"^Out of memory.*",
                r".*std::bad_alloc.*", r"^Killed.*", r"memory allocation of \d+ bytes failed"):
        for mm in re.finditer(pat, text, re.M | re.I):
            res["errors"].append(mm.group(0)[:300])
    return res


def check_key(f):
    """Role of a failing check: function + description, no line numbers, no values."""
    func = re.sub(r"::\{closure#\d+\}", "", f["func"])
    desc = f["desc"].strip('"')
    return f"{func}|{desc}"


def run_harness(h, scratch, tier):
    name = h["name"]
    tdir = os.path.join(scratch, "t_" + name)
    log = os.path.join(scratch, name + ".log")
    env = kani_env(h["crate"])
    if h["crate"] == "raft":
        try:
            cwd = make_raft_crate(scratch)
        except Exception as e:  # noqa
            return {"harness": name, "status": "inconclusive", "reason": f"raft crate generation: {e}",
                    "wall_s": 0.0, "parsed": None, "log": None}
    else:
        cwd = REPO
    # (registered timeouts were measured on an idle machine; never go below 15 minutes)
    timeout = max(900.0, float(h["timeout"])) * TIMEOUT_SCALE
    rc, secs = run_limited(kani_cmd(h, tdir), cwd, env, timeout, float(h["mem"]), log)
    text = open(log, errors="replace").read()
    if "invalid loop identifier" in text and h.get("cbmc"):
        # --unwindset labels are mangled names that embed the crate disambiguator, which depends on
        # the path of the checkout; take the actual one from the goto-binary name and retry once
        m = re.search(r"Reading GOTO program from file \S*?(Cs[0-9A-Za-z]+_4agdb)", text)
        if m:
            h2 = dict(h)
            h2["cbmc"] = re.sub(r"Cs[0-9A-Za-z]+_4agdb", m.group(1), h["cbmc"])
            if h2["cbmc"] != h["cbmc"]:
                h["cbmc"] = h2["cbmc"]
                rc, secs2 = run_limited(kani_cmd(h, tdir), cwd, env, timeout, float(h["mem"]), log)
                secs += secs2
                text = open(log, errors="replace").read()
    parsed = parse_kani_output(text)
    out = {"harness": name, "wall_s": round(secs, 1), "parsed": parsed, "log": log, "rc": rc, "tdir": tdir}
    if rc is None:
        out.update(status="inconclusive", reason=f"time-out after {timeout:.0f}s")
    elif parsed["verdict"] == "SUCCESSFUL" and not parsed["failed"]:
        if parsed["covers_total"] == 0:
            out.update(status="inconclusive", reason="harness has no reachability cover (vacuity guard missing)")
        elif parsed["covers_unsat"]:
            out.update(status="inconclusive",
                       reason="vacuity: cover(s) not satisfied: " + "; ".join(parsed["covers_unsat"][:4]))
        else:
            out.update(status="pass")
    elif parsed["verdict"] == "FAILED" and parsed["failed"]:
        # Per-harness opt-in: checks whose role matches `ignore=` are tool artefacts
        # documented in DESIGN.md (e.g. CBMC's allocator-model preconditions in drop
        # glue of safe code); they are reported in the evidence, never silently.
        ign = h.get("ignore")
        if ign:
            kept = [f for f in parsed["failed"] if not re.search(ign, check_key(f))]
            parsed["ignored"] = sorted({check_key(f) for f in parsed["failed"] if re.search(ign, check_key(f))})
            parsed["failed"] = kept
        if parsed["failed"]:
            out.update(status="fail")
        elif parsed["covers_unsat"] or parsed["undetermined"]:
            out.update(status="inconclusive", reason="only ignored checks failed, but covers unsatisfied or checks undetermined")
        else:
            out.update(status="pass")
    else:
        why = "; ".join(parsed["errors"][:3]) or f"no verdict (rc={rc})"
        out.update(status="inconclusive", reason=why)
    return out


# --------------------------------------------------------------------------
# replay
# --------------------------------------------------------------------------

def extract_playback_tests(text):
    """All unit tests printed by `--concrete-playback=print`, as (doc, code).
    Kani prints one test per failing check AND one per satisfied cover."""
    tests = []
    for m in re.finditer(r"```\n(/// Test generated for harness.*?)```", text, re.S):
        tests.append(m.group(1))
    return tests


def extract_playback_test(text):
    tests = extract_playback_tests(text)
    failing = [t for t in tests if "Check for `cover`" not in t]
    pick = failing or tests
    return "\n".join(pick) if pick else None


def replay_counterexample(h, scratch, prop):
    """Ask Kani for the concrete values of the counterexample, turn them into a
    unit test, and run that test natively (rustc, not CBMC) against the same
    real functions. Returns (reproduced: bool|None, replay_path, note)."""
    name = h["name"]
    env = kani_env(h["crate"])
    cwd = make_raft_crate(scratch) if h["crate"] == "raft" else REPO
    tdir = os.path.join(scratch, "t_" + name)
    log = os.path.join(scratch, name + ".playback.log")
    cmd = kani_cmd(h, tdir, extra=["-Z", "concrete-playback", "--concrete-playback=print"])
    # producing the trace needs far more memory (kani-driver parses CBMC's JSON trace)
    rc, _ = run_limited(cmd, cwd, env, float(h["timeout"]) * TIMEOUT_SCALE * 1.5, max(24.0, float(h["mem"]) * 3), log)
    text = open(log, errors="replace").read()
    test = extract_playback_test(text)
    os.makedirs(os.path.join(REPLAY_DIR, prop), exist_ok=True)
    rpath = os.path.join(REPLAY_DIR, prop, name + ".rs")
    if not test:
        open(rpath, "w").write("// Kani produced no concrete playback test for this counterexample.\n"
                               "// Raw solver log: re-run ./check %s --harness %s --keep\n" % (prop, name))
        return None, rpath, "no concrete playback test produced"
    header = (f"// Counterexample for property {prop}, harness {name}\n"
              f"// Generated by Kani concrete playback; replay with: ./check --replay {rpath}\n"
              f"// harness-file: {h['file']}\n// crate: {h['crate']}\n")
    open(rpath, "w").write(header + test)
    ok, note = run_replay_file(rpath, scratch)
    return ok, rpath, note


def run_replay_file(rpath, scratch):
    """Native execution of a stored playback test. True = the failure reproduces
    (test panics / overflows / does not terminate within the cap)."""
    txt = open(rpath).read()
    m = re.search(r"^// harness-file: (.*)$", txt, re.M)
    mc = re.search(r"^// crate: (.*)$", txt, re.M)
    mt = re.search(r"fn (kani_concrete_playback_\w+)", txt)
    if not (m and mc and mt):
        return None, "replay file lacks header"
    # (the file may hold several tests, one per failing check; the common prefix selects all)
    hfile, crate, tname = m.group(1).strip(), mc.group(1).strip(), "kani_concrete_playback_"
    body = txt[txt.index("/// Test generated"):] if "/// Test generated" in txt else txt
    env = kani_env(crate)
    rdir = os.path.join(scratch, "replay_" + mt.group(1)[-12:])
    os.makedirs(rdir, exist_ok=True)
    if crate == "agdb":
        hcopy = os.path.join(rdir, "harness")
        if os.path.exists(hcopy):
            shutil.rmtree(hcopy)
        shutil.copytree(HARNESS_AGDB, hcopy)
        target = os.path.join(hcopy, os.path.basename(hfile))
        open(target, "a").write("\n" + body + "\n")
        env["AGDB_VERIF_HARNESS"] = hcopy
        cwd = REPO
        pk = ["-p", "agdb"]
    else:
        cwd = make_raft_crate(rdir)
        p = os.path.join(cwd, "src", "raft.rs")
        s = open(p).read()
        idx = s.rindex("}")
        s = s[:idx] + "\n" + body + "\n}\n"
        open(p, "w").write(s)
        pk = []
    env["CARGO_TARGET_DIR"] = os.path.join(rdir, "target")
    results = []
    for profile in ([], ["--release"]):
        log = os.path.join(rdir, "playback" + ("_release" if profile else "_dev") + ".log")
        cmd = ["cargo", "kani", "playback", "-Z", "concrete-playback", "--lib"] + pk + profile + ["--", tname]
        rc, secs = run_limited(cmd, cwd, env, 900, 16, log)
        out = open(log, errors="replace").read()
        if rc is None:
            results.append("timeout")
        elif re.search(r"test result: FAILED|panicked at|overflow", out) and "could not compile" not in out:
            results.append("fails")
        elif re.search(r"test result: ok\. [1-9]\d* passed; 0 failed", out):
            results.append("passes")
        else:
            results.append("error")
    note = f"native replay dev={results[0]} release={results[1]}"
    if "fails" in results or "timeout" in results:
        return True, note
    if results[0] == "passes" and results[1] in ("passes", "error"):
        return False, note
    return None, note


# --------------------------------------------------------------------------
# main
# --------------------------------------------------------------------------

def write_evidence(prop, tier, seed, results, selected, wall, violations, known_hits, notes):
    os.makedirs(EVIDENCE_DIR, exist_ok=True)
    total_checks = sum((r["parsed"]["checks"] if r.get("parsed") else 0) for r in results)
    reachable = sum((r["parsed"]["repo_decided"] + r["parsed"]["covers_sat"]) if r.get("parsed") else 0
                    for r in results)
    hmap = {h["name"]: h for h in selected}
    samples = []
    for r in results:
        h = hmap[r["harness"]]
        p = r.get("parsed") or {}
        samples.append({
            "harness": r["harness"],
            "obligation": h.get("desc", ""),
            "bounds": h.get("bounds", ""),
            "tier": h["tier"],
            "verdict": r["status"],
            "reason": r.get("reason"),
            "cbmc_checks": p.get("checks"),
            "cbmc_checks_in_repo_and_harness_decided": p.get("repo_decided") if p else None,
            "cbmc_unreachable": p.get("unreachable"),
            "covers_satisfied": f"{p.get('covers_sat')}/{p.get('covers_total')}" if p else None,
            "solver_s": p.get("time_s"),
            "wall_s": r["wall_s"],
            "stubs": h.get("stubs", []),
            "failed_checks": [check_key(f) for f in p.get("failed", [])][:10] if p else [],
            "ignored_checks": p.get("ignored", []) if p else [],
        })
    functions = sorted({f for h in selected for f in h.get("kernel", "").split(",") if f})
    ev = {
        "property_id": prop,
        "tier": tier,
        "seed": seed,
        "level": "model_checking",
        "coverage": {
            "evaluations": total_checks,
            "distinct_nontrivial": reachable,
            "rule": ("evaluations = CBMC verification conditions (assertions, overflow/bounds/pointer checks, "
                     "unwinding assertions) generated from the compiled real code for the harnesses of this "
                     "property, std and Kani library code included; distinct_nontrivial = the subset located in "
                     "the repository's own source files or in the harness (assertions of the oracle, panics, "
                     "arithmetic overflow, index bounds) that the SAT solver decided for ALL symbolic inputs "
                     "within the bounds (status SUCCESS or FAILURE), plus the satisfied cover properties that "
                     "witness reachability. Each is a distinct program location/condition; per-check "
                     "reachability is not measured (vacuity is guarded by the covers)."),
            "samples": samples,
            "harnesses_run": len(results),
            "harnesses_pass": sum(1 for r in results if r["status"] == "pass"),
            "harnesses_fail": sum(1 for r in results if r["status"] == "fail"),
            "harnesses_inconclusive": sum(1 for r in results if r["status"] == "inconclusive"),
            "solver_time_s": round(sum((r["parsed"]["time_s"] or 0) for r in results if r.get("parsed")), 1),
            "functions_encoded": functions,
            "known_findings_hit": known_hits,
            "notes": notes,
            "engine": "Kani 0.68.0 / CBMC 6.11.0 (CaDiCaL), encoding regenerated from /repo working tree on this run",
            "exhaustive": False,
        },
        "assumptions": [
            "bounded claim: holds for every symbolic value within the bounds listed per harness; nothing is claimed outside them",
            "unwinding assertions enabled: a loop bound that is too small is reported as failure, not silently truncated",
            "stubs listed per harness replace formatting / error construction only (error kinds are preserved)",
            "Kani's model of std (allocation never fails, sequential atomics) and CBMC's bit-precise semantics are trusted",
        ],
        "wall_s": round(wall, 1),
        "violations": violations,
    }
    path = os.path.join(EVIDENCE_DIR, prop + ".json")
    tmp = path + ".tmp"
    json.dump(ev, open(tmp, "w"), indent=1)
    os.replace(tmp, path)


def main():
    ap = argparse.ArgumentParser()
    ap.add_argument("prop", nargs="?")
    ap.add_argument("--tier", default=os.environ.get("VERIF_TIER", "quick"))
    ap.add_argument("--harness", action="append")
    ap.add_argument("--jobs", type=int, default=int(os.environ.get("VERIF_JOBS", "8")))
    ap.add_argument("--keep", action="store_true")
    ap.add_argument("--no-replay", action="store_true")
    ap.add_argument("--list", action="store_true")
    ap.add_argument("--replay")
    a = ap.parse_args()
    seed = int(os.environ.get("VERIF_SEED", "0") or 0)
    tier = a.tier if a.tier in ("quick", "thorough") else "quick"

    reg = load_registry()
    if a.list:
        for h in reg:
            print(h["id"], h["tier"], h["name"], h.get("timeout"), h.get("desc", ""))
        return 0

    scratch_root = os.environ.get("VERIF_SCRATCH") or tempfile.gettempdir()
    scratch = tempfile.mkdtemp(prefix="agdb-verif-", dir=scratch_root)

    try:
        if a.replay:
            okr, note = run_replay_file(a.replay, scratch)
            print(note)
            print("REPRODUCED" if okr else ("NOT-REPRODUCED" if okr is False else "REPLAY-ERROR"))
            return 1 if okr else (0 if okr is False else 2)

        prop = a.prop
        if not prop:
            ap.error("property id required")
        selected = [h for h in reg if prop in h["ids"] and (tier == "thorough" or h["tier"] == "quick")]
        if a.harness:
            selected = [h for h in selected if h["name"] in a.harness]
        if not selected:
            print(f"no harness registered for {prop}")
            return 2
        known, _fixed = load_known()
        known = [k for k in known if k.get("property") == prop]

        t0 = time.time()
        print(f"[check] property={prop} tier={tier} harnesses={len(selected)} jobs={a.jobs} scratch={scratch}")
        sys.stdout.flush()
        results = []
        # longest first
        order = sorted(selected, key=lambda h: -float(h["timeout"]))
        with concurrent.futures.ThreadPoolExecutor(max_workers=max(1, a.jobs)) as ex:
            futs = {ex.submit(run_harness, h, scratch, tier): h for h in order}
            for f in concurrent.futures.as_completed(futs):
                r = f.result()
                results.append(r)
                p = r.get("parsed") or {}
                print(f"[harness] {r['harness']}: {r['status']}"
                      f" wall={r['wall_s']}s solver={p.get('time_s')}s checks={p.get('checks')}"
                      f" covers={p.get('covers_sat')}/{p.get('covers_total')}"
                      + (f" reason={r.get('reason')}" if r.get("reason") else ""))
                sys.stdout.flush()
        results.sort(key=lambda r: r["harness"])
        hmap = {h["name"]: h for h in selected}

        violations = 0
        inconclusive = [r for r in results if r["status"] == "inconclusive"]
        known_hits = []
        notes = []
        viol_lines = []
        for r in results:
            if r["status"] != "fail":
                continue
            h = hmap[r["harness"]]
            keys = sorted({check_key(f) for f in r["parsed"]["failed"]})
            unlisted = []
            for k in keys:
                hit = [kn for kn in known if kn.get("harness") in (r["harness"], "*") and kn.get("check") == k]
                if hit:
                    known_hits.append({"harness": r["harness"], "check": k, "what": hit[0]["what"]})
                else:
                    unlisted.append(k)
            if not unlisted:
                continue
            only_unwind = all("|unwinding assertion" in k or "|recursion unwinding assertion" in k for k in unlisted)
            if a.no_replay:
                rep, rpath, note = None, "(replay skipped)", "replay skipped by --no-replay"
            elif only_unwind and h.get("termination") == "1":
                # Termination harness: the unwinding bound (table capacity + 1) IS the oracle -- a probe
                # loop that has not ended after visiting every slot once never ends. Kani produces no
                # concrete playback for unwinding assertions, so the solver's verdict is reported as is.
                os.makedirs(os.path.join(REPLAY_DIR, prop), exist_ok=True)
                rpath = os.path.join(REPLAY_DIR, prop, h["name"] + ".txt")
                open(rpath, "w").write(
                    f"Property {prop}, harness {h['name']} ({h['file']}).\n"
                    "The solver found a table state and key for which the loop below does not end within\n"
                    "capacity + 1 iterations (unwinding assertion violated), i.e. it never ends:\n  "
                    + "\n  ".join(unlisted) + "\n"
                    "No concrete playback exists for unwinding assertions; re-run with\n"
                    f"  ./check {prop} --harness {h['name']} --keep\nand inspect the CBMC log.\n")
                rep, note = True, "termination oracle: unwinding assertion of a probe loop violated (no native replay possible)"
            elif only_unwind:
                rep, rpath, note = None, "(none)", ("only unwinding assertions failed: the harness's loop bound is too small for the "
                                                     "code as it is now (changed code?) -- nothing can be concluded")
            else:
                rep, rpath, note = replay_counterexample(h, scratch, prop)
            notes.append(f"{r['harness']}: {note}; failing checks: {unlisted[:6]}")
            if rep or (rep is None and a.no_replay):
                violations += 1
                viol_lines.append((rpath, r["harness"], unlisted))
            else:
                r["status"] = "inconclusive"
                r["reason"] = f"counterexample not confirmed natively ({note}); failing checks: {unlisted[:4]}"
                inconclusive.append(r)

        printed = set()
        for kh in known_hits:
            line = f"KNOWN-FINDING: property={prop} {kh['what']} [harness={kh['harness']} check={kh['check']}]"
            if line not in printed:
                print(line)
                printed.add(line)
        for rpath, hn, unl in viol_lines:
            print(f"VIOLATION property={prop} replay={rpath}")
            print(f"  harness={hn} failing checks: " + " ;; ".join(unl[:6]))
        for r in inconclusive:
            print(f"INCONCLUSIVE property={prop} harness={r['harness']}: {r.get('reason')}")

        wall = time.time() - t0
        if os.path.realpath(REPO) == "/repo" and not a.harness:
            write_evidence(prop, tier, seed, results, selected, wall, violations, known_hits, notes)
        else:
            # a run against a scratch worktree (VERIF_REPO=...) or of a single harness is not
            # evidence about /repo: it must not overwrite the evidence of the registered check
            print(f"[check] evidence/{prop}.json not rewritten (VERIF_REPO={REPO}, --harness={a.harness})")
        if a.keep:
            print(f"[check] scratch kept: {scratch}")
        print(f"[check] property={prop} done in {wall:.0f}s: pass={sum(1 for r in results if r['status']=='pass')}"
              f" fail={sum(1 for r in results if r['status']=='fail')} inconclusive={len(inconclusive)}"
              f" violations={violations} known={len(known_hits)}")
        if violations:
            return 1
        if inconclusive:
            return 2
        return 0
    finally:
        if not a.keep:
            shutil.rmtree(scratch, ignore_errors=True)


if __name__ == "__main__":
    sys.exit(main())
