#!/usr/bin/env python3
"""Confirms a seeded change in a scratch worktree of /repo's HEAD:
  demo alone passes, demo + change fails, change alone passes the crate's suite.
usage: confirm_seeded.py <src_dir with patch.diff demo.diff> <out seeded dir> <property> <crate> <demo_filter> [suite_filter]
"""
import json, os, shutil, subprocess, sys, time

src, out, prop, crate, demo_filter = sys.argv[1:6]
suite_filter = sys.argv[6] if len(sys.argv) > 6 else ""
WT = "/tmp/confirm_wt"
env = dict(os.environ, CARGO_TARGET_DIR="/tmp/confirm_target", CARGO_NET_OFFLINE="true")
env.pop("RUSTFLAGS", None)

def sh(cmd, **kw):
    return subprocess.run(cmd, shell=True, cwd=WT, env=env, capture_output=True, text=True, **kw)

if not os.path.isdir(WT):
    subprocess.run(f"git -C /repo worktree add -q --detach {WT} HEAD", shell=True, check=True)
head = subprocess.check_output("git -C /repo rev-parse HEAD", shell=True, text=True).strip()
sh(f"git checkout -q --detach {head} && git checkout -q -- . && git clean -fdq")

def run_tests(filt, lib_only):
    cmd = f"cargo nextest run -p {crate} --offline --no-fail-fast  {filt}"
    r = sh(cmd)
    tail = "\n".join((r.stdout + r.stderr).strip().split("\n")[-6:])
    return r.returncode, tail, cmd

res = {"property": prop, "repo_head": head, "steps": []}
ok = True
# 1 demo alone
sh("git checkout -q -- . && git clean -fdq")
a = sh(f"git apply {src}/demo.diff")
rc, tail, cmd = run_tests(demo_filter, True)
res["steps"].append({"what": "demonstration alone on the unchanged tree (must pass)", "cmd": cmd, "rc": rc, "tail": tail})
ok &= (a.returncode == 0 and rc == 0)
# 2 demo + change
a = sh(f"git apply {src}/patch.diff")
rc, tail, cmd = run_tests(demo_filter, True)
res["steps"].append({"what": "demonstration with the change applied (must fail)", "cmd": cmd, "rc": rc, "tail": tail})
ok &= (a.returncode == 0 and rc != 0)
# 3 change alone, existing suite
sh("git checkout -q -- . && git clean -fdq")
sh(f"git apply {src}/patch.diff")
rc, tail, cmd = run_tests(suite_filter, False)
retried = []
if rc != 0:
    # some tests of the repository race on fixed file names / ports and are flaky under
    # load: every test that failed is re-run alone; the step passes if they all pass then
    import re
    r = sh(f"cargo nextest run -p {crate} --offline --no-fail-fast {suite_filter} 2>&1 | grep -E '^ +FAIL' | sort -u")
    names = sorted(set(re.findall(r"FAIL \[[^\]]*\] \([^)]*\) +(\S+) +(\S+)", tail + "\n" + r.stdout)))
    all_ok = bool(names)
    for binary, test in names:
        b = binary.split("::")[-1]
        rr = sh(f"cargo nextest run -p {crate} --offline --test-threads 1 -E 'binary(={b}) & test(={test})'")
        passed = rr.returncode == 0
        retried.append({"test": f"{binary} {test}", "passed_alone": passed})
        all_ok &= passed
    if all_ok:
        rc = 0
res["steps"].append({"what": "existing test suite of the crate with the change applied (must pass; tests that failed in the full run are re-run alone)", "cmd": cmd, "rc": rc, "tail": tail, "retried_alone": retried})
ok &= (rc == 0)
sh("git checkout -q -- . && git clean -fdq")
res["confirmed"] = bool(ok)
os.makedirs(out, exist_ok=True)
shutil.copy(f"{src}/patch.diff", f"{out}/patch.diff")
shutil.copy(f"{src}/demo.diff", f"{out}/demo.diff")
if os.path.exists(f"{src}/README.md"):
    shutil.copy(f"{src}/README.md", f"{out}/README.md")
meta_path = f"{out}/meta.json"
meta = json.load(open(meta_path)) if os.path.exists(meta_path) else {}
meta.update({"property": prop, "confirmation": res})
json.dump(meta, open(meta_path, "w"), indent=1)
print(prop, out, "CONFIRMED" if ok else "NOT CONFIRMED")
for s in res["steps"]:
    print("  ", s["what"], "rc=", s["rc"])
