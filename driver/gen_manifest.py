#!/usr/bin/env python3
"""Regenerates /verif/MANIFEST.json from the table below + the harness registry.
(The manifest is a committed file; this script only keeps it consistent.)"""
import json
import os
import sys

sys.path.insert(0, os.path.dirname(os.path.abspath(__file__)))
import check  # noqa: E402

VERIF = check.VERIF

TECH = "bounded symbolic execution of the compiled real code (Kani 0.68 -> CBMC 6.11 -> SAT), harness inputs kani::any(), unwinding assertions on"

# property id -> (level text, level note, design ref)
CLAIMED = {
    "C16": (
        "SearchQuery::slice (the function every ordered search and every path search goes through) is decided for "
        "ALL u64 limit/offset values and every result length 0..=4 against the reference window "
        "ids[min(o,n)..min(o+l,n)]; absence of panics and arithmetic overflow included. Bounded model checking is the "
        "right level: the interesting inputs (offset+limit one past the end, overflow) are isolated points of a 2^128 space.",
        "The streaming LimitHandler/OffsetHandler/LimitOffsetHandler of unordered searches are driven over <= 5 process() calls "
        "with an empty condition list for ALL u64 limit/offset (on a reference to an uninitialised DbImpl that is never read). "
        "Outside the claim: the sort comparator (needs DbImpl), equivalence with the unsliced search on a real database, "
        "result lengths > 4/5. Trusted: Kani/CBMC, rustc MIR semantics.",
        "DESIGN.md §4 C16",
    ),
}

CLAIMED["C01"] = (
    "The real FileStorage/WriteAheadLog code runs over a model file system (two byte arrays) in which the crash point "
    "(which mutating file call the process dies before, and how many bytes of a torn write_all arrived) is a symbolic "
    "variable. Obligations decided by the solver for all contents within the bounds: (A) every write/resize appends its "
    "complete undo record before touching the data file, a crash leaves a prefix of it, and applying it with the real "
    "apply_wal_record at ANY later crash point restores content and length; (B) repair discards exactly a torn tail; "
    "(C) replay is newest-first and clears the log, on open, on Drop and in apply_wal; (D) flush empties the log. "
    "DESIGN.md composes them by induction over the calls of a transaction. Bounded model checking fits: the failing "
    "inputs are single points (zero-length write, growth, same region written twice).",
    "Assumed: file calls are atomic up to a torn prefix, the OS keeps call order, set_len growth zero-fills (model fs, "
    "harness/agdb/verif_fs.rs); Storage never writes beyond the end or across it (asserted by the C04 harnesses). Bounds: "
    "data <= 8 bytes, payload <= 3 bytes, <= 2 records per log. Stubs: fmt::format, DbError::new, From<io::Error>, "
    "wal_filename, vec::from_elem (fixed capacity 8). Outside: fsync/power-loss reordering, the composition step itself "
    "(paper argument), end-to-end runs of the open path on symbolic logs (exceeded 39 GB).",
    "DESIGN.md §4 C01",
)

RAFT_NOTE = (
    "Trusted/assumed: the scratch crate is a verbatim copy of the current agdb_server/src/raft.rs with the single "
    "substitution std::time::Instant -> virtual clock (asserted to match exactly once, else INCONCLUSIVE); the log store "
    "is an array-backed implementation of the Storage trait mirroring ClusterStorage::append (remove uncommitted entries "
    ">= index, then append); futures are polled once (they cannot suspend). Outside: thread/task interleavings, HTTP "
    "transport, cluster-wide schedules (the composition of the per-node lemmas is a paper argument in DESIGN.md)."
)

CLAIMED["C27"] = (
    "Per-node lemmas on the real Cluster state machine, decided for all symbolic message fields, timer firings and clock "
    "advances within the bounds: (L1) a node never grants two candidates a vote in the same term (two Vote requests with "
    "process() calls, clock advances and a PreVote in between); (L2) a candidate becomes leader only with Ok responses from "
    "distinct nodes forming a strict majority (3 and 5 nodes, duplicated responses). L1 and L2 give at most one leader per "
    "term by quorum intersection. The solver found the double vote in 41 s where a schedule explorer needs a timer to fire "
    "between two specific messages.",
    RAFT_NOTE,
    "DESIGN.md §4 C27",
)
CLAIMED["C28"] = (
    "One step of the real follower code from an ARBITRARY node state (symbolic stored entries, commit index, state, term) "
    "under an arbitrary Heartbeat, and the decision function for offered entries under all u64 inputs: the commit index "
    "never decreases, nothing is stored at or below it, committed entries stay bit-identical, a follower never commits "
    "beyond what it holds. Inductive steps cover histories of any length for these single-node invariants.",
    RAFT_NOTE + " Agreement ACROSS nodes (two nodes committing different entries at one index) is not decided: it needs "
    "cluster schedules of ~25 steps; the full Append request path exceeded 36 GB in CBMC and is covered through its parts "
    "(validate_log_append, append_storage, commit_storage via Heartbeat).",
    "DESIGN.md §4 C28",
)
CLAIMED["C29"] = (
    "Lemmas on the real code: (L6) a vote or pre-vote is granted only to a candidate whose log is at least as up to date "
    "(Raft order) and whose commit index is not behind the voter's, for arbitrary voter state and all u64 header values; "
    "(L7) a leader advances its commit index to i only if a strict majority holds an index >= i, never beyond its own log "
    "(3 and 5 nodes, symbolic acknowledgement table).",
    RAFT_NOTE + " Leader completeness itself (the global composition) is NOT decided; the evidence says lemmas L6, L7 only.",
    "DESIGN.md §4 C29",
)

CLAIMED["C06"] = (
    "DbImpl<Store> is a deterministic function of the answers its StorageData gives, so the variants return identical "
    "query results iff they are observationally equal as StorageData. Each variant (MemoryStorage, FileStorage, "
    "FileStorageMemoryMapped and the three AnyStorage arms, incl. what AnyStorage::new builds) is compared call by call "
    "against ONE reference byte-array model for all symbolic contents, positions and lengths within the bounds: same "
    "Ok/Err, len(), is_empty(), full content and arbitrary read windows; the memory-mapped variant's file copy is also "
    "compared with its memory copy.",
    "Contract domain: writes start at or before the end (what Storage issues; checked by the C04 harnesses), reads inside "
    "the content. File-backed variants run over the model file system. Quick tier: 1 symbolic call per variant plus the "
    "two-call shape shrink-then-grow for the three base variants; thorough: 2 fully symbolic calls. "
    "Outside: the step from equal StorageData behaviour to equal query results is the determinism argument, not executed; "
    "backup/copy/rename (real file system calls).",
    "DESIGN.md §4 C06",
)

GRAPH_NOTE = (
    "Instantiation: GraphImpl<ArrStorage, ArrGraph> -- the real generic graph/search code over an array-backed "
    "implementation of the code base's own GraphData trait (8 slots); the thin DbVec adapter GraphDataStorage is not in "
    "these harnesses. Ids passed to GraphImpl respect what DbImpl::graph_index guarantees (sign matches the element kind, "
    "not i64::MIN). Stubs: fmt::format, DbError::new. Outside: the DbImpl cascade to values/aliases/indexes, removal by "
    "alias/search, anything beyond the stated slot/operation bounds."
)
CLAIMED["C08"] = (
    "Real GraphImpl operations with symbolic kind/arguments are mirrored step by step in a reference multigraph kept in "
    "plain arrays; after every step the solver decides, for ALL symbolic arguments, id signs and freshness, node_count, "
    "edge endpoints, per-node in/out counts (self-loops on both sides), both adjacency iterators exactly and newest-first, "
    "the free-slot stack, full cascade on remove_node, and bit-identical arrays after a rejected insert_edge. Histories: "
    "fixed short prefixes that set up each interesting shape (first/middle/last of an adjacency list, self-loops, parallel "
    "edges, freed slots) followed by 1-3 symbolic operations (quick); 4 fully symbolic operations from the empty graph and "
    "a deeper cascade (thorough).",
    GRAPH_NOTE,
    "DESIGN.md §4 C08",
)
CLAIMED["C18"] = (
    "GraphImpl::iter/next_element over a graph produced by symbolic inserts and removals with slot reuse: the sequence is "
    "exactly the live slots in increasing slot number, edges negative, removed slots absent, from any start index; "
    "ElementSearch with an always-true handler and with a symbolic per-slot selection and Continue/Stop/Finish control on "
    "concrete histories: examined once each in slot order, Stop does not end the scan, Finish does.",
    GRAPH_NOTE + " ElementSearch over a fully symbolic history exceeded 10 GB; its symbolic-history part rests on the iterator harness.",
    "DESIGN.md §4 C18",
)
CLAIMED["C14"] = (
    "The four real traversals (BFS/DFS, forward/reverse), SearchImpl, the expand bodies and BitSet are run on eight graphs "
    "built by the real insert/remove calls (triangle, cycle, parallel edges + self-loop + back edge, reused slots, cascade "
    "removal, edge origins with and without older siblings) from every origin, and each result (sequence AND distances) "
    "is compared with three independent oracles: a reference BFS/DFS over the mirrored model, fix-point reachability "
    "(origin first, each reachable element exactly once, nothing else), and hand-derived literal sequences. Two lemmas are "
    "symbolic: visited-on-pop (process_index twice) and BitSet set/value for symbolic indexes < 40.",
    GRAPH_NOTE + " HONEST LIMIT: a symbolic graph or even a symbolic origin on a 3-node chain ran out of memory (VecDeque/"
    "Vec/BitSet reallocation with symbolic lengths, ~1M SSA steps), so for the traversal harnesses the solver's quantifier "
    "ranges over nothing but the enumerated graphs/origins; they are decided by CBMC but amount to exhaustive execution of "
    "those cases, not to a claim for all graphs up to a size.",
    "DESIGN.md §4 C14",
)
CLAIMED["C17"] = (
    "PathSearch decomposed into step lemmas on the real code with symbolic costs: sort_paths leaves the cheapest path "
    "last for any u64 costs; expand produces exactly the usable successors, newest edge first, cost +1 per passing and +2 "
    "per failing element, skipping settled nodes and stopped elements; process_index handles destination / settled / open "
    "end nodes correctly; plus end-to-end runs of GraphSearch::path on a single edge with every cost class and on twelve "
    "invalid endpoint pairs (all give the empty result).",
    GRAPH_NOTE + " HONEST LIMIT: PathSearch::search on anything larger than one edge never left symbolic execution "
    "(500-900 s), so minimality of the returned path is NOT compared against a reference shortest path; the composition of "
    "the lemmas into a correct best-first search is an argument, not a check. Extra stubs: <[Path]>::sort_by replaced by a "
    "stable insertion sort using the real comparator, mem::swap by typed moves.",
    "DESIGN.md §4 C17",
)

MAP_NOTE = (
    "Instantiation: MultiMapImpl/MapImpl/IndexedMapImpl<u64, u64, ArrStorage, ArrMap<C>> -- the real generic hash-map code "
    "over an array-backed implementation of the code base's own MapData trait; StableHash for u64 is the identity, so the "
    "solver controls collisions directly. The production instantiation <String, DbId, DbMapData> shares the generic source "
    "but is not itself instantiated. Stubs: fmt::format, DbError::new."
)
CLAIMED["C19"] = (
    "Termination of every probe loop of the hash structures from an ARBITRARY table (states and keys symbolic, constrained "
    "only by what every history guarantees: len = number of Valid slots, len within the load factor; 'some slot is Empty' "
    "is deliberately NOT assumed) under one operation with a symbolic key: insert, insert_or_replace, remove_key, "
    "remove_value, iter_key, value/contains. Oracle: Kani's unwinding assertion with bound capacity+1 -- a probe sequence "
    "that has not ended after visiting every slot once never ends -- plus functional post-conditions (exactly the right "
    "slot changes). One inductive step covers histories of any length. Capacity 8 in quick (probe logic; rehash paths cut), "
    "capacity 64 (the real minimum, where rehash is a no-op) in thorough.",
    MAP_NOTE + " Outside: termination of anything above the hash maps; growth at len == 60; remove_key at capacity 64 (SAT > 20 min).",
    "DESIGN.md §4 C19",
)
CLAIMED["C10"] = (
    "The bidirectional map kernel behind aliases: IndexedMapImpl insert / remove_key / remove_value and MapImpl "
    "insert/remove/value/contains/len are driven by 2-3 symbolic operations (keys and values from a small colliding "
    "domain) from the empty map (growth 0 -> 64 included) and compared after every step with a reference bijection: both "
    "directions are mutual inverses, a key has at most one value and a value at most one key, inserting takes the value "
    "from whoever held it and replaces the key's previous value, nothing is stored twice.",
    MAP_NOTE + " Outside (needs DbImpl): DbImpl::insert_alias itself, rejection of empty aliases and of aliases for edges, "
    "removal of the alias with its node, alias resolution in queries -- so e.g. an alias-on-edge defect cannot be seen here.",
    "DESIGN.md §4 C10",
)
CLAIMED["C15"] = (
    "The evaluator kernels, each against the documented semantics transcribed as data: SearchControl and/or/flip for all "
    "36 value pairs (truth tables of docs/queries.md); CountComparison::compare and compare_distance for all u64 pairs "
    "(selection is the arithmetic relation, Stop only when nothing deeper can pass, never Finish); Comparison::compare "
    "with both sides symbolic over all 9 value types (payloads <= 2 elements / <= 3 bytes): same type follows the "
    "payload's own order (IEEE total order for floats), different types make Equal and the four ordering comparisons "
    "false and NotEqual true, Contains/StartsWith/EndsWith hold only for the documented vector/element pairs; and the "
    "real DbImpl::evaluate_conditions fold (modifiers None/Not/Beyond/NotBeyond, And/Or, nested Where) for 1-3 conditions "
    "of the kinds that do not read the database, against a reference evaluator.",
    "evaluate_conditions is called on a reference to an uninitialised DbImpl<ArrStorage> that is never read or dropped; "
    "therefore only Distance/Edge/Node/Where-of-those conditions are covered (EdgeCount*, Ids, KeyValue, Keys read the "
    "database and are outside). Contains on String properties is outside (str::contains exceeded memory). Stubs: "
    "fmt::format, DbError::new.",
    "DESIGN.md §4 C15",
)

VAL_NOTE = (
    "Instantiation: the real value/pair/vector code over Storage<ArrStorage> (array-backed StorageData, 192 or 448 bytes, "
    "`--max-field-sensitivity-array-size` raised accordingly). Variants and lengths are enumerated per harness (a symbolic "
    "variant makes CBMC walk all nine store/load arms incl. storage I/O); contents are symbolic. Stubs: fmt::format, "
    "DbError::new, From<TryFromSliceError>/From<FromUtf8Error> where reachable."
)
CLAIMED["C12"] = (
    "store_db_value -> load_db_value (and the DbKeyValue VecValue store/load/remove around them) for every value type, "
    "decided for all contents within the bounds: i64/u64/f64 all 2^64 bit patterns (floats compared by to_bits: NaN "
    "payloads, signed zeros), Bytes and String at every length 0..=17 across the 15/16-byte inline boundary, numeric and "
    "string vectors of 0..2 elements; stored inline or out of line exactly as the boundary dictates, read back identical "
    "from the storage and again after reopening from a copy of the bytes, as key and as value of a pair; remove frees the "
    "out-of-line record. DbValueIndex accessors for all 2^128 index patterns.",
    VAL_NOTE + " Outside: lengths > 17, vectors > 2 elements, symbolic non-ASCII content on the out-of-line path, removal "
    "through the free list (BTreeMap path did not finish), 'from every database variant' (via C06).",
    "DESIGN.md §4 C12",
)
CLAIMED["C09"] = (
    "DbKeyValues (the per-element pair vectors) over the real DbVec/Storage: insert_or_replace replaces in place and "
    "returns the old pair, a new key is appended, remove_value deletes exactly that key and keeps order, removing an "
    "element empties only that element and the reused index starts empty; keys, value, values_by_keys (requested order), "
    "values and key_count agree with a reference model in plain arrays. Element, key and operation are enumerated, values "
    "are symbolic i64.",
    VAL_NOTE + " HONEST LIMIT: a symbolic operation sequence is not feasible (the concrete prefix alone costs minutes), so "
    "these harnesses are concrete scenarios with symbolic values. Outside: the query layer (missing key of a named element "
    "is an error, insert by alias/search) -- DbImpl.",
    "DESIGN.md §4 C09",
)
CLAIMED["C07"] = (
    "Decoders fed with ARBITRARY bytes must return Ok or Err, never panic/overflow/index out of range: "
    "Storage::with_data (open path: read_records, set_record, extract_version) on an arbitrary buffer, the read entry "
    "points on a storage that opened, DbValue::load_db_value for arbitrary 16-byte value indexes, DbKeyValue::load/remove "
    "for arbitrary and truncated pairs, DbVec::from_storage on arbitrary records, the fixed-size index records of the "
    "graph, the maps and the database root, MapValueState, and WriteAheadLog::new/records on torn logs (shared with C01). "
    "Accepted inputs are additionally required to re-serialise to the same bytes.",
    VAL_NOTE + " One finding is listed in KNOWN_FINDINGS.txt (load_db_value: `_ => panic!()` on an unknown type tag -- "
    "pinned by the repository's own #[should_panic] test, so not repairable under the rules). Outside: DbImpl open and a "
    "full read of an opened database; an allocation that is large but below CBMC's object-size limit and does not trip "
    "std's capacity check would not be flagged.",
    "DESIGN.md §4 C07",
)

CLAIMED["C04"] = (
    "The real Storage<ArrStorage> (all public mutating methods, the record table half of StorageRecords, the open path) "
    "is run on concrete layouts that set up every branch of the space-reuse logic -- exact fit, split with remainders of "
    "0/1/16/17 bytes around the 16-byte header, grow in place with and without remainder, relocate into a free region, "
    "move to the end with merging of both neighbours, shrink with remainder 15/16/17, removal in the middle/at the end, "
    "index reuse -- with symbolic payload bytes and symbolic garbage in free regions, mirrored in a reference model. "
    "After every step the solver decides: every live index reads back its model bytes, dead indexes are unreadable, the "
    "file is exactly tiled by version record + live records + free regions (checked on the raw bytes), free size adds up, "
    "and no back-end write starts beyond the end or straddles it (the precondition C01 and C06 rely on); then "
    "optimize_storage leaves exactly 24 + sum(16 + size) bytes, and a reopen from a copy of the bytes sees the same values.",
    "Sizes, targets and operation kinds are enumerated at the boundary values; only contents are symbolic (a symbolic size "
    "after a 5-operation prefix exhausted 10 GB). The free-space indexes of StorageRecords (take_free, take_free_after, "
    "mark_free_compact: BTreeMap<u64, BTreeSet<u64>>) cannot be executed by CBMC at all (one insertion exhausts 10 GB); in "
    "the Storage harnesses they are replaced by a contract model (a plain region list, documented in "
    "storage_records_h.rs) -- so a defect INSIDE those three functions is invisible to this check. Back end: ArrStorage "
    "(the others enter through C06). Stubs: fmt::format, DbError::new, slice stable sort (insertion sort).",
    "DESIGN.md §4 C04",
)
CLAIMED["C32"] = (
    "Storage-level mechanism of the property: each of the seven mutating Storage operations is run with the k-th back-end "
    "write/resize failing, for every k (enumerated) plus 'no failure'; if the operation returns Err the storage's "
    "transaction nesting must be back at its value before the call, and the next successful operation must reach "
    "StorageData::flush (which is what clears the recovery log of a file-backed database). On the current tree this fails "
    "for all seven operations -- a genuine defect, listed per operation in KNOWN_FINDINGS.txt with a reproducer note -- so "
    "the check currently passes only by reporting those known findings; any other failing check is still a violation.",
    "Outside: DbImpl rollback of the failed query, reopen of the database, 'has no effect' at query level (DbImpl).",
    "DESIGN.md §4 C32",
)
SER_NOTE = (
    "Lengths and enum variants are enumerated per harness (a length read back from a heap buffer is symbolic to CBMC even "
    "when constant, and a symbolic variant walks every arm); contents are symbolic. Stubs beyond fmt::format/DbError::new: "
    "String::from_utf8 (accept-all in the round-trip harnesses, which compare the decoded bytes with the valid original; "
    "nondeterministic Ok/Err in the arbitrary-bytes harnesses; the real validator is exercised separately), and in the "
    "'bounded' arbitrary-bytes harnesses usize::deserialize with an assumed prefix <= 2^32-1 (the huge-prefix space is "
    "covered by four dedicated harnesses)."
)
CLAIMED["C20"] = (
    "deserialize(serialize(x)) == x (floats by bits) and serialize(x).len() == serialized_size(x) (== the sum of the "
    "parts, == serialized_size_static where defined) for: all fixed-size scalars over their full range, strings (ASCII "
    "0..=6 bytes, every valid UTF-8 string of 0..=4 bytes), byte vectors, SystemTime on both sides of the epoch, vectors "
    "of 0..=2 elements of each element type, all nine DbValue variants, DbKeyValue, DbId, QueryId, CountComparison, "
    "Comparison, DbKeyOrder, KeyValueComparison, the non-recursive QueryConditionData variants, and a corpus of types "
    "using #[derive(DbSerialize)]: named/tuple/unit structs, enum with unit/tuple/struct variants, nested and generic.",
    SER_NOTE + " Outside: SocketAddr/IpAddr/PathBuf, the recursive QueryCondition (Where), longer payloads.",
    "DESIGN.md §4 C20",
)
CLAIMED["C21"] = (
    "Every deserializer in the list of C20 is fed a buffer of symbolic length <= 24 with symbolic bytes (variant tags "
    "pinned per harness for the DbValue-based types) and must return Ok or Err -- no panic, no arithmetic overflow "
    "(dev-profile semantics), no capacity overflow; for fixed-size types Ok exactly when enough bytes are present. Four "
    "harnesses isolate the huge-length-prefix and out-of-range-time inputs that used to panic (now repaired in /repo) and "
    "act as regression guards; typed conversions of byte-array values (user type / SystemTime from DbValue::Bytes) included.",
    SER_NOTE + " An allocation that is absurd but below CBMC's object-size limit and does not trip std's capacity check is "
    "not observable. Outside: fully arbitrary bytes for DbValue/DbKeyValue/Comparison/QueryCondition (untagged), "
    "Vec<i64>::try_from(DbValue::Bytes) (time-out).",
    "DESIGN.md §4 C21",
)
CLAIMED["C22"] = (
    "The code generated by #[derive(DbType / DbElement / DbValue / DbTypeMarker)] for a corpus of user types in the "
    "harness (i64, u64, f64, bool, String, Option<i64>, db_id as Option<DbId> / Option<QueryId> / DbId, a nested custom "
    "value type, flatten/rename/skip attributes): T::from_db_element(DbElement{id, values: t.to_db_values()}) == t for "
    "symbolic field values, db_keys() are the field names in declaration order, None options are omitted and restored "
    "(also for a field that is both renamed and optional), db_id is taken from the element id and never stored, "
    "derive(DbElement) adds the type name; the scalar conversions the generated code relies on (f32 for all 2^32 bit "
    "patterns, i64, u64) are lossless.",
    "<DbValue as Clone>::clone is replaced by a bitwise copy in the from_db_element harnesses (the derived Clone over nine "
    "variants exhausts memory; the harnesses never look at the source after the copy). Outside: the trip through the "
    "database (insert().element()/select().elements(), update by id) -- DbImpl; from_db_element for vector and "
    "Option<String> fields (memory), only their to_db_values half is checked.",
    "DESIGN.md §4 C22",
)

DBIMPL = ("needs the whole database object: DbImpl construction alone exceeds CBMC (DbMemory::with_data on an empty buffer: "
          "10 min / 7.5 GB unfinished; opening DbImpl over the concrete 552-byte image of an empty database: still in symbolic "
          "execution after 11 min), so solver-based checking of the real code cannot be applied; ")
NOT_APPLICABLE = {
    "C02": DBIMPL + "the storage-level half (file content returns to the last committed state) is C01, the parseability half for arbitrary bytes is C07",
    "C03": DBIMPL + "atomicity of whole queries/transactions on DbImpl has no smaller carrying unit",
    "C05": DBIMPL + "the storage-level part (defragment + reopen preserve every record) is inside C04",
    "C11": DBIMPL + "index maintenance is DbImpl method logic; only the underlying multimap is encodable (C10/C19)",
    "C13": DBIMPL + "rollback is DbImpl method logic over its concrete sub-structures",
    "C23": "quantifier is thread schedules; Kani/CBMC as used here do not model threads, and the mechanism has no sequential content to check",
    "C24": "axum/tokio/HTTP handlers plus DbImpl queries inside an async server binary: not encodable as a bounded symbolic program with the installed tools",
    "C25": "same as C24, plus audit-file I/O",
    "C26": "server file operations behind async handlers; the pure part is six unvalidated Path::join lines with nothing to decide",
    "C30": "liveness to quiescence: > 40 steps of three heap-carrying state machines; one request() on a symbolic node already costs ~130 s, a shorter bound says nothing about 'eventually'",
    "C31": "the property is about tokio::spawn task interleavings; no scheduler model in Kani",
}

ALL_IDS = [json.loads(l)["id"] for l in open(os.path.join(VERIF, "properties.jsonl")) if l.strip()]


def main():
    reg = check.load_registry()
    have = {i for h in reg for i in h["ids"]}
    checks = []
    for pid in ALL_IDS:
        if pid in CLAIMED and pid in have:
            text, note, ref = CLAIMED[pid]
            has_thorough = any(pid in h["ids"] and h["tier"] == "thorough" for h in reg)
            c = {
                "property_id": pid,
                "quick_cmd": f"./check {pid} --tier quick",
                "thorough_cmd": f"./check {pid} --tier thorough",
                "evidence_file": f"evidence/{pid}.json",
                "replay_cmd_template": "./check --replay {path}",
                "engine": "kani-cbmc",
                "level_claimed": {"category": "model_checking", "text": text, "design_ref": ref},
                "level_note": note,
                "technique": TECH,
            }
            if not has_thorough:
                c["thorough_cmd"] = f"./check {pid} --tier thorough"
            checks.append(c)
    na = []
    for pid in ALL_IDS:
        if pid in CLAIMED and pid in have:
            continue
        reason = NOT_APPLICABLE.get(pid, "check not built yet in this revision of /verif (see DESIGN.md for the plan)")
        na.append({"property_id": pid, "reason": reason})
    man = {
        "version": 1,
        "setup_cmd": "./driver/setup.sh",
        "hooks": {
            "guard": "--cfg agdb_verif (together with cfg(kani), which cargo-kani sets)",
            "enable": "RUSTFLAGS='--cfg agdb_verif' AGDB_VERIF_HARNESS=/verif/harness/agdb cargo kani -p agdb ... (run in place in /repo, build output in a scratch --target-dir)",
            "baseline_off_cmd": "./driver/baseline.sh",
            "source_commits": [l.strip() for l in open(os.path.join(VERIF, "HOOK_COMMITS.txt")) if l.strip() and not l.startswith("#")],
            "add_only": True,
        },
        "engines": [
            {"name": "kani-cbmc", "path": "driver/check.py",
             "serves_properties": [c["property_id"] for c in checks],
             "kind_free_text": "Kani 0.68.0 (cargo kani) compiling /repo's working tree to goto-programs, CBMC 6.11.0 + CaDiCaL deciding them; native replay of counterexamples via cargo kani playback"}
        ],
        "checks": checks,
        "not_applicable": na,
        "notes": "All checks are bounded claims (see DESIGN.md). Exit 2 = inconclusive (time-out/OOM/build error/unconfirmed counterexample), never reported as success. Known findings: KNOWN_FINDINGS.txt.",
    }
    json.dump(man, open(os.path.join(VERIF, "MANIFEST.json"), "w"), indent=1)
    print(f"MANIFEST.json: {len(checks)} checks, {len(na)} not_applicable")


if __name__ == "__main__":
    main()
