#!/bin/bash
# Offline setup: nothing is downloaded or built ahead of time; the checks build
# what they need from /repo's working tree on every run. This only verifies
# that the pre-installed tools are reachable.
set -e
cd "$(dirname "$(readlink -f "$0")")/.."
export CARGO_NET_OFFLINE=true
cargo kani --version
cbmc --version
python3 --version
python3 driver/check.py --list > /dev/null
mkdir -p evidence replay
echo "setup ok"
