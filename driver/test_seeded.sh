#!/bin/bash
# usage: test_seeded.sh <name> <property> <patch.diff>  -- runs the property's quick check against a scratch
# worktree of /repo's HEAD with the patch applied; prints the non-pass lines; removes the worktree.
name=$1; prop=$2; patch=$3
wt=/tmp/mt_$name
git -C /repo worktree remove --force $wt >/dev/null 2>&1; rm -rf $wt
git -C /repo worktree add -q --detach $wt HEAD || exit 2
cp /repo/Cargo.lock $wt/Cargo.lock 2>/dev/null  # untracked in /repo, needed by the Raft scratch crate
if ! git -C $wt apply $patch; then echo "$name: PATCH DOES NOT APPLY"; git -C /repo worktree remove --force $wt; exit 2; fi
cd /verif
VERIF_REPO=$wt ./check $prop --jobs ${JOBS:-4} > /tmp/me/mt_$name.log 2>&1
rc=$?
echo "=== $name ($prop) exit=$rc"
grep -v "^\[harness\].*: pass" /tmp/me/mt_$name.log | grep -v "^\[check\] property=.* tier=" | cut -c1-330 | tail -8
git -C /repo worktree remove --force $wt >/dev/null 2>&1; rm -rf $wt
