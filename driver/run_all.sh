#!/bin/bash
# Runs the quick (or given) tier of every claimed property, one after the other; prints one line per property.
tier=${1:-quick}
cd "$(dirname "$(readlink -f "$0")")/.."
for id in $(python3 -c "import json;print(' '.join(c['property_id'] for c in json.load(open('MANIFEST.json'))['checks']))"); do
  start=$(date +%s)
  ./check $id --tier $tier --jobs ${JOBS:-8} > /tmp/verif_run_$id.log 2>&1
  rc=$?
  echo "$id exit=$rc $(( $(date +%s) - start ))s $(grep -c 'KNOWN-FINDING' /tmp/verif_run_$id.log) known; $(grep '^\[check\] property=.* done' /tmp/verif_run_$id.log | sed 's/.*done in//')"
  grep "^VIOLATION\|^INCONCLUSIVE" /tmp/verif_run_$id.log | cut -c1-220
done
