// Harness code appended INSIDE the `raft` module of the scratch crate (so the
// private fields and methods of `Cluster` are visible). See DESIGN.md §4
// C27-C29. `T = u8`, `N = ()`.

pub(crate) const LN: usize = 4;

/// In-memory log store backed by fixed arrays. `append` mirrors the server's
/// `ClusterStorage::append`: entries that are NOT committed and have an index
/// >= the new entry's index are removed, then the entry is appended.
pub(crate) struct ArrLog {
    pub idx: [u64; LN],
    pub term: [u64; LN],
    pub data: [u8; LN],
    pub committed: [bool; LN],
    pub len: usize,
    pub commit: u64,
    /// set when `append` is called with an index <= the commit index
    pub appended_at_or_below_commit: bool,
    /// set when a committed entry was removed or overwritten
    pub committed_entry_lost: bool,
    pub appends: u32,
    pub commits: u32,
}

impl ArrLog {
    pub fn empty() -> Self {
        ArrLog {
            idx: [0; LN],
            term: [0; LN],
            data: [0; LN],
            committed: [false; LN],
            len: 0,
            commit: 0,
            appended_at_or_below_commit: false,
            committed_entry_lost: false,
            appends: 0,
            commits: 0,
        }
    }
}

impl Storage<u8, ()> for ArrLog {
    async fn append(&mut self, log: Log<u8>, _n: Option<()>) -> ServerResult<()> {
        self.appends += 1;
        if log.index <= self.commit {
            self.appended_at_or_below_commit = true;
        }
        // remove uncommitted entries with index >= log.index (keep order)
        let mut w = 0usize;
        let mut r = 0usize;
        while r < LN {
            if r < self.len {
                let drop_it = !self.committed[r] && self.idx[r] >= log.index;
                if !drop_it {
                    self.idx[w] = self.idx[r];
                    self.term[w] = self.term[r];
                    self.data[w] = self.data[r];
                    self.committed[w] = self.committed[r];
                    w += 1;
                }
            }
            r += 1;
        }
        self.len = w;
        kani::assume(self.len < LN);
        self.idx[self.len] = log.index;
        self.term[self.len] = log.term;
        self.data[self.len] = log.data;
        self.committed[self.len] = false;
        self.len += 1;
        Ok(())
    }

    async fn commit(&mut self, index: u64) -> ServerResult<()> {
        self.commits += 1;
        self.commit = index;
        let mut i = 0usize;
        while i < LN {
            if i < self.len && self.idx[i] <= index {
                self.committed[i] = true;
            }
            i += 1;
        }
        Ok(())
    }

    fn log_index(&self) -> u64 {
        if self.len == 0 { 0 } else { self.idx[self.len - 1] }
    }

    fn log_term(&self) -> u64 {
        if self.len == 0 { 0 } else { self.term[self.len - 1] }
    }

    fn log_commit(&self) -> u64 {
        self.commit
    }

    async fn logs(&self, from: u64) -> ServerResult<Vec<Log<u8>>> {
        let mut v = Vec::with_capacity(LN);
        let mut i = 0usize;
        while i < LN {
            if i < self.len && self.idx[i] > from {
                v.push(Log {
                    db_id: None,
                    index: self.idx[i],
                    term: self.term[i],
                    data: self.data[i],
                });
            }
            i += 1;
        }
        Ok(v)
    }
}

/// Polls a future exactly once. None of the futures involved can suspend (the
/// array-backed store never returns Pending), so one poll must complete them;
/// `kani::block_on`'s poll loop would be unrolled to the unwind bound instead.
pub(crate) fn run<F: std::future::Future>(f: F) -> F::Output {
    let mut f = std::pin::pin!(f);
    let waker = std::task::Waker::noop();
    let mut cx = std::task::Context::from_waker(waker);
    match f.as_mut().poll(&mut cx) {
        std::task::Poll::Ready(v) => v,
        std::task::Poll::Pending => panic!("harness: future did not complete in one poll"),
    }
}

pub(crate) type C = Cluster<u8, (), ArrLog>;

pub(crate) const HASH: u64 = 7;
pub(crate) const HEARTBEAT_MS: u64 = 5;
pub(crate) const TERM_MS: u64 = 50;
pub(crate) const ELECTION_FACTOR_MS: u64 = 10;

pub(crate) fn mk(index: u64, size: u64, storage: ArrLog) -> C {
    Cluster::new(
        storage,
        ClusterSettings {
            index,
            size,
            hash: HASH,
            election_factor_ms: ELECTION_FACTOR_MS,
            heartbeat_timeout: Duration::from_millis(HEARTBEAT_MS),
            term_timeout: Duration::from_millis(TERM_MS),
        },
    )
}

pub(crate) fn req(from: u64, target: u64, term: u64, li: u64, lt: u64, lc: u64, data: RequestType<u8>) -> Request<u8> {
    Request {
        hash: HASH,
        index: from,
        target,
        term,
        log_index: li,
        log_term: lt,
        log_commit: lc,
        data,
    }
}

pub(crate) fn is_ok(r: &Response) -> bool {
    matches!(r.result, ResponseType::Ok)
}

/// A storage holding `n` consecutive entries (indexes 1..=n) with symbolic
/// non-decreasing terms >= 1, of which the first `commit` are committed.
pub(crate) fn any_log(max: usize) -> ArrLog {
    let mut l = ArrLog::empty();
    let n: usize = kani::any();
    kani::assume(n <= max && max < LN);
    let mut prev_term = 1u64;
    let mut i = 0usize;
    while i < LN {
        if i < n {
            let t: u64 = kani::any();
            kani::assume(t >= prev_term && t <= 6);
            prev_term = t;
            l.idx[i] = i as u64 + 1;
            l.term[i] = t;
            l.data[i] = kani::any();
        }
        i += 1;
    }
    l.len = n;
    let c: u64 = kani::any();
    kani::assume(c <= n as u64);
    l.commit = c;
    let mut i = 0usize;
    while i < LN {
        if i < n && (i as u64) < c {
            l.committed[i] = true;
        }
        i += 1;
    }
    l
}

pub(crate) fn advance_clock() {
    let dt: u64 = kani::any();
    kani::assume(dt <= 1000);
    crate::vclock::set(crate::vclock::now_ms() + dt);
}

// ---------------------------------------------------------------------------
// C27  at most one leader per term
// ---------------------------------------------------------------------------

//@ id=C27 crate=raft tier=quick timeout=900 bounds="one node of a 3-node cluster from its initial state; two Vote requests from different candidates with the same symbolic term 1..=5 and symbolic log fields; between them: arbitrary clock advances (<= 1 s each), up to two process() calls and optionally one PreVote request" desc="a node never answers Ok to Vote requests of two different candidates in the same term, whatever its timers do in between" kernel="Cluster::request,Cluster::vote_request,Cluster::validate_vote_state,Cluster::validate_term_for_vote,Cluster::validate_log_for_vote,Cluster::process,Cluster::pre_vote_request"
#[kani::proof]
#[kani::unwind(5)]
fn c27_one_vote_per_term_per_node() {
    crate::vclock::set(0);
    let mut c = mk(2, 3, ArrLog::empty());
    let t: u64 = kani::any();
    kani::assume(t >= 1 && t <= 5);
    advance_clock();
    if kani::any() {
        let _ = c.process();
    }
    let r1 = run(c.request(&req(0, 2, t, kani::any(), kani::any(), kani::any(), RequestType::Vote)));
    advance_clock();
    let p1: bool = kani::any();
    if p1 {
        let _ = c.process();
    }
    advance_clock();
    let pv: bool = kani::any();
    if pv {
        let pt: u64 = kani::any();
        let _ = run(c.request(&req(1, 2, pt, kani::any(), kani::any(), kani::any(), RequestType::PreVote)));
    }
    let p2: bool = kani::any();
    if p2 {
        let _ = c.process();
    }
    advance_clock();
    let r2 = run(c.request(&req(1, 2, t, kani::any(), kani::any(), kani::any(), RequestType::Vote)));
    let ok1 = is_ok(&r1);
    let ok2 = is_ok(&r2);
    assert!(!(ok1 && ok2), "C27: node granted its vote to two different candidates in the same term");
    kani::cover!(ok1, "first vote granted");
    kani::cover!(ok1 && p1 && p2, "timers fired after a granted vote");
    kani::cover!(true, "end of harness reachable");
    std::mem::forget(c);
    std::mem::forget(r1);
    std::mem::forget(r2);
}

fn c27_majority_scenario(size: u64, steps: usize) {
    crate::vclock::set(0);
    let me: u64 = 1;
    let mut c = mk(me, size, ArrLog::empty());
    // leftovers of the pre-vote round: any subset of the other nodes is flagged
    let mut i = 0u64;
    while i < 5 {
        if i < size && i != me {
            c.node_mut(i).voted = kani::any();
        }
        i += 1;
    }
    let reqs = c.election();
    assert!(matches!(c.state, ClusterState::Candidate));
    std::mem::forget(reqs);
    let my_term = c.term;
    let mut granted = [false; 5];
    let mut k = 0;
    while k < steps {
        let target: u64 = kani::any();
        kani::assume(target < size && target != me);
        // the term of the Vote request this response answers: the current
        // candidacy, or an older one (a delayed response)
        let rt: u64 = kani::any();
        kani::assume(rt <= my_term);
        let kind: u8 = kani::any();
        kani::assume(kind < 3);
        let result = if kind == 0 {
            ResponseType::Ok
        } else if kind == 1 {
            ResponseType::AlreadyVoted(MismatchedValues { local: Some(rt), requested: Some(rt) })
        } else {
            ResponseType::TermMismatch(MismatchedValues { local: Some(0), requested: Some(rt) })
        };
        let was_leader = matches!(c.state, ClusterState::Leader);
        let rq = req(me, target, rt, 0, 0, 0, RequestType::Vote);
        let rs = Response { target: me, result };
        let out = run(c.response(&rq, &rs));
        // a vote counts for this candidacy only if it answers a request of this term
        if kind == 0 && rt == my_term && !was_leader {
            granted[target as usize] = true;
        }
        let votes = 1
            + granted[0] as u64
            + granted[1] as u64
            + granted[2] as u64
            + granted[3] as u64
            + granted[4] as u64;
        if matches!(c.state, ClusterState::Leader) {
            assert!(votes > size / 2, "C27: node became leader without a majority of distinct votes cast in its current term");
            assert!(c.term == my_term, "C27: leader's term differs from the term it campaigned in");
        }
        std::mem::forget(out);
        std::mem::forget(rs);
        std::mem::forget(rq);
        k += 1;
    }
    kani::cover!(matches!(c.state, ClusterState::Leader), "elected");
    kani::cover!(!matches!(c.state, ClusterState::Leader), "not elected");
    kani::cover!(true, "end of harness reachable");
    std::mem::forget(c);
}

//@ id=C27 crate=raft tier=quick timeout=900 mem=16 bounds="candidate of a 3-node cluster (real election() from the initial state); 2 responses with symbolic responder, echoed request term and result (Ok / TermMismatch / AlreadyVoted)" desc="a candidate becomes leader only after Ok responses to Vote requests OF ITS CURRENT TERM from strictly more than size/2 distinct nodes counting itself; pre-vote leftovers and delayed responses of older candidacies do not count" kernel="Cluster::response,Cluster::vote_received,Cluster::election"
#[kani::proof]
#[kani::unwind(7)]
fn c27_leader_only_with_majority_3_nodes() {
    c27_majority_scenario(3, 2);
}

//@ id=C27 crate=raft tier=quick timeout=1200 mem=16 bounds="candidate of a 5-node cluster; 3 responses with symbolic responder (duplicates allowed), echoed request term and result" desc="in a 5-node cluster a duplicated Ok response of one node is not counted twice: leadership needs Ok responses of 2 distinct other nodes" kernel="Cluster::response,Cluster::vote_received,Cluster::election"
#[kani::proof]
#[kani::unwind(7)]
fn c27_leader_only_with_majority_5_nodes() {
    c27_majority_scenario(5, 3);
}

fn c27_any_node() -> (C, u64) {
    crate::vclock::set(0);
    let mut c = mk(2, 3, ArrLog::empty());
    let my_li: u64 = kani::any();
    let my_lt: u64 = kani::any();
    let my_lc: u64 = kani::any();
    kani::assume(my_lc <= my_li && my_li <= 5 && my_lt <= 7);
    c.local_mut().log_index = my_li;
    c.local_mut().log_term = my_lt;
    c.local_mut().log_commit = my_lc;
    let s: u8 = kani::any();
    kani::assume(s < 5);
    c.state = if s == 0 {
        ClusterState::Election
    } else if s == 1 {
        ClusterState::Follower(0)
    } else if s == 2 {
        ClusterState::Voted(kani::any())
    } else if s == 3 {
        ClusterState::Candidate
    } else {
        ClusterState::Leader
    };
    let t0: u64 = kani::any();
    kani::assume(t0 <= 7);
    c.term = t0;
    c.node_mut(0).voted = kani::any();
    c.node_mut(1).voted = kani::any();
    advance_clock();
    (c, t0)
}

//@ id=C27 crate=raft tier=quick timeout=1200 mem=16 bounds="node 2 of a 3-node cluster in an arbitrary state (symbolic state incl. Candidate/Leader, term <= 7, log bookkeeping, vote flags); ONE arbitrary response to a Vote, PreVote or Heartbeat request of any term; result Ok, TermMismatch or AlreadyVoted with symbolic values" desc="no response, however stale or delayed, decreases a node's term (it could otherwise vote or lead a second time in a term it had left)" kernel="Cluster::response,Cluster::vote_received,Cluster::pre_vote_received"
#[kani::proof]
#[kani::unwind(6)]
fn c27_term_never_decreases_on_response() {
    let (mut c, t0) = c27_any_node();
    let target: u64 = kani::any();
    kani::assume(target < 2);
    let k: u8 = kani::any();
    kani::assume(k < 3);
    let rterm: u64 = kani::any();
    let data = if k == 0 {
        RequestType::Vote
    } else if k == 1 {
        RequestType::PreVote
    } else {
        RequestType::Heartbeat
    };
    let rq = req(2, target, rterm, kani::any(), kani::any(), kani::any(), data);
    let rk: u8 = kani::any();
    kani::assume(rk < 3);
    let result = if rk == 0 {
        ResponseType::Ok
    } else if rk == 1 {
        ResponseType::TermMismatch(MismatchedValues { local: Some(kani::any()), requested: Some(rterm) })
    } else {
        ResponseType::AlreadyVoted(MismatchedValues { local: Some(kani::any()), requested: Some(rterm) })
    };
    let rs = Response { target: 2, result };
    let out = run(c.response(&rq, &rs));
    assert!(c.term >= t0, "C27: the node's term decreased");
    kani::cover!(c.term > t0, "term raised by a response");
    kani::cover!(matches!(c.state, ClusterState::Leader) && k == 0 && rk == 0, "vote response made or kept a leader");
    kani::cover!(true, "end of harness reachable");
    std::mem::forget(out);
    std::mem::forget(rs);
    std::mem::forget(rq);
    std::mem::forget(c);
}

//@ id=C27 crate=raft tier=quick timeout=1200 mem=16 bounds="same arbitrary node state; ONE Vote or PreVote request with fully symbolic header (sync entry points)" desc="no vote or pre-vote request decreases a node's term; a granted vote leaves the node in the candidate's term" kernel="Cluster::vote_request,Cluster::pre_vote_request"
#[kani::proof]
#[kani::unwind(6)]
fn c27_term_never_decreases_on_vote_request() {
    let (mut c, t0) = c27_any_node();
    let pre: bool = kani::any();
    let rterm: u64 = kani::any();
    let rq = req(0, 2, rterm, kani::any(), kani::any(), kani::any(), if pre { RequestType::PreVote } else { RequestType::Vote });
    let granted = if pre { c.pre_vote_request(&rq).is_ok() } else { c.vote_request(&rq).is_ok() };
    assert!(c.term >= t0, "C27: the node's term decreased");
    if granted && !pre {
        assert!(c.term == rterm, "C27: a node that granted its vote is not in the candidate's term");
        assert!(rterm > t0, "C27: vote granted for a term the node had already reached");
    }
    if pre {
        assert!(c.term == t0, "C27: a pre-vote changed the node's term");
    }
    kani::cover!(granted && !pre, "vote granted");
    kani::cover!(granted && pre, "pre-vote granted");
    kani::cover!(true, "end of harness reachable");
    std::mem::forget(rq);
    std::mem::forget(c);
}

// ---------------------------------------------------------------------------
// C28  committed entries agree and never change
// ---------------------------------------------------------------------------

fn snapshot(l: &ArrLog) -> ([u64; LN], [u64; LN], [u8; LN], usize, u64) {
    (l.idx, l.term, l.data, l.len, l.commit)
}

/// every entry that was committed before is still there, bit-identical
fn committed_prefix_intact(before: &([u64; LN], [u64; LN], [u8; LN], usize, u64), l: &ArrLog) -> bool {
    let mut okk = true;
    let mut i = 0usize;
    while i < LN {
        if i < before.3 && before.0[i] <= before.4 {
            // entry i was committed: it must still be at position i
            if !(i < l.len && l.idx[i] == before.0[i] && l.term[i] == before.1[i] && l.data[i] == before.2[i]) {
                okk = false;
            }
        }
        i += 1;
    }
    okk
}

fn any_node_state(c: &mut C, leader_of: u64) {
    let s: u8 = kani::any();
    kani::assume(s < 4);
    c.state = if s == 0 {
        ClusterState::Election
    } else if s == 1 {
        ClusterState::Follower(leader_of)
    } else if s == 2 {
        ClusterState::Voted(kani::any())
    } else {
        ClusterState::Candidate
    };
    let t: u64 = kani::any();
    kani::assume(t >= c.local().log_term && t <= 7);
    c.term = t;
}

/// Node 2 of 3 holding exactly two entries (indexes 1, 2) with symbolic
/// non-decreasing terms in 1..=5 and a symbolic commit index 0..=2.
fn follower_with_two_entries() -> C {
    let mut l = ArrLog::empty();
    let t1: u64 = kani::any();
    let t2: u64 = kani::any();
    kani::assume(1 <= t1 && t1 <= t2 && t2 <= 5);
    l.idx[0] = 1;
    l.term[0] = t1;
    l.data[0] = kani::any();
    l.idx[1] = 2;
    l.term[1] = t2;
    l.data[1] = kani::any();
    l.len = 2;
    let cm: u64 = kani::any();
    kani::assume(cm <= 2);
    l.commit = cm;
    l.committed[0] = cm >= 1;
    l.committed[1] = cm >= 2;
    let mut c = mk(2, 3, l);
    any_node_state(&mut c, 0);
    c
}

fn c28_check_after(c: &C, before: &([u64; LN], [u64; LN], [u8; LN], usize, u64)) {
    assert!(c.storage.commit >= before.4, "C28: commit index decreased");
    assert!(c.local().log_commit >= before.4, "C28: node's view of its commit index decreased");
    assert!(!c.storage.appended_at_or_below_commit, "C28: an entry was stored at or below the commit index");
    assert!(committed_prefix_intact(before, &c.storage), "C28: a committed entry was removed or replaced");
}

//@ id=C28 crate=raft tier=quick timeout=900 bounds="arbitrary node bookkeeping (all u64 values of last log index / term / commit index with commit <= index) and an arbitrary offered entry (all u64 index and term)" desc="the function that decides whether an offered entry is stored accepts it only strictly above the commit index and at most one past the last entry: stored entries can only replace the UNcommitted suffix (the store removes uncommitted entries >= the new index) and never leave a gap" kernel="Cluster::validate_log_append"
#[kani::proof]
#[kani::unwind(5)]
fn c28_offered_entry_accepted_only_above_commit_index() {
    crate::vclock::set(0);
    let mut c = mk(2, 3, ArrLog::empty());
    let my_li: u64 = kani::any();
    let my_lt: u64 = kani::any();
    let my_lc: u64 = kani::any();
    kani::assume(my_lc <= my_li && my_li < u64::MAX);
    c.local_mut().log_index = my_li;
    c.local_mut().log_term = my_lt;
    c.local_mut().log_commit = my_lc;
    let li: u64 = kani::any();
    let lt: u64 = kani::any();
    let rq = req(0, 2, kani::any(), kani::any(), kani::any(), kani::any(), RequestType::Heartbeat);
    let lg = Log { db_id: None, index: li, term: lt, data: 0u8 };
    let r = c.validate_log_append(&rq, &lg);
    let store_it = matches!(r, Ok(true));
    if store_it {
        assert!(li > my_lc, "C28: an entry at or below the commit index would be stored");
        assert!(li <= my_li + 1, "C28: an entry would be stored leaving a gap in the log");
        assert!(lt >= my_lt, "C28: an entry of an older term would replace newer ones");
    }
    if matches!(r, Ok(false)) {
        // "already have it": only claimed for the node's own last term
        assert!(lt == my_lt && li <= my_li, "C28: entry skipped as already present although it is not");
    }
    kani::cover!(store_it && li <= my_li, "replaces an uncommitted entry");
    kani::cover!(store_it && li == my_li + 1, "appends the next entry");
    kani::cover!(r.is_err(), "refused");
    kani::cover!(true, "end of harness reachable");
    std::mem::forget(r);
    std::mem::forget(rq);
    std::mem::forget(c);
}

//@ id=C28 crate=raft tier=quick timeout=900 mem=16 bounds="node with two stored entries (symbolic terms, commit index 0..=2); ONE accepted entry with symbolic index 1..=3 above the commit index stored through the real append_storage" desc="storing an accepted entry keeps every committed entry bit-identical and updates the node's last index/term to the stored entry" kernel="Cluster::append_storage"
#[kani::proof]
#[kani::unwind(6)]
fn c28_storing_an_entry_keeps_the_committed_prefix() {
    crate::vclock::set(0);
    let mut c = follower_with_two_entries();
    let before = snapshot(&c.storage);
    let li: u64 = kani::any();
    let lt: u64 = kani::any();
    kani::assume(li >= 1 && li <= 3 && li > before.4 && lt <= 7);
    let lg = Log { db_id: None, index: li, term: lt, data: kani::any() };
    let r = run(c.append_storage(&lg));
    assert!(r.is_ok());
    assert!(committed_prefix_intact(&before, &c.storage), "C28: a committed entry was removed or replaced");
    assert!(!c.storage.appended_at_or_below_commit);
    assert!(c.local().log_index == li && c.local().log_term == lt, "C28: node bookkeeping differs from the stored entry");
    assert!(c.storage.log_index() == li, "C28: store's last index differs");
    kani::cover!(li == 2 && before.4 == 1, "uncommitted entry 2 replaced");
    kani::cover!(li == 3, "entry appended");
    kani::cover!(true, "end of harness reachable");
    std::mem::forget(r);
    std::mem::forget(c);
}

//@ id=C28 crate=raft tier=quick timeout=1500 mem=16 bounds="same arbitrary node state; ONE Heartbeat request with fully symbolic header" desc="whatever Heartbeat arrives: the commit index never decreases and no stored entry changes" kernel="Cluster::request,Cluster::heartbeat_request,Cluster::validate_log,Cluster::validate_term,Cluster::become_follower,Cluster::commit_storage"
#[kani::proof]
#[kani::unwind(6)]
fn c28_heartbeat_never_rewrites_committed_entries() {
    crate::vclock::set(0);
    let mut c = follower_with_two_entries();
    let before = snapshot(&c.storage);
    let from: u64 = kani::any();
    kani::assume(from < 2);
    let rq = req(from, 2, kani::any(), kani::any(), kani::any(), kani::any(), RequestType::Heartbeat);
    let rs = run(c.request(&rq));
    c28_check_after(&c, &before);
    assert!(c.storage.appends == 0, "C28: a heartbeat stored an entry");
    assert!(c.storage.len == 2, "C28: a heartbeat removed an entry");
    kani::cover!(c.storage.commit > before.4, "commit index advanced");
    kani::cover!(!is_ok(&rs), "heartbeat refused");
    kani::cover!(true, "end of harness reachable");
    std::mem::forget(rs);
    std::mem::forget(rq);
    std::mem::forget(c);
}

//@ id=C28 crate=raft tier=quick timeout=1500 mem=16 bounds="same arbitrary node state; one Heartbeat from a leader whose header is consistent (commit index <= its log index)" desc="a follower never commits beyond the entries it holds, and its bookkeeping (log index, commit index) equals its store" kernel="Cluster::heartbeat_request,Cluster::validate_log,Cluster::commit_storage"
#[kani::proof]
#[kani::unwind(6)]
fn c28_follower_commits_only_what_it_has() {
    crate::vclock::set(0);
    let mut c = follower_with_two_entries();
    let h_term: u64 = kani::any();
    let h_li: u64 = kani::any();
    let h_lt: u64 = kani::any();
    let h_lc: u64 = kani::any();
    kani::assume(h_lc <= h_li);
    let rq = req(0, 2, h_term, h_li, h_lt, h_lc, RequestType::Heartbeat);
    let rs = run(c.request(&rq));
    assert!(c.local().log_commit <= c.local().log_index, "C28: follower committed beyond its last entry");
    assert!(c.local().log_commit == c.storage.commit, "C28: node's commit index differs from its store");
    assert!(c.local().log_index == c.storage.log_index(), "C28: node's log index differs from its store");
    kani::cover!(is_ok(&rs) && c.storage.commits > 0, "heartbeat accepted and committed");
    kani::cover!(true, "end of harness reachable");
    std::mem::forget(rs);
    std::mem::forget(rq);
    std::mem::forget(c);
}

// ---------------------------------------------------------------------------
// C28 / C29  leader commit rule
// ---------------------------------------------------------------------------

fn c29_leader_commit_scenario(size: u64) {
    crate::vclock::set(0);
    let me: u64 = 0;
    let mut c = mk(me, size, ArrLog::empty());
    c.state = ClusterState::Leader;
    let my_li: u64 = kani::any();
    let my_lc: u64 = kani::any();
    kani::assume(my_li >= 1 && my_li <= 5 && my_lc <= my_li);
    c.term = 3;
    c.local_mut().log_index = my_li;
    c.local_mut().log_term = 3;
    c.local_mut().log_commit = my_lc;
    c.storage.commit = my_lc;
    // what the leader believes the others hold
    let mut i = 1u64;
    while i < 5 {
        if i < size {
            let li: u64 = kani::any();
            kani::assume(li <= my_li);
            c.node_mut(i).log_index = li;
        }
        i += 1;
    }
    let target: u64 = kani::any();
    kani::assume(target < size && target != me);
    let r_li: u64 = kani::any();
    kani::assume(r_li <= my_li);
    let hb: bool = kani::any();
    let rq = req(me, target, 3, r_li, 3, my_lc, if hb { RequestType::Heartbeat } else { RequestType::Append(Vec::new()) });
    let rs = Response { target: me, result: ResponseType::Ok };
    let out = run(c.response(&rq, &rs));
    let after = c.local().log_commit;
    assert!(after >= my_lc, "C29: leader's commit index decreased");
    assert!(after <= my_li, "C29: leader committed beyond its own log");
    assert!(c.storage.commit == after, "C29: store commit index differs from the leader's");
    if after > my_lc {
        // nodes holding index >= after according to the leader's table after the ack
        let mut holders = 0u64;
        let mut j = 0u64;
        while j < 5 {
            if j < size && c.node(j).log_index >= after {
                holders += 1;
            }
            j += 1;
        }
        assert!(holders > size / 2, "C29: leader committed an index that is not on a majority of nodes");
    }
    kani::cover!(after > my_lc, "commit advanced");
    kani::cover!(after == my_lc, "no majority yet");
    kani::cover!(true, "end of harness reachable");
    std::mem::forget(out);
    std::mem::forget(rs);
    std::mem::forget(rq);
    std::mem::forget(c);
}

//@ id=C29,C28 crate=raft tier=quick timeout=1500 mem=16 bounds="leader of a 3-node cluster: symbolic own log index 1..=5 and commit index, symbolic per-follower acknowledged indexes; ONE Ok response to a Heartbeat/Append it sent (symbolic follower, request log index <= leader's)" desc="the leader advances its commit index to i only if strictly more than half of the nodes (itself included) hold an index >= i; never beyond its own log, never backwards" kernel="Cluster::response,Cluster::commit,Cluster::commit_storage,Cluster::heartbeat_no_timer"
#[kani::proof]
#[kani::unwind(6)]
fn c29_leader_commits_only_on_true_majority_3_nodes() {
    c29_leader_commit_scenario(3);
}

//@ id=C29,C28 crate=raft tier=quick timeout=1500 mem=16 bounds="leader of a 5-node cluster, otherwise as the 3-node harness" desc="5 nodes: commit needs 3 holders" kernel="Cluster::response,Cluster::commit,Cluster::commit_storage"
#[kani::proof]
#[kani::unwind(7)]
fn c29_leader_commits_only_on_true_majority_5_nodes() {
    c29_leader_commit_scenario(5);
}

// ---------------------------------------------------------------------------
// C29  entries committed by a leader survive every later leader
// ---------------------------------------------------------------------------

//@ id=C29 crate=raft tier=quick timeout=1200 mem=16 bounds="voter of a 3-node cluster in an arbitrary non-leader state (symbolic last log index/term/commit index, state, term, clock); ONE Vote or PreVote request with fully symbolic header" desc="a vote (or pre-vote) is granted only to a candidate whose log is at least as up to date as the voter's (last term, then last index, in Raft's order) and whose commit index is not behind the voter's" kernel="Cluster::vote_request,Cluster::pre_vote_request,Cluster::validate_log_for_vote,Cluster::validate_vote_state,Cluster::validate_term_for_vote"
#[kani::proof]
#[kani::unwind(5)]
fn c29_vote_only_for_up_to_date_candidate() {
    crate::vclock::set(0);
    let mut c = mk(2, 3, ArrLog::empty());
    let my_li: u64 = kani::any();
    let my_lt: u64 = kani::any();
    let my_lc: u64 = kani::any();
    kani::assume(my_lc <= my_li);
    c.local_mut().log_index = my_li;
    c.local_mut().log_term = my_lt;
    c.local_mut().log_commit = my_lc;
    let s: u8 = kani::any();
    kani::assume(s < 4);
    c.state = if s == 0 {
        ClusterState::Election
    } else if s == 1 {
        ClusterState::Follower(0)
    } else if s == 2 {
        ClusterState::Voted(kani::any())
    } else {
        ClusterState::Candidate
    };
    c.term = kani::any();
    advance_clock();
    let pre: bool = kani::any();
    let r_li: u64 = kani::any();
    let r_lt: u64 = kani::any();
    let r_lc: u64 = kani::any();
    let rq = req(1, 2, kani::any(), r_li, r_lt, r_lc, if pre { RequestType::PreVote } else { RequestType::Vote });
    let granted = if pre { c.pre_vote_request(&rq).is_ok() } else { c.vote_request(&rq).is_ok() };
    if granted {
        let up_to_date = r_lt > my_lt || (r_lt == my_lt && r_li >= my_li);
        assert!(up_to_date, "C29: vote granted to a candidate whose log is behind the voter's");
        assert!(r_lc >= my_lc, "C29: vote granted to a candidate that misses entries the voter has committed");
    }
    kani::cover!(granted && pre, "pre-vote granted");
    kani::cover!(granted && !pre, "vote granted");
    kani::cover!(!granted, "refused");
    kani::cover!(true, "end of harness reachable");
    std::mem::forget(rq);
    std::mem::forget(c);
}

//@ id=C29 crate=raft tier=quick timeout=900 mem=16 bounds="candidate node (symbolic index 0..=2) of a 3-node cluster with fully symbolic bookkeeping (all u64 last log index / term / commit index, term < 2^64-1), stale voted flags symbolic; ONE pre_election() and ONE election() call" desc="the other half of the vote-side log check (two cooperating sites): the PreVote and Vote requests a candidate sends carry exactly ITS OWN last log index, last log term and commit index (so the voter's comparison in validate_log_for_vote is made against the candidate's real log), the proposed term is current+1, one request per other node and none to itself, and starting an election clears every other node's vote flag" kernel="Cluster::pre_election,Cluster::election"
#[kani::proof]
#[kani::unwind(5)]
fn c29_candidate_advertises_its_own_log() {
    crate::vclock::set(0);
    let me: u64 = kani::any();
    kani::assume(me < 3);
    let mut c = mk(me, 3, ArrLog::empty());
    let li: u64 = kani::any();
    let lt: u64 = kani::any();
    let lc: u64 = kani::any();
    c.local_mut().log_index = li;
    c.local_mut().log_term = lt;
    c.local_mut().log_commit = lc;
    // other nodes' bookkeeping is different from the candidate's own on purpose
    let o1 = ((me + 1) % 3) as usize;
    let o2 = ((me + 2) % 3) as usize;
    c.nodes[o1].log_index = kani::any();
    c.nodes[o1].log_term = kani::any();
    c.nodes[o1].log_commit = kani::any();
    c.nodes[o2].log_index = kani::any();
    c.nodes[o2].log_term = kani::any();
    c.nodes[o2].log_commit = kani::any();
    c.nodes[o1].voted = kani::any();
    c.nodes[o2].voted = kani::any();
    let t: u64 = kani::any();
    kani::assume(t < u64::MAX - 1);
    c.term = t;
    let pre = c.pre_election();
    assert!(pre.len() == 2, "C29: pre-election does not address exactly the two other nodes");
    assert!(c.term == t, "C29: pre-election changed the term");
    let mut k = 0usize;
    while k < 2 {
        let r = &pre[k];
        assert!(matches!(r.data, RequestType::PreVote));
        assert!(r.index == me && r.target != me && r.target < 3, "C29: pre-vote request from/to the wrong node");
        assert!(r.term == t + 1, "C29: pre-vote request does not propose the next term");
        assert!(r.log_index == li && r.log_term == lt && r.log_commit == lc, "C29: pre-vote request does not carry the candidate's own log position");
        k += 1;
    }
    assert!(pre[0].target != pre[1].target, "C29: two pre-vote requests to one node");
    assert!(!c.nodes[o1].voted && !c.nodes[o2].voted, "C29: pre-election kept a stale vote flag");
    c.nodes[o1].voted = kani::any();
    c.nodes[o2].voted = kani::any();
    let votes = c.election();
    assert!(votes.len() == 2, "C29: election does not address exactly the two other nodes");
    assert!(c.term == t + 1, "C29: election did not move to the next term");
    assert!(matches!(c.state, ClusterState::Candidate));
    let mut k = 0usize;
    while k < 2 {
        let r = &votes[k];
        assert!(matches!(r.data, RequestType::Vote));
        assert!(r.index == me && r.target != me && r.target < 3, "C29: vote request from/to the wrong node");
        assert!(r.term == t + 1, "C29: vote request is not for the candidate's new term");
        assert!(r.log_index == li && r.log_term == lt && r.log_commit == lc, "C29: vote request does not carry the candidate's own log position");
        k += 1;
    }
    assert!(votes[0].target != votes[1].target, "C29: two vote requests to one node");
    assert!(!c.nodes[o1].voted && !c.nodes[o2].voted, "C29: election kept a stale vote flag");
    kani::cover!(li != c.nodes[o1].log_index, "candidate's log differs from another node's bookkeeping");
    kani::cover!(true, "end of harness reachable");
    std::mem::forget(pre);
    std::mem::forget(votes);
    std::mem::forget(c);
}
