// harnesses mounted as child module of agdb/src/collections/indexed_map.rs
#[allow(unused_imports)]
use super::*;
