// harnesses mounted as child module of agdb/src/collections/indexed_map.rs
#[allow(unused_imports)]
use super::*;

// =============================================================================
// C10 — "aliases form a one-to-one mapping" at the mapping kernel:
// `IndexedMapImpl` (alias -> id and id -> alias kept as two `MapImpl`s)
// instantiated `<u64, u64, ArrStorage, ArrMap<64>, ArrMap<64>>` — key = alias,
// value = node id; `StableHash for u64` is the identity, so the small domains
// below produce collisions in both directions.
//
// Oracle (from the property): a reference bijection in plain arrays.
//   insert(k, v): "replaces that node's previous alias and takes the alias from
//                 any node that held it" — drop the pair holding key k, drop the
//                 pair holding value v, add (k, v)
//   remove_key(k) / remove_value(v): "makes it unresolvable"
//   after EVERY step: value(k) / key(v) agree with the reference for every k, v
//   of the domains (=> the two directions are mutual inverses, each key has at
//   most one value and each value at most one key), both tables hold exactly
//   the reference's number of pairs, no key is stored twice in either table.
//
// What `DbImpl::insert_alias` does around `IndexedMapImpl::insert` (read, not
// encoded — needs the whole DbImpl): it first removes the node's old alias
// (`remove_key(old_alias)` twice), then calls `insert(alias, id)`;
// `IndexedMapImpl::insert` itself already handles both replacements, so the
// kernel semantics checked here is the one the property states. Empty aliases,
// aliases for edge ids, removal together with the node: DbImpl / query layer,
// outside this check.
// =============================================================================

use crate::collections::map::verif_h::C10_DOMAIN;
use crate::collections::map::verif_h::c10_any_from_domain;
use crate::collections::map::verif_h::c10_data;
use crate::collections::map::verif_h::c10_empty_map;
use crate::collections::map::verif_h::c10_slots_with_key;
use crate::collections::map::verif_h::c10_valid_slots;
use crate::storage::verif_h::fresh_arr_storage;
use crate::verif_support::ArrMap;
use crate::verif_support::ArrStorage;
use crate::verif_support::is_ok;
use crate::verif_support::ok;

type C10Indexed = IndexedMapImpl<u64, u64, ArrStorage, ArrMap<64>, ArrMap<64>>;

/// The empty indexed map exactly as `DbIndexedMap::new` builds it.
fn c10_empty_indexed() -> C10Indexed {
    IndexedMapImpl {
        keys_to_values: c10_empty_map::<64>(),
        values_to_keys: c10_empty_map::<64>(),
        storage: PhantomData,
    }
}

// reference bijection: at most one pair per key and per value
struct C10Bijection {
    used: [bool; 4],
    keys: [u64; 4],
    values: [u64; 4],
}

impl C10Bijection {
    fn new() -> Self {
        Self {
            used: [false; 4],
            keys: [0; 4],
            values: [0; 4],
        }
    }
    fn value_of(&self, key: u64) -> Option<u64> {
        let mut r = None;
        let mut i = 0;
        while i < 4 {
            if self.used[i] && self.keys[i] == key {
                r = Some(self.values[i]);
            }
            i += 1;
        }
        r
    }
    fn key_of(&self, value: u64) -> Option<u64> {
        let mut r = None;
        let mut i = 0;
        while i < 4 {
            if self.used[i] && self.values[i] == value {
                r = Some(self.keys[i]);
            }
            i += 1;
        }
        r
    }
    fn pairs(&self) -> u64 {
        let mut n = 0;
        let mut i = 0;
        while i < 4 {
            if self.used[i] {
                n += 1;
            }
            i += 1;
        }
        n
    }
    fn remove_key(&mut self, key: u64) {
        let mut i = 0;
        while i < 4 {
            if self.used[i] && self.keys[i] == key {
                self.used[i] = false;
            }
            i += 1;
        }
    }
    fn remove_value(&mut self, value: u64) {
        let mut i = 0;
        while i < 4 {
            if self.used[i] && self.values[i] == value {
                self.used[i] = false;
            }
            i += 1;
        }
    }
    fn insert(&mut self, at: usize, key: u64, value: u64) {
        self.remove_key(key);
        self.remove_value(value);
        self.used[at] = true;
        self.keys[at] = key;
        self.values[at] = value;
    }
}

// shape[i]: 0 = step i is an insert, 1 = a removal (by key or by value, symbolic),
// 2 = any of the three (keys and values always symbolic). Step 0 must be an insert.
// returns (replaced_value_of_key, stole_value, both, removed_by_value, pairs, n)
fn c10_indexed_history<const STEPS: usize>(shape: [u8; STEPS]) -> (bool, bool, bool, bool, u64, usize) {
    let mut s = fresh_arr_storage();
    let mut m = c10_empty_indexed();
    let mut reference = C10Bijection::new();
    let mut replaced_value_of_key = false; // existing alias moved to another node
    let mut stole_value = false; // node got a new alias, old alias dropped
    let mut both = false;
    let mut removed_by_value = false;
    // remove / lookup on the never-used map (capacity 0)
    let k0 = c10_any_from_domain();
    assert!(is_ok(m.remove_key(&mut s, &k0)), "remove_key on the empty map returned Err");
    assert!(is_ok(m.remove_value(&mut s, &k0)), "remove_value on the empty map returned Err");
    assert!(ok(m.key(&s, &k0)).is_none() && ok(m.value(&s, &k0)).is_none(), "empty map resolves something");
    // History length symbolic (1..=STEPS): the checks below run once, on the
    // state after ANY prefix of the history, i.e. after every step (running the
    // lookups inside the loop after each step: out of memory at 10 GB).
    let n: usize = kani::any();
    kani::assume(n >= 1 && n <= STEPS);
    let mut step = 0;
    while step < STEPS {
        if step == 0 || step < n {
        // step 0 is always an insert: it grows both tables 0 -> 64, after which
        // the capacities are constants for CBMC (see map_h.rs)
        let op: u8 = match shape[step] {
            0 => 0,
            1 => {
                if kani::any() {
                    1
                } else {
                    2
                }
            }
            _ => kani::any(),
        };
        kani::assume(op < 3);
        let k = c10_any_from_domain();
        let v = c10_any_from_domain();
        match op {
            0 => {
                let old_v = reference.value_of(k);
                let old_k = reference.key_of(v);
                let same_pair = old_v == Some(v);
                if old_v.is_some() && !same_pair {
                    replaced_value_of_key = true;
                }
                if old_k.is_some() && !same_pair {
                    stole_value = true;
                }
                if old_v.is_some() && old_k.is_some() && !same_pair {
                    both = true;
                }
                reference.insert(step, k, v);
                assert!(is_ok(m.insert(&mut s, &k, &v)), "insert returned Err");
            }
            1 => {
                reference.remove_key(k);
                assert!(is_ok(m.remove_key(&mut s, &k)), "remove_key returned Err");
            }
            _ => {
                if reference.key_of(v).is_some() {
                    removed_by_value = true;
                }
                reference.remove_value(v);
                assert!(is_ok(m.remove_value(&mut s, &v)), "remove_value returned Err");
            }
        }

        }
        step += 1;
    }

    // lookups in both directions agree with the reference bijection, for
    // every key / value of the domains (symbolic query)
    let qk = c10_any_from_domain();
    let qv = c10_any_from_domain();
    let got_v = ok(m.value(&s, &qk));
    let got_k = ok(m.key(&s, &qv));
    assert!(got_v == reference.value_of(qk), "alias -> id lookup differs from the reference bijection");
    assert!(got_k == reference.key_of(qv), "id -> alias lookup differs from the reference bijection");
    // structure of both tables
    let kv = c10_data(&m.keys_to_values);
    let vk = c10_data(&m.values_to_keys);
    assert!(c10_slots_with_key(kv, qk) <= 1, "an alias is stored twice");
    assert!(c10_slots_with_key(vk, qv) <= 1, "an id has two aliases");
    assert!(kv.len == reference.pairs() && vk.len == reference.pairs(), "the two directions do not hold the same number of pairs as the reference");
    assert!(c10_valid_slots(kv) == kv.len && c10_valid_slots(vk) == vk.len, "len is not the number of Valid slots");

    // the two directions are mutual inverses (dependent lookup, final state)
    let qk = c10_any_from_domain();
    if let Some(v) = ok(m.value(&s, &qk)) {
        let back = ok(m.key(&s, &v));
        assert!(back == Some(qk), "value(k) = v but key(v) != k");
    }
    let pairs = reference.pairs();
    std::mem::forget(m);
    std::mem::forget(s);
    (replaced_value_of_key, stole_value, both, removed_by_value, pairs, n)
}

//@ id=C10 tier=quick timeout=1500 bounds="empty indexed map (both tables capacity 0 -> 64; removals and lookups on the never-used map first); 1..=2 (symbolic) inserts of (k, v) with k, v from {0,64,1,65,128} (colliding home slots in both tables, 0 = default key); symbolic query key and value on the final state of every prefix" desc="IndexedMapImpl::insert keeps a one-to-one mapping over two inserts: re-aliasing an id drops its old alias, giving an existing alias to another id takes it from the old one; lookups in both directions equal a reference bijection, nothing is stored twice, both tables have the reference's size, the directions are mutual inverses" kernel="IndexedMapImpl::insert,IndexedMapImpl::remove_key,IndexedMapImpl::remove_value,IndexedMapImpl::key,IndexedMapImpl::value,MapImpl::insert,MapImpl::remove,MapImpl::value" args="--no-assertion-reach-checks"
#[kani::proof]
#[kani::stub(std::fmt::format, crate::verif_support::fmt_stub)]
#[kani::stub(crate::DbError::new, crate::verif_support::dberror_new_stub)]
#[kani::unwind(6)]
fn c10_indexed_map_two_inserts_keep_bijection() {
    let (replaced, stole, _, _, pairs, n) = c10_indexed_history::<2>([0, 0]);
    kani::cover!(replaced, "an existing alias was moved to another id");
    kani::cover!(stole, "an id got a new alias, its old alias must stop resolving");
    kani::cover!(pairs == 2, "two disjoint pairs");
    kani::cover!(n == 1, "history of a single step");
    kani::cover!(true, "end of harness reachable");
}

//@ id=C10 tier=quick timeout=3600 bounds="empty indexed map (both tables capacity 0 -> 64); 1..=3 (symbolic) inserts of (k, v) with k, v from {0,64,1,65,128} (colliding home slots in both tables, 0 = default key); symbolic query key and value on the final state of every prefix" desc="IndexedMapImpl::insert keeps a one-to-one mapping: an existing alias moves to the new id (the old id loses it), an id's previous alias stops resolving, both at once; lookups in both directions equal a reference bijection, nothing is stored twice, both tables have the reference's size, the directions are mutual inverses" kernel="IndexedMapImpl::insert,IndexedMapImpl::key,IndexedMapImpl::value,MapImpl::insert,MapImpl::remove,MapImpl::value" args="--no-assertion-reach-checks"
#[kani::proof]
#[kani::stub(std::fmt::format, crate::verif_support::fmt_stub)]
#[kani::stub(crate::DbError::new, crate::verif_support::dberror_new_stub)]
#[kani::unwind(6)]
fn c10_indexed_map_inserts_keep_bijection() {
    let (replaced, stole, both, _, pairs, n) = c10_indexed_history::<3>([0, 0, 0]);
    kani::cover!(replaced, "an existing alias was moved to another id");
    kani::cover!(stole, "an id got a new alias, its old alias must stop resolving");
    kani::cover!(both, "insert replaced in both directions at once");
    kani::cover!(pairs == 3, "three disjoint pairs");
    kani::cover!(n == 1, "history of a single step");
    kani::cover!(true, "end of harness reachable");
}

// The fully symbolic 3-step history (insert, any, any) proves its assertions in
// 200 s but the solver then runs out of memory (10 GB) on the cover checks, so
// the remaining step sequences are split by shape (I = insert, R = removal by
// alias or by id): III above, IIR and IRI below. Not run: IRR (second removal
// on a map holding at most one tombstone) and histories starting with a removal
// (they act on the empty map, checked at the start of every history).

//@ id=C10 tier=thorough timeout=3600 bounds="empty indexed map (both tables capacity 0 -> 64); insert, insert, then remove_key/remove_value (symbolic); history length symbolic 1..=3; k, v from {0,64,1,65,128}; symbolic query key and value on the final state of every prefix" desc="IndexedMapImpl keeps a one-to-one mapping when pairs are removed by alias or by id: the removed pair stops resolving in BOTH directions, other pairs are untouched; lookups equal a reference bijection, nothing stored twice, both tables have the reference's size, directions are mutual inverses" kernel="IndexedMapImpl::insert,IndexedMapImpl::remove_key,IndexedMapImpl::remove_value,IndexedMapImpl::key,IndexedMapImpl::value,MapImpl::insert,MapImpl::remove,MapImpl::value" args="--no-assertion-reach-checks"
#[kani::proof]
#[kani::stub(std::fmt::format, crate::verif_support::fmt_stub)]
#[kani::stub(crate::DbError::new, crate::verif_support::dberror_new_stub)]
#[kani::unwind(6)]
fn c10_indexed_map_removals_keep_bijection() {
    let (_, _, _, removed_by_value, pairs, n) = c10_indexed_history::<3>([0, 0, 1]);
    kani::cover!(removed_by_value, "remove_value removed a pair");
    kani::cover!(pairs == 1 && n == 3, "one of two pairs removed");
    kani::cover!(pairs == 2 && n == 3, "removal of an absent alias / id leaves both pairs");
    kani::cover!(true, "end of harness reachable");
}

//@ id=C10 tier=thorough timeout=3600 bounds="empty indexed map (both tables capacity 0 -> 64); insert, remove_key/remove_value (symbolic), insert; history length symbolic 1..=3; k, v from {0,64,1,65,128}; symbolic query key and value on the final state of every prefix" desc="IndexedMapImpl keeps a one-to-one mapping when a pair is inserted after a removal (tombstones on the probe paths of both tables, re-use of a removed alias or id)" kernel="IndexedMapImpl::insert,IndexedMapImpl::remove_key,IndexedMapImpl::remove_value,IndexedMapImpl::key,IndexedMapImpl::value,MapImpl::insert,MapImpl::remove,MapImpl::value" args="--no-assertion-reach-checks"
#[kani::proof]
#[kani::stub(std::fmt::format, crate::verif_support::fmt_stub)]
#[kani::stub(crate::DbError::new, crate::verif_support::dberror_new_stub)]
#[kani::unwind(6)]
fn c10_indexed_map_reinsert_after_removal() {
    let (_, _, _, removed_by_value, pairs, n) = c10_indexed_history::<3>([0, 1, 0]);
    kani::cover!(removed_by_value && pairs == 1 && n == 3, "pair removed by id, then a pair inserted");
    kani::cover!(pairs == 2, "removal missed, two pairs");
    kani::cover!(true, "end of harness reachable");
}
