// harnesses mounted as child module of agdb/src/collections/bit_set.rs
#[allow(unused_imports)]
use super::*;

//@ id=C14 tier=quick timeout=600 bounds="bit numbers u, v < 40 (up to 5 bytes), queried bit w < 64; empty set at start" desc="BitSet used as the visited set of the searches: after set(u), set(v) exactly u and v read as set (also beyond the allocated bytes), setting twice changes nothing, the byte vector grows to exactly the highest byte needed" kernel="BitSet::set,BitSet::value,BitSet::new" args="--no-assertion-reach-checks"
#[kani::proof]
#[kani::unwind(7)]
fn c14_bitset_visited_set() {
    let mut b = BitSet::new();
    let u: u64 = kani::any();
    let v: u64 = kani::any();
    let w: u64 = kani::any();
    kani::assume(u < 40 && v < 40 && w < 64);
    assert!(!b.value(w), "empty set has a member");
    b.set(u);
    assert!(b.value(u), "bit not set");
    assert!(b.value(w) == (w == u), "set(u) changed another bit");
    b.set(v);
    assert!(b.value(w) == (w == u || w == v), "membership differs after two sets");
    let len = b.data.len();
    b.set(u);
    assert!(b.value(w) == (w == u || w == v), "setting twice changed the set");
    assert!(b.data.len() == len, "setting twice grew the vector");
    let hi = if u > v { u } else { v };
    assert!(len == (hi / 8 + 1) as usize, "vector length is not the highest byte + 1");
    kani::cover!(u / 8 > v / 8 && v % 8 == 7, "second bit in a lower byte, top bit of it");
    kani::cover!(v / 8 == 4 && u / 8 == 0, "growth by four bytes on the second set");
    kani::cover!(true, "end of harness reachable");
    std::mem::forget(b);
}
