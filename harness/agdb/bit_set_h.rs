// harnesses mounted as child module of agdb/src/collections/bit_set.rs
#[allow(unused_imports)]
use super::*;
