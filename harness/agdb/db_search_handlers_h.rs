// harnesses mounted as child module of agdb/src/db/db_search_handlers.rs
#[allow(unused_imports)]
use super::*;
