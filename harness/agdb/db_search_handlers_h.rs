// harnesses mounted as child module of agdb/src/db/db_search_handlers.rs
#[allow(unused_imports)]
use super::*;

// =============================================================================
// C16 — the streaming limit / offset handlers used by the unordered
// breadth-first / depth-first / elements searches.
//
// "an offset O and limit L return exactly the elements at positions O to
//  O+L-1 (clipped to what exists) of the same search without them ... an offset
//  or limit beyond the end yields a shorter or empty result, never a failure"
//
// The handlers need a `&DbImpl` only to call `evaluate_conditions`; with an
// EMPTY condition list that call never reads `self` (it returns the documented
// starting value Continue(true)), so the harness passes a reference to an
// uninitialised `DbImpl<ArrStorage>` (never read, never dropped) — see db_h.rs.
// Covered: the limit/offset counting for searches WITHOUT conditions; the
// harness plays the search engine: it calls `process` once per visited element
// and stops calling after a `Finish` (what SearchImpl does).
// Handler selection as in `DbImpl::search_from`: LimitHandler only for
// limit != 0 && offset == 0, OffsetHandler only for offset != 0 && limit == 0,
// LimitOffsetHandler only for both != 0.
// =============================================================================

use crate::verif_support::ArrStorage;
use crate::verif_support::ok;

const C16_CALLS: usize = 5;

fn c16_kind(c: &SearchControl) -> u8 {
    match c {
        SearchControl::Continue(_) => 0,
        SearchControl::Finish(_) => 1,
        SearchControl::Stop(_) => 2,
    }
}

// Drives `h` over up to `n` elements like the search engine does and checks
// the window [offset, offset + limit) (limit None = unbounded).
fn c16_drive<H: SearchHandler>(h: &mut H, n: usize, offset: u64, limit: Option<u64>) -> (usize, bool) {
    let mut visited = 0usize;
    let mut finished = false;
    let mut i = 0usize;
    while i < C16_CALLS {
        if i < n && !finished {
            let index: i64 = kani::any();
            let distance: u64 = kani::any();
            let c = ok(h.process(GraphIndex(index), distance));
            let pos = i as u128;
            let end: Option<u128> = limit.map(|l| offset as u128 + l as u128);
            let in_window = pos >= offset as u128 && end.map_or(true, |e| pos < e);
            assert!(c.is_true() == in_window, "element selected outside / dropped inside the window offset..offset+limit");
            // the search must end exactly with the last element of the window
            let is_last = end.map_or(false, |e| pos + 1 == e);
            if is_last {
                assert!(c16_kind(&c) == 1, "Finish must be returned when the limit is reached");
                finished = true;
            } else {
                assert!(c16_kind(&c) == 0, "without conditions every other element must yield Continue");
            }
            visited += 1;
        }
        i += 1;
    }
    (visited, finished)
}

//@ id=C16 tier=quick timeout=600 bounds="limit any u64 != 0 (offset == 0: the case LimitHandler is used for); empty condition list (db never read: uninitialised DbImpl); a search visiting 0..=5 elements with symbolic ids/distances" desc="LimitHandler selects exactly the first `limit` visited elements and returns Finish on the limit-th one (the search ends there), for every limit" kernel="LimitHandler::new,LimitHandler::process,DbImpl::evaluate_conditions" args="--no-assertion-reach-checks"
#[kani::proof]
#[kani::stub(std::fmt::format, crate::verif_support::fmt_stub)]
#[kani::stub(crate::DbError::new, crate::verif_support::dberror_new_stub)]
#[kani::unwind(7)]
fn c16_limit_handler_window() {
    let mem = std::mem::MaybeUninit::<DbImpl<ArrStorage>>::uninit();
    let db: &DbImpl<ArrStorage> = unsafe { &*mem.as_ptr() };
    let conditions: Vec<QueryCondition> = Vec::new();
    let limit: u64 = kani::any();
    kani::assume(limit != 0);
    let n: usize = kani::any();
    kani::assume(n <= C16_CALLS);
    let mut h = LimitHandler::new(limit, db, &conditions);
    let (visited, finished) = c16_drive(&mut h, n, 0, Some(limit));
    kani::cover!(finished && visited == 3, "limit 3 reached, search ended early");
    kani::cover!(!finished && visited == 5, "limit beyond the end of the search");
    kani::cover!(limit == u64::MAX, "maximal limit");
    kani::cover!(true, "end of harness reachable");
    std::mem::forget(conditions);
}

//@ id=C16 tier=quick timeout=600 bounds="offset any u64 != 0 (limit == 0: the case OffsetHandler is used for); empty condition list (db never read); a search visiting 0..=5 elements" desc="OffsetHandler drops exactly the first `offset` visited elements, selects all later ones and never ends the search, for every offset (offset beyond the end: empty result, no failure)" kernel="OffsetHandler::new,OffsetHandler::process,DbImpl::evaluate_conditions" args="--no-assertion-reach-checks"
#[kani::proof]
#[kani::stub(std::fmt::format, crate::verif_support::fmt_stub)]
#[kani::stub(crate::DbError::new, crate::verif_support::dberror_new_stub)]
#[kani::unwind(7)]
fn c16_offset_handler_window() {
    let mem = std::mem::MaybeUninit::<DbImpl<ArrStorage>>::uninit();
    let db: &DbImpl<ArrStorage> = unsafe { &*mem.as_ptr() };
    let conditions: Vec<QueryCondition> = Vec::new();
    let offset: u64 = kani::any();
    kani::assume(offset != 0);
    let n: usize = kani::any();
    kani::assume(n <= C16_CALLS);
    let mut h = OffsetHandler::new(offset, db, &conditions);
    let (visited, finished) = c16_drive(&mut h, n, offset, None);
    assert!(!finished && visited == n, "OffsetHandler must never end the search");
    kani::cover!(offset == 2 && n == 5, "offset inside the result");
    kani::cover!(offset > 5 && n == 5, "offset beyond the end");
    kani::cover!(offset == u64::MAX, "maximal offset");
    kani::cover!(true, "end of harness reachable");
    std::mem::forget(conditions);
}

//@ id=C16 tier=quick timeout=600 bounds="limit, offset any u64 != 0 with limit + offset <= u64::MAX (no overflow: see c16_limit_offset_handler_any_u64); empty condition list (db never read); a search visiting 0..=5 elements" desc="LimitOffsetHandler selects exactly the visited elements at positions offset..offset+limit-1 and returns Finish on the last of them" kernel="LimitOffsetHandler::new,LimitOffsetHandler::process,DbImpl::evaluate_conditions" args="--no-assertion-reach-checks"
#[kani::proof]
#[kani::stub(std::fmt::format, crate::verif_support::fmt_stub)]
#[kani::stub(crate::DbError::new, crate::verif_support::dberror_new_stub)]
#[kani::unwind(7)]
fn c16_limit_offset_handler_window() {
    let mem = std::mem::MaybeUninit::<DbImpl<ArrStorage>>::uninit();
    let db: &DbImpl<ArrStorage> = unsafe { &*mem.as_ptr() };
    let conditions: Vec<QueryCondition> = Vec::new();
    let limit: u64 = kani::any();
    let offset: u64 = kani::any();
    kani::assume(limit != 0 && offset != 0);
    kani::assume(limit.checked_add(offset).is_some());
    let n: usize = kani::any();
    kani::assume(n <= C16_CALLS);
    let mut h = LimitOffsetHandler::new(limit, offset, db, &conditions);
    let (visited, finished) = c16_drive(&mut h, n, offset, Some(limit));
    kani::cover!(finished && offset == 1 && limit == 2 && visited == 3, "window 1..3 completed");
    kani::cover!(!finished && visited == 5 && offset == 4, "window cut by the end of the search");
    kani::cover!(!finished && visited == 5 && offset > 5, "offset beyond the end");
    kani::cover!(true, "end of harness reachable");
    std::mem::forget(conditions);
}

//@ id=C16 tier=quick timeout=600 bounds="limit, offset ANY u64 != 0 (including limit + offset > u64::MAX); empty condition list (db never read); a search visiting 0..=5 elements" desc="LimitOffsetHandler never fails and selects positions offset..offset+limit-1 for every limit/offset, also when offset + limit exceeds u64::MAX (then: everything from offset on)" kernel="LimitOffsetHandler::new,LimitOffsetHandler::process" args="--no-assertion-reach-checks"
#[kani::proof]
#[kani::stub(std::fmt::format, crate::verif_support::fmt_stub)]
#[kani::stub(crate::DbError::new, crate::verif_support::dberror_new_stub)]
#[kani::unwind(7)]
fn c16_limit_offset_handler_any_u64() {
    let mem = std::mem::MaybeUninit::<DbImpl<ArrStorage>>::uninit();
    let db: &DbImpl<ArrStorage> = unsafe { &*mem.as_ptr() };
    let conditions: Vec<QueryCondition> = Vec::new();
    let limit: u64 = kani::any();
    let offset: u64 = kani::any();
    kani::assume(limit != 0 && offset != 0);
    let n: usize = kani::any();
    kani::assume(n <= C16_CALLS);
    let mut h = LimitOffsetHandler::new(limit, offset, db, &conditions);
    let (visited, finished) = c16_drive(&mut h, n, offset, Some(limit));
    kani::cover!(limit.checked_add(offset).is_none() && visited == 5 && offset == 2, "offset + limit beyond u64::MAX, offset inside the result");
    kani::cover!(true, "end of harness reachable");
    std::mem::forget(conditions);
}

// A variant of the LimitOffsetHandler harness with a pruning condition list
// ([Node, NotBeyond Node]: Stop(true) on nodes, Continue(false) on edges) was tried
// after seeded change C16_2 (an element skipped by the offset loses its Stop): the
// handlers take `&Vec<QueryCondition>`, and with the conditions on the heap CBMC
// explores every arm of evaluate_condition including the database reads -- out of
// memory (10 GB) after 13 minutes. Pruning conditions in the streaming handlers stay
// outside the C16 claim.
