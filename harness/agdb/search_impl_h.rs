// harnesses mounted as child module of agdb/src/graph_search/search_impl.rs
#[allow(unused_imports)]
use super::*;
