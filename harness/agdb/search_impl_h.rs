// harnesses mounted as child module of agdb/src/graph_search/search_impl.rs
#[allow(unused_imports)]
use super::*;

use crate::graph::verif_h::{RefGraph, graph_step, new_arr_graph};
use crate::graph_search::breadth_first_search::BreadthFirstSearch;
use crate::graph_search::depth_first_search::DepthFirstSearch;
use crate::verif_support::{ArrGraph, ArrStorage, ok};

struct C14Count {
    calls: u32,
    last: i64,
    last_distance: u64,
}

impl SearchHandler for C14Count {
    fn process(&mut self, index: GraphIndex, distance: u64) -> Result<SearchControl, DbError> {
        self.calls += 1;
        self.last = index.0;
        self.last_distance = distance;
        Ok(SearchControl::Continue(true))
    }
}

//@ id=C14 tier=quick timeout=600 bounds="concrete graph nodes 1,2, edge -3 = 1->2; element x in {1, 2, -3} (symbolic) offered to SearchImpl::process_index twice with different distances; BreadthFirstSearch and DepthFirstSearch iterators" desc="an element taken from the work list is examined and added to the result only the first time (visited set checked when the element is taken, so duplicates queued over parallel routes are dropped); the handler sees the distance of the first visit" kernel="SearchImpl::process_index,SearchImpl::visit_index,SearchImpl::process_unvisited_index,SearchImpl::take_result" args="--no-assertion-reach-checks" cbmc="--unwindset _RINvNtCs8xvirJzNMvV_4core3ptr9drop_glueNtNtNtCsblifWy3Zr35_4agdb2db8db_error7DbErrorEBH_:1"
#[kani::proof]
#[kani::stub(std::fmt::format, crate::verif_support::fmt_stub)]
#[kani::stub(crate::DbError::new, crate::verif_support::dberror_new_stub)]
#[kani::unwind(6)]
fn c14_visited_checked_on_pop() {
    let mut s = crate::storage::verif_h::fresh_arr_storage();
    let mut g = new_arr_graph();
    let mut m = RefGraph::with_limit(4);
    graph_step(&mut g, &mut s, &mut m, 0, 0, 0);
    graph_step(&mut g, &mut s, &mut m, 0, 0, 0);
    graph_step(&mut g, &mut s, &mut m, 1, 1, 2);
    let x: i64 = kani::any();
    kani::assume(x == 1 || x == 2 || x == -3);
    let mut h = C14Count { calls: 0, last: 0, last_distance: 0 };
    let mut bfs = SearchImpl::<ArrStorage, ArrGraph, BreadthFirstSearch>::new(&g, &s, GraphIndex(1));
    let go = ok(bfs.process_index(SearchIndex { index: GraphIndex(x), distance: 2 }, &mut h));
    assert!(go && h.calls == 1 && h.last == x && h.last_distance == 2, "first visit not examined");
    let go = ok(bfs.process_index(SearchIndex { index: GraphIndex(x), distance: 4 }, &mut h));
    assert!(go && h.calls == 1, "second visit examined again");
    let r = bfs.take_result();
    assert!(r.len() == 1 && r[0].0 == x, "element not exactly once in the result");
    std::mem::forget(r);
    let mut h = C14Count { calls: 0, last: 0, last_distance: 0 };
    let mut dfs = SearchImpl::<ArrStorage, ArrGraph, DepthFirstSearch>::new(&g, &s, GraphIndex(1));
    let go = ok(dfs.process_index(SearchIndex { index: GraphIndex(x), distance: 1 }, &mut h));
    assert!(go && h.calls == 1 && h.last_distance == 1, "first visit not examined (DFS)");
    let go = ok(dfs.process_index(SearchIndex { index: GraphIndex(x), distance: 3 }, &mut h));
    assert!(go && h.calls == 1, "second visit examined again (DFS)");
    let r = dfs.take_result();
    assert!(r.len() == 1 && r[0].0 == x, "element not exactly once in the result (DFS)");
    std::mem::forget(r);
    kani::cover!(x == -3, "edge");
    kani::cover!(true, "end of harness reachable");
    std::mem::forget(bfs);
    std::mem::forget(dfs);
    std::mem::forget(s);
}
