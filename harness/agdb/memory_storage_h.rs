// harnesses mounted as child module of agdb/src/storage/memory_storage.rs
#[allow(unused_imports)]
use super::*;
