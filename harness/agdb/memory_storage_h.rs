// harnesses mounted as child module of agdb/src/storage/memory_storage.rs
#[allow(unused_imports)]
use super::*;

use crate::storage::verif_h as sto_h;

// ===========================================================================
// C07 (storage part) on the real in-memory back end
// ===========================================================================
//
// `MemoryStorage::read` slices its Vec (`&self.buffer[pos..end]`, `pos + len`
// unchecked): any position or size that `Storage` derives from file content
// without checking it against the file length panics here. Same damaged files
// and oracle as the ArrStorage harnesses in storage_h.rs (see there for the
// construction and why it is not a fully symbolic file); the back end is the
// real `MemoryStorage`, so out-of-range reads are visible as failed checks.

pub(crate) fn c07_mem(img: &[u8; sto_h::C07_N], n: usize) -> MemoryStorage {
    // pushed byte by byte: a memcpy (`to_vec`) hides the header fields from
    // CBMC's constant propagation
    let mut buffer: Vec<u8> = Vec::with_capacity(sto_h::C07_N);
    // 9 x 8 nested so that a small unwind bound covers it
    let mut c = 0;
    while c < sto_h::C07_N / 8 {
        let mut k = 0;
        while k < 8 {
            let i = c * 8 + k;
            if i < n {
                buffer.push(img[i]);
            }
            k += 1;
        }
        c += 1;
    }
    MemoryStorage {
        buffer,
        name: String::new(),
    }
}

// NOT REGISTERED any more: the three `c07_mem_truncated_*` harnesses that called this
// (truncation points of the valid image over MemoryStorage) found the truncated-header /
// lenient-size-check defects on the original tree in 174 s; since those are repaired the
// open path returns errors instead of panicking, every path runs to the end, and the
// harnesses no longer finish within 20 minutes (table resize explored at every site).
// The same truncation points are still checked over ArrStorage (`c07_arr_truncated`), and
// MemoryStorage stays covered by `c07_mem_bad_version_size`, `c07_mem_bad_record_size`.
#[allow(dead_code)]
fn c07_mem_truncated_range(lo: usize, hi: usize) {
    let img = sto_h::c07_valid_image();
    // symbolic choice of the truncation point, one concrete run per point (a
    // panic at one length must not hide the others)
    let points: [usize; sto_h::C07_CUTS] = sto_h::C07_CUT_POINTS;
    let pick: usize = kani::any();
    kani::assume(lo <= pick && pick < hi && hi <= sto_h::C07_CUTS);
    let mut opened = false;
    let mut k = 0usize;
    while k < sto_h::C07_CUTS {
        if pick == k {
            opened = sto_h::c07_open_case(c07_mem(&img, points[k]), 1);
        }
        k += 1;
    }
    kani::cover!(hi < sto_h::C07_CUTS || (opened && pick == sto_h::C07_CUTS - 1), "the untruncated file opens");
    kani::cover!(true, "end of harness reachable");
}

fn c07_mem_field(field: usize) {
    let mut img = sto_h::c07_valid_image();
    let v: u64 = kani::any();
    kani::assume(v != 0); // 0 would only shift the walk onto the value bytes (covered by the truncation harness)
    sto_h::c07_put64(&mut img, field, v);
    let opened = sto_h::c07_open_case(c07_mem(&img, sto_h::C07_VALID_LEN), 3);
    kani::cover!(opened, "opens for some value of the field");
    kani::cover!(!opened, "rejected for some value of the field");
    kani::cover!(true, "end of harness reachable");
}

//@ id=C07 tier=quick timeout=900 cbmc="--max-field-sensitivity-array-size 200" args="--no-assertion-reach-checks" bounds="valid 65-byte image, value bytes symbolic, size field of the last record (1 byte remains in the file) replaced by 2, 17, 33, 34, 2^63, 2^64-1 (symbolic choice, concrete run each) or left at 1; back end MemoryStorage; partial-read window: all u64; free index = contract model" desc="Storage::<MemoryStorage>::with_data on a file whose last record has an arbitrary size field returns Ok or Err without panic or overflow; if it opens, every record of the table lies inside the file and every read entry point returns Ok or Err (no out-of-range slicing in MemoryStorage::read)" kernel="Storage::with_data,Storage::read_records,Storage::read_record,MemoryStorage::read,StorageRecords::set_record,Storage::value_size,Storage::value_as_bytes,Storage::value_as_bytes_at,Storage::value_as_bytes_at_size"
#[kani::proof]
#[kani::stub(std::fmt::format, crate::verif_support::fmt_stub)]
#[kani::stub(crate::DbError::new, crate::verif_support::dberror_new_stub)]
#[kani::stub(<crate::DbError as std::convert::From<std::array::TryFromSliceError>>::from, crate::verif_support::sliceerr_stub)]
#[kani::stub(crate::storage::storage_records::StorageRecords::mark_free, crate::storage::storage_records::verif_h::c04_mark_free_model)]
#[kani::unwind(10)]
fn c07_mem_bad_record_size() {
    let base = sto_h::c07_valid_image();
    let cases: [u64; 7] = [1, 2, 17, 33, 34, 1 << 63, u64::MAX];
    let pick: usize = kani::any();
    kani::assume(pick < 7);
    let mut opened = false;
    let mut k = 0usize;
    while k < 7 {
        if pick == k {
            let mut img = base;
            sto_h::c07_put64(&mut img, sto_h::C07_F_REC2_SIZE, cases[k]);
            opened = sto_h::c07_open_case(c07_mem(&img, sto_h::C07_VALID_LEN), 3);
        }
        k += 1;
    }
    kani::cover!(opened && pick == 0, "the undamaged file opens");
    kani::cover!(!opened && pick == 6, "a size of 2^64-1 is rejected");
    kani::cover!(true, "end of harness reachable");
}

//@ id=C07 tier=quick timeout=900 cbmc="--max-field-sensitivity-array-size 200" args="--no-assertion-reach-checks" bounds="valid 65-byte image, value bytes symbolic, size field of the version record replaced by a symbolic non-zero u64; back end MemoryStorage; read arguments: all u64; free index = contract model" desc="Storage::<MemoryStorage>::with_data on a file whose version record has an arbitrary size field returns Ok or Err without panic or overflow (extract_version reads `size` bytes at offset 16); if it opens, every record of the table lies inside the file and every read entry point returns Ok or Err" kernel="Storage::with_data,Storage::read_records,Storage::read_record,Storage::extract_version,MemoryStorage::read,Storage::value_size,Storage::value_as_bytes,Storage::value_as_bytes_at,Storage::value_as_bytes_at_size"
#[kani::proof]
#[kani::stub(std::fmt::format, crate::verif_support::fmt_stub)]
#[kani::stub(crate::DbError::new, crate::verif_support::dberror_new_stub)]
#[kani::stub(<crate::DbError as std::convert::From<std::array::TryFromSliceError>>::from, crate::verif_support::sliceerr_stub)]
#[kani::stub(crate::storage::storage_records::StorageRecords::mark_free, crate::storage::storage_records::verif_h::c04_mark_free_model)]
#[kani::unwind(10)]
fn c07_mem_bad_version_size() {
    c07_mem_field(sto_h::C07_F_VERSION_SIZE);
}

//@ id=C07 tier=quick timeout=900 cbmc="--max-field-sensitivity-array-size 200" args="--no-assertion-reach-checks" bounds="valid 65-byte image, value bytes symbolic, index field of the last record replaced by 6, 2^40, 2^62, 2^64-1 (enumerated: a symbolic index exhausts the solver memory); back end MemoryStorage; loops bounded by 9 iterations; free index = contract model" desc="Storage::<MemoryStorage>::with_data on a file whose last record carries an arbitrary index returns Ok or Err without panic, overflow, or work / allocation proportional to the index value (record table sized by a number read from the file)" kernel="Storage::with_data,Storage::read_records,Storage::read_record,StorageRecords::set_record,StorageRecords::rebuild_free_index"
#[kani::proof]
#[kani::stub(std::fmt::format, crate::verif_support::fmt_stub)]
#[kani::stub(crate::DbError::new, crate::verif_support::dberror_new_stub)]
#[kani::stub(<crate::DbError as std::convert::From<std::array::TryFromSliceError>>::from, crate::verif_support::sliceerr_stub)]
#[kani::stub(crate::storage::storage_records::StorageRecords::mark_free, crate::storage::storage_records::verif_h::c04_mark_free_model)]
#[kani::unwind(10)]
fn c07_mem_bad_record_index() {
    let base = sto_h::c07_valid_image();
    let cases: [u64; 4] = [6, 1 << 40, 1 << 62, u64::MAX];
    let mut k = 0;
    while k < 4 {
        let mut img = base;
        sto_h::c07_put64(&mut img, sto_h::C07_F_REC2_INDEX, cases[k]);
        sto_h::c07_open_case(c07_mem(&img, sto_h::C07_VALID_LEN), 3);
        k += 1;
    }
    kani::cover!(true, "end of harness reachable");
}
