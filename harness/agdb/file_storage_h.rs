// harnesses mounted as child module of agdb/src/storage/file_storage.rs
#[allow(unused_imports)]
use super::*;
