// harnesses mounted as child module of agdb/src/storage/file_storage.rs
//
// C01: log recovery restores the last committed storage content at every crash
// point. The real `FileStorage` and `WriteAheadLog` run over the model file
// system `crate::verif_fs`; the crash point is the symbolic `crash_at` (ordinal
// of the mutating file call before which the process dies), optionally with a
// torn prefix of that very call applied.
//
// The property is established by obligations that are each small enough for
// the solver; DESIGN.md §4 C01 gives the (paper) induction that composes them:
//   A  every storage call appends its complete undo record to the log before
//      it touches the data file; a crash inside the append leaves a prefix of
//      the record; applying the record to the data file as it is at ANY later
//      crash point of that call (before, torn, after the data write) gives
//      back the data file as it was before the call   (c01_write_*, c01_resize_*)
//   B  opening the log discards exactly a torn tail   (c01_repair_* in write_ahead_log_h.rs)
//   C  replay applies the records newest-first and clears the log,
//      `FileStorage::new` does so on open and reports the restored length,
//      Drop does so with an unfinished transaction   (c01_replay_*, c01_open_*, c01_drop_*)
//   D  flush (outermost commit) empties the log       (c01_flush_*)
//   E  end-to-end cross-checks with the real open path (thorough tier)
#[allow(unused_imports)]
use super::*;
use crate::verif_fs;
use crate::verif_support::ok;

const INIT_MAX: usize = 4;

/// Symbolic committed content: 0..=INIT_MAX symbolic bytes in the data file,
/// empty log. Returns (bytes padded with zeros to 8, len).
fn c01_init() -> ([u8; 8], usize) {
    let init: [u8; INIT_MAX] = kani::any();
    let n0: usize = kani::any();
    kani::assume(n0 <= INIT_MAX);
    verif_fs::reset(&init[..n0]);
    let mut d = [0u8; 8];
    if n0 > 0 {
        d[0] = init[0];
    }
    if n0 > 1 {
        d[1] = init[1];
    }
    if n0 > 2 {
        d[2] = init[2];
    }
    if n0 > 3 {
        d[3] = init[3];
    }
    (d, n0)
}

fn c01_arm_crash() {
    let at: u32 = kani::any();
    let torn: usize = kani::any();
    kani::assume(torn <= 8);
    verif_fs::arm_crash(at, torn);
}

/// live data file == (d, n): same length, same bytes below the length
fn c01_data_is(d: &[u8; 8], n: usize) -> bool {
    verif_fs::data_len() == n
        && (n <= 0 || verif_fs::data_byte(0) == d[0])
        && (n <= 1 || verif_fs::data_byte(1) == d[1])
        && (n <= 2 || verif_fs::data_byte(2) == d[2])
        && (n <= 3 || verif_fs::data_byte(3) == d[3])
        && (n <= 4 || verif_fs::data_byte(4) == d[4])
        && (n <= 5 || verif_fs::data_byte(5) == d[5])
        && (n <= 6 || verif_fs::data_byte(6) == d[6])
        && (n <= 7 || verif_fs::data_byte(7) == d[7])
}

fn c01_snap_data_is(d: &[u8; 8], n: usize) -> bool {
    verif_fs::snap_data_len() == n
        && (n <= 0 || verif_fs::snap_data_byte(0) == d[0])
        && (n <= 1 || verif_fs::snap_data_byte(1) == d[1])
        && (n <= 2 || verif_fs::snap_data_byte(2) == d[2])
        && (n <= 3 || verif_fs::snap_data_byte(3) == d[3])
        && (n <= 4 || verif_fs::snap_data_byte(4) == d[4])
        && (n <= 5 || verif_fs::snap_data_byte(5) == d[5])
        && (n <= 6 || verif_fs::snap_data_byte(6) == d[6])
        && (n <= 7 || verif_fs::snap_data_byte(7) == d[7])
}

fn c01_current_data() -> ([u8; 8], usize) {
    let mut c = [0u8; 8];
    c[0] = verif_fs::data_byte(0);
    c[1] = verif_fs::data_byte(1);
    c[2] = verif_fs::data_byte(2);
    c[3] = verif_fs::data_byte(3);
    c[4] = verif_fs::data_byte(4);
    c[5] = verif_fs::data_byte(5);
    c[6] = verif_fs::data_byte(6);
    c[7] = verif_fs::data_byte(7);
    (c, verif_fs::data_len())
}

/// the snapshot log is a prefix of the live log (the 24 bytes from `off` on
/// compared; the harness guarantees that the log was `off` bytes long, and
/// complete, before the call under test)
fn c01_snap_log_is_prefix_of_live(off: usize) -> bool {
    let sl = verif_fs::snap_log_len();
    if sl > verif_fs::log_len() || sl < off {
        return false;
    }
    let mut okk = true;
    macro_rules! cmp {
        ($($i:literal),*) => { $( if off + $i < sl && verif_fs::snap_log_byte(off + $i) != verif_fs::log_byte(off + $i) { okk = false; } )* };
    }
    cmp!(0, 1, 2, 3, 4, 5, 6, 7, 8, 9, 10, 11, 12, 13, 14, 15, 16, 17, 18, 19, 20, 21, 22, 23);
    okk
}

/// Reads the record at offset `off` of the live log (it must be the last one)
/// with the documented format (position u64 LE, length u64 LE, bytes) into a
/// real `WriteAheadLogRecord`.
fn c01_parse_last_record(off: usize) -> WriteAheadLogRecord {
    let pos = verif_fs::log_u64(off);
    let size = verif_fs::log_u64(off + 8);
    assert!(size <= 8, "C01: undo record longer than anything the call could have overwritten");
    assert!(verif_fs::log_len() as u64 == off as u64 + 16 + size, "C01: the call did not append exactly one complete record");
    let mut value: Vec<u8> = Vec::with_capacity(8);
    let n = size as usize;
    unsafe {
        let p = value.as_mut_ptr();
        if 0 < n {
            p.add(0).write(verif_fs::log_byte(off + 16));
        }
        if 1 < n {
            p.add(1).write(verif_fs::log_byte(off + 17));
        }
        if 2 < n {
            p.add(2).write(verif_fs::log_byte(off + 18));
        }
        if 3 < n {
            p.add(3).write(verif_fs::log_byte(off + 19));
        }
        if 4 < n {
            p.add(4).write(verif_fs::log_byte(off + 20));
        }
        if 5 < n {
            p.add(5).write(verif_fs::log_byte(off + 21));
        }
        if 6 < n {
            p.add(6).write(verif_fs::log_byte(off + 22));
        }
        if 7 < n {
            p.add(7).write(verif_fs::log_byte(off + 23));
        }
        value.set_len(n);
    }
    WriteAheadLogRecord { pos, value }
}

fn c01_open_data_file() -> File {
    match File::open("db") {
        Ok(f) => f,
        Err(e) => {
            std::mem::forget(e);
            panic!("model open failed")
        }
    }
}

/// Obligation A, shared tail: called after ONE storage call completed on a
/// storage whose log was empty, with a crash point armed before the call.
fn c01_check_undo_record(d0: &[u8; 8], n0: usize) {
    c01_check_undo_record_at(0, d0, n0)
}

/// Same, for a call made when the log already held `off` bytes of complete
/// records; (d0, n0) is the data file content before THIS call.
fn c01_check_undo_record_at(off: usize, d0: &[u8; 8], n0: usize) {
    if verif_fs::first_data_mutation_step() == u32::MAX {
        // the call did not touch the data file at all (e.g. an empty write):
        // then it must not have changed it, and whatever it logged is harmless
        assert!(c01_data_is(d0, n0), "C01: data file changed without a data-file call");
        if verif_fs::log_len() > off {
            let rec = c01_parse_last_record(off);
            let mut f = c01_open_data_file();
            ok(FileStorage::apply_wal_record(&mut f, rec));
            assert!(
                c01_data_is(d0, n0),
                "C01: the call changed nothing but logged a record that changes the file on recovery"
            );
        }
        return;
    }
    // A1: the undo record is complete before the data file is touched, and the
    //     log is not written again afterwards
    assert!(
        verif_fs::log_mutations_at_first_data_mutation() == verif_fs::log_mutations(),
        "C01: data file modified before the undo record was completely appended"
    );
    verif_fs::crash_now_if_not_crashed();
    let in_log = verif_fs::snap_step() < verif_fs::first_data_mutation_step();
    // A2: a crash leaves a prefix of the log as it would have been
    assert!(
        c01_snap_log_is_prefix_of_live(off),
        "C01: crash state of the log is not a prefix of the appended record"
    );
    if in_log {
        // crash inside the log append: data file untouched
        assert!(
            c01_snap_data_is(d0, n0),
            "C01: data file changed although the crash was inside the log append"
        );
        kani::cover!(
            verif_fs::snap_log_len() > off && verif_fs::snap_log_len() < verif_fs::log_len(),
            "crash left a partial record"
        );
    } else {
        assert!(
            verif_fs::snap_log_len() == verif_fs::log_len(),
            "C01: undo record incomplete at a crash point after the data file was touched"
        );
        // A3: applying the record (real apply_wal_record) to the data file as the
        //     crash left it gives back the content from before the call
        let rec = c01_parse_last_record(off);
        verif_fs::restore_snapshot();
        let mut f = c01_open_data_file();
        ok(FileStorage::apply_wal_record(&mut f, rec));
        assert!(
            c01_data_is(d0, n0),
            "C01: applying the undo record does not restore the content from before the call"
        );
    }
}

//@ id=C01 tier=quick timeout=900 bounds="committed content 0..=4 symbolic bytes; one write of 0..=3 symbolic bytes at pos<=len not straddling the end; crash before every mutating file call (torn prefix <= 8 bytes of it) or after the call" desc="write(): undo record appended completely before the data file is touched; a crash leaves a prefix of it; applying it (real apply_wal_record) at any later crash point restores content and length" kernel="FileStorage::write,FileStorage::apply_wal_record,WriteAheadLog::insert,FileStorage::new"
#[kani::proof]
#[kani::stub(std::fmt::format, crate::verif_support::fmt_stub)]
#[kani::stub(crate::DbError::new, crate::verif_support::dberror_new_stub)]
#[kani::stub(<crate::DbError as std::convert::From<std::io::Error>>::from, crate::verif_support::ioerr_stub)]
#[kani::stub(crate::storage::write_ahead_log::WriteAheadLog::wal_filename, crate::verif_support::wal_name_stub)]
#[kani::stub(std::vec::from_elem, crate::verif_support::from_elem_stub8)]
#[kani::unwind(2)]
fn c01_write_undo_record_inverts_at_every_crash_point() {
    let (d0, n0) = c01_init();
    let mut st = ok(FileStorage::new("db"));
    c01_arm_crash();
    let pos: u64 = kani::any();
    let n: usize = kani::any();
    let bytes: [u8; 3] = kani::any();
    kani::assume(n <= 3);
    let len = st.len();
    assert!(len == n0 as u64, "C01: FileStorage::len() differs from the file length after open");
    kani::assume(pos <= len);
    kani::assume(pos == len || pos + n as u64 <= len);
    ok(st.write(pos, &bytes[..n]));
    let want_len = std::cmp::max(len, pos + n as u64);
    assert!(st.len() == want_len, "C01: FileStorage::len() wrong after write");
    assert!(verif_fs::data_len() as u64 == want_len, "C01: data file length wrong after write");
    std::mem::forget(st);
    let inside = pos + (n as u64) <= len && n > 0;
    let append = pos == len && n > 0;
    let empty_mid = n == 0 && pos < len;
    c01_check_undo_record(&d0, n0);
    kani::cover!(inside, "write inside the file");
    kani::cover!(append, "append at the end");
    kani::cover!(empty_mid, "zero-length write in the middle");
    kani::cover!(true, "end of harness reachable");
}

//@ id=C01 tier=quick timeout=900 bounds="committed content 0..=4 symbolic bytes; one resize to any length <= len+3; crash before every mutating file call (torn prefix <= 8) or after the call" desc="resize(): undo record appended completely before the data file is truncated/extended; applying it (real apply_wal_record) at any later crash point restores content and length" kernel="FileStorage::resize,FileStorage::apply_wal_record,WriteAheadLog::insert"
#[kani::proof]
#[kani::stub(std::fmt::format, crate::verif_support::fmt_stub)]
#[kani::stub(crate::DbError::new, crate::verif_support::dberror_new_stub)]
#[kani::stub(<crate::DbError as std::convert::From<std::io::Error>>::from, crate::verif_support::ioerr_stub)]
#[kani::stub(crate::storage::write_ahead_log::WriteAheadLog::wal_filename, crate::verif_support::wal_name_stub)]
#[kani::stub(std::vec::from_elem, crate::verif_support::from_elem_stub8)]
#[kani::unwind(2)]
fn c01_resize_undo_record_inverts_at_every_crash_point() {
    let (d0, n0) = c01_init();
    let mut st = ok(FileStorage::new("db"));
    c01_arm_crash();
    let new_len: u64 = kani::any();
    kani::assume(new_len <= st.len() + 3);
    ok(st.resize(new_len));
    assert!(st.len() == new_len, "C01: FileStorage::len() wrong after resize");
    assert!(verif_fs::data_len() as u64 == new_len, "C01: data file length wrong after resize");
    // growth zero-fills (StorageData contract)
    assert!(
        new_len as usize <= n0 || verif_fs::data_byte(n0) == 0,
        "C01: resize growth not zero-filled"
    );
    std::mem::forget(st);
    let grow = new_len > n0 as u64;
    let shrink = new_len < n0 as u64;
    c01_check_undo_record(&d0, n0);
    kani::cover!(grow, "grow");
    kani::cover!(shrink, "shrink");
    kani::cover!(!grow && !shrink, "same length");
    kani::cover!(true, "end of harness reachable");
}

// ---------------------------------------------------------------------------
// Obligation C: replay order, open, drop. Records are appended with the real
// `WriteAheadLog::insert`; value lengths are concrete per scenario (keeps the
// heap objects concrete), positions and bytes are symbolic.
// ---------------------------------------------------------------------------

/// Reference semantics of one undo record on (d, n): empty value = truncate /
/// extend (zero-filled) to `pos`, otherwise overwrite at `pos` (extending,
/// zero-filled gap). Bytes of `d` at or beyond `n` are meaningless.
fn c01_ref_apply(d: &mut [u8; 8], n: &mut usize, pos: usize, v: &[u8; 2], vlen: usize) {
    macro_rules! zero_gap {
        ($($i:literal),*) => { $( if $i >= *n && $i < pos { d[$i] = 0; } )* };
    }
    zero_gap!(0, 1, 2, 3, 4, 5, 6, 7);
    if vlen == 0 {
        *n = pos;
    } else {
        d[pos] = v[0];
        if vlen > 1 {
            d[pos + 1] = v[1];
        }
        if pos + vlen > *n {
            *n = pos + vlen;
        }
    }
}

fn c01_replay_two(l1: usize, l2: usize, mode: u8) {
    let (d0, n0) = c01_init();
    let p1: u64 = kani::any();
    let p2: u64 = kani::any();
    let v1: [u8; 2] = kani::any();
    let v2: [u8; 2] = kani::any();
    // stay inside the model: positions at most one past the data that can exist
    kani::assume(p1 <= 5 && p2 <= 5);
    // mode 2: a storage opened on the committed content (empty log) whose
    // transaction then logs the two records through a second handle on the
    // same log file
    let st_for_drop = if mode == 2 { Some(ok(FileStorage::new("db"))) } else { None };
    {
        let mut wal = ok(crate::storage::write_ahead_log::WriteAheadLog::new("db"));
        ok(wal.insert(p1, &v1[..l1])); // older record
        ok(wal.insert(p2, &v2[..l2])); // newer record
        std::mem::forget(wal);
    }
    // expected: newest first
    let mut e = d0;
    let mut en = n0;
    c01_ref_apply(&mut e, &mut en, p2 as usize, &v2, l2);
    c01_ref_apply(&mut e, &mut en, p1 as usize, &v1, l1);
    if mode == 1 {
        let st = ok(FileStorage::new("db"));
        assert!(
            st.len() == en as u64,
            "C01: FileStorage::len() after open differs from the recovered file length"
        );
        std::mem::forget(st);
    } else if mode == 2 {
        // a storage with an unfinished transaction (its log holds the two
        // records) goes out of scope
        drop(st_for_drop);
    } else {
        let mut f = c01_open_data_file();
        let mut wal = ok(crate::storage::write_ahead_log::WriteAheadLog::new("db"));
        ok(FileStorage::apply_wal(&mut f, &mut wal));
        std::mem::forget(wal);
    }
    assert!(c01_data_is(&e, en), "C01: replay does not apply the undo records newest-first");
    assert!(verif_fs::log_len() == 0, "C01: log not cleared after replay");
    kani::cover!(p1 == p2 && v1[0] != v2[0], "same position logged twice");
    kani::cover!(true, "end of harness reachable");
}

//@ id=C01 tier=quick timeout=900 bounds="data 0..=4 symbolic bytes; log of TWO records appended by the real insert: value lengths (1,1), symbolic positions <= 5 and bytes" desc="apply_wal replays undo records newest-first (a region logged twice ends with the OLDEST bytes) and clears the log" kernel="FileStorage::apply_wal,FileStorage::apply_wal_record,WriteAheadLog::records,WriteAheadLog::read_record,WriteAheadLog::insert,WriteAheadLog::clear"
#[kani::proof]
#[kani::stub(std::fmt::format, crate::verif_support::fmt_stub)]
#[kani::stub(crate::DbError::new, crate::verif_support::dberror_new_stub)]
#[kani::stub(<crate::DbError as std::convert::From<std::io::Error>>::from, crate::verif_support::ioerr_stub)]
#[kani::stub(crate::storage::write_ahead_log::WriteAheadLog::wal_filename, crate::verif_support::wal_name_stub)]
#[kani::stub(std::vec::from_elem, crate::verif_support::from_elem_stub8)]
#[kani::unwind(4)]
fn c01_replay_newest_first_write_write() {
    c01_replay_two(1, 1, 0);
}

//@ id=C01 tier=quick timeout=900 bounds="data 0..=4 symbolic bytes; log of TWO records: older = truncate-to-position (empty value), newer = 2 bytes; symbolic positions <= 5" desc="apply_wal newest-first: a write into a region appended earlier in the same transaction does not grow the file back" kernel="FileStorage::apply_wal,FileStorage::apply_wal_record,WriteAheadLog::records"
#[kani::proof]
#[kani::stub(std::fmt::format, crate::verif_support::fmt_stub)]
#[kani::stub(crate::DbError::new, crate::verif_support::dberror_new_stub)]
#[kani::stub(<crate::DbError as std::convert::From<std::io::Error>>::from, crate::verif_support::ioerr_stub)]
#[kani::stub(crate::storage::write_ahead_log::WriteAheadLog::wal_filename, crate::verif_support::wal_name_stub)]
#[kani::stub(std::vec::from_elem, crate::verif_support::from_elem_stub8)]
#[kani::unwind(4)]
fn c01_replay_newest_first_truncate_then_write() {
    c01_replay_two(0, 2, 0);
}

//@ id=C01 tier=quick timeout=900 bounds="data 0..=4 symbolic bytes; log of TWO records: older = 2 bytes, newer = truncate-to-position; symbolic positions <= 5" desc="apply_wal newest-first with a truncate record as the newest one" kernel="FileStorage::apply_wal,FileStorage::apply_wal_record,WriteAheadLog::records"
#[kani::proof]
#[kani::stub(std::fmt::format, crate::verif_support::fmt_stub)]
#[kani::stub(crate::DbError::new, crate::verif_support::dberror_new_stub)]
#[kani::stub(<crate::DbError as std::convert::From<std::io::Error>>::from, crate::verif_support::ioerr_stub)]
#[kani::stub(crate::storage::write_ahead_log::WriteAheadLog::wal_filename, crate::verif_support::wal_name_stub)]
#[kani::stub(std::vec::from_elem, crate::verif_support::from_elem_stub8)]
#[kani::unwind(4)]
fn c01_replay_newest_first_write_then_truncate() {
    c01_replay_two(2, 0, 0);
}

//@ id=C01 tier=quick timeout=900 bounds="data 0..=4 symbolic bytes; log of TWO records (1 byte, 2 bytes), symbolic positions <= 5" desc="FileStorage::new replays the log on open (newest-first), clears it and reports the recovered length" kernel="FileStorage::new,FileStorage::apply_wal,WriteAheadLog::new,WriteAheadLog::repair,WriteAheadLog::records"
#[kani::proof]
#[kani::stub(std::fmt::format, crate::verif_support::fmt_stub)]
#[kani::stub(crate::DbError::new, crate::verif_support::dberror_new_stub)]
#[kani::stub(<crate::DbError as std::convert::From<std::io::Error>>::from, crate::verif_support::ioerr_stub)]
#[kani::stub(crate::storage::write_ahead_log::WriteAheadLog::wal_filename, crate::verif_support::wal_name_stub)]
#[kani::stub(std::vec::from_elem, crate::verif_support::from_elem_stub8)]
#[kani::unwind(4)]
fn c01_open_replays_log() {
    c01_replay_two(1, 2, 1);
}

//@ id=C01 tier=quick timeout=900 mem=24 bounds="data 0..=4 symbolic bytes; a FileStorage whose log holds TWO undo records (2 bytes, 1 byte; symbolic positions <= 5) is dropped" desc="dropping the storage with an unfinished transaction replays the log (newest-first) and clears it" kernel="Drop for FileStorage,FileStorage::apply_wal,FileStorage::flush"
#[kani::proof]
#[kani::stub(std::fmt::format, crate::verif_support::fmt_stub)]
#[kani::stub(crate::DbError::new, crate::verif_support::dberror_new_stub)]
#[kani::stub(<crate::DbError as std::convert::From<std::io::Error>>::from, crate::verif_support::ioerr_stub)]
#[kani::stub(crate::storage::write_ahead_log::WriteAheadLog::wal_filename, crate::verif_support::wal_name_stub)]
#[kani::stub(std::vec::from_elem, crate::verif_support::from_elem_stub8)]
#[kani::unwind(4)]
fn c01_drop_rolls_back() {
    c01_replay_two(2, 1, 2);
}

//@ id=C01 tier=quick timeout=900 bounds="committed content 0..=4 symbolic bytes; one write (0..=3 bytes) or resize, then flush" desc="flush (outermost commit) empties the log and leaves the data file as written" kernel="FileStorage::flush,WriteAheadLog::clear"
#[kani::proof]
#[kani::stub(std::fmt::format, crate::verif_support::fmt_stub)]
#[kani::stub(crate::DbError::new, crate::verif_support::dberror_new_stub)]
#[kani::stub(<crate::DbError as std::convert::From<std::io::Error>>::from, crate::verif_support::ioerr_stub)]
#[kani::stub(crate::storage::write_ahead_log::WriteAheadLog::wal_filename, crate::verif_support::wal_name_stub)]
#[kani::stub(std::vec::from_elem, crate::verif_support::from_elem_stub8)]
#[kani::unwind(2)]
fn c01_flush_commits() {
    let (_d0, _n0) = c01_init();
    let mut st = ok(FileStorage::new("db"));
    let kind: bool = kani::any();
    if kind {
        let pos: u64 = kani::any();
        let n: usize = kani::any();
        let bytes: [u8; 3] = kani::any();
        kani::assume(n <= 3);
        let len = st.len();
        kani::assume(pos <= len);
        kani::assume(pos == len || pos + n as u64 <= len);
        ok(st.write(pos, &bytes[..n]));
    } else {
        let new_len: u64 = kani::any();
        kani::assume(new_len <= st.len() + 3);
        ok(st.resize(new_len));
    }
    let (c, cn) = c01_current_data();
    ok(st.flush());
    assert!(verif_fs::log_len() == 0, "C01: log not empty after the outermost commit");
    assert!(c01_data_is(&c, cn), "C01: flush changed the data file");
    assert!(st.len() == cn as u64, "C01: FileStorage::len() differs from the data file length");
    std::mem::forget(st);
    kani::cover!(kind, "write then flush");
    kani::cover!(!kind, "resize then flush");
    kani::cover!(true, "end of harness reachable");
}

//@ id=C01 tier=quick timeout=600 bounds="data 0..=4 symbolic bytes, empty log" desc="opening a storage whose log is empty (the state after a commit) leaves the data file untouched and reports its length" kernel="FileStorage::new,WriteAheadLog::new,FileStorage::apply_wal"
#[kani::proof]
#[kani::stub(std::fmt::format, crate::verif_support::fmt_stub)]
#[kani::stub(crate::DbError::new, crate::verif_support::dberror_new_stub)]
#[kani::stub(<crate::DbError as std::convert::From<std::io::Error>>::from, crate::verif_support::ioerr_stub)]
#[kani::stub(crate::storage::write_ahead_log::WriteAheadLog::wal_filename, crate::verif_support::wal_name_stub)]
#[kani::stub(std::vec::from_elem, crate::verif_support::from_elem_stub8)]
#[kani::unwind(2)]
fn c01_open_with_empty_log_keeps_content() {
    let (d0, n0) = c01_init();
    let st = ok(FileStorage::new("db"));
    assert!(c01_data_is(&d0, n0), "C01: opening with an empty log changed the data file");
    assert!(st.len() == n0 as u64, "C01: FileStorage::len() after open differs from the file length");
    assert!(verif_fs::log_len() == 0, "C01: log not empty after open");
    std::mem::forget(st);
    kani::cover!(n0 == 4, "four bytes");
    kani::cover!(true, "end of harness reachable");
}

/// First call of a transaction (no crash point): a write of exactly two
/// symbolic bytes inside the file, or a shrink by one byte. Returns nothing;
/// the caller reads the resulting state from the model.
fn c01_first_call(st: &mut FileStorage, shrink: bool) {
    if shrink {
        let l = st.len();
        kani::assume(l >= 1);
        ok(st.resize(l - 1));
    } else {
        let pos: u64 = kani::any();
        let b: [u8; 2] = kani::any();
        kani::assume(st.len() >= 2 && pos <= st.len() - 2);
        ok(st.write(pos, &b));
    }
}

fn c01_second_call_scenario(first_is_shrink: bool) {
    let (_d0, _n0) = c01_init();
    let mut st = ok(FileStorage::new("db"));
    c01_first_call(&mut st, first_is_shrink);
    // state before the call under test
    let (d1, n1) = c01_current_data();
    let off = verif_fs::log_len();
    kani::assume(off <= 24);
    c01_arm_crash();
    let kind: bool = kani::any();
    if kind {
        let pos: u64 = kani::any();
        let n: usize = kani::any();
        let bytes: [u8; 3] = kani::any();
        kani::assume(n <= 3);
        let len = st.len();
        kani::assume(pos <= len);
        kani::assume(pos == len || pos + n as u64 <= len);
        ok(st.write(pos, &bytes[..n]));
    } else {
        let new_len: u64 = kani::any();
        kani::assume(new_len <= st.len() + 2);
        ok(st.resize(new_len));
    }
    std::mem::forget(st);
    c01_check_undo_record_at(off, &d1, n1);
    kani::cover!(kind, "second call is a write");
    kani::cover!(!kind, "second call is a resize");
    kani::cover!(true, "end of harness reachable");
}

//@ id=C01 tier=quick timeout=1500 mem=16 bounds="committed content 0..=4 symbolic bytes; first call = write of 2 symbolic bytes inside the file; SECOND call (under test) = write of 0..=3 bytes or resize to <= len+2, with every crash point (torn <= 8)" desc="the undo record of a call does not depend on what the transaction logged before: applying the record of the SECOND call restores the content from before that call (overlapping and re-written regions included)" kernel="FileStorage::write,FileStorage::resize,FileStorage::apply_wal_record,WriteAheadLog::insert"
#[kani::proof]
#[kani::stub(std::fmt::format, crate::verif_support::fmt_stub)]
#[kani::stub(crate::DbError::new, crate::verif_support::dberror_new_stub)]
#[kani::stub(<crate::DbError as std::convert::From<std::io::Error>>::from, crate::verif_support::ioerr_stub)]
#[kani::stub(crate::storage::write_ahead_log::WriteAheadLog::wal_filename, crate::verif_support::wal_name_stub)]
#[kani::stub(std::vec::from_elem, crate::verif_support::from_elem_stub8)]
#[kani::unwind(2)]
fn c01_second_call_after_write_undo_record_inverts() {
    c01_second_call_scenario(false);
}

//@ id=C01 tier=quick timeout=1500 mem=16 bounds="as above, first call = shrink by one byte" desc="the undo record of a call made after a shrink restores the content from before that call (shrink then grow, shrink then write)" kernel="FileStorage::write,FileStorage::resize,FileStorage::apply_wal_record,WriteAheadLog::insert"
#[kani::proof]
#[kani::stub(std::fmt::format, crate::verif_support::fmt_stub)]
#[kani::stub(crate::DbError::new, crate::verif_support::dberror_new_stub)]
#[kani::stub(<crate::DbError as std::convert::From<std::io::Error>>::from, crate::verif_support::ioerr_stub)]
#[kani::stub(crate::storage::write_ahead_log::WriteAheadLog::wal_filename, crate::verif_support::wal_name_stub)]
#[kani::stub(std::vec::from_elem, crate::verif_support::from_elem_stub8)]
#[kani::unwind(2)]
fn c01_second_call_after_shrink_undo_record_inverts() {
    c01_second_call_scenario(true);
}
