// harnesses mounted as child module of agdb/src/storage.rs
#[allow(unused_imports)]
use super::*;

use crate::verif_support::{ArrStorage, ok};

/// Builds a `Storage` directly (skips `read_records`): version record only.
pub(crate) fn raw_storage<D: StorageData>(data: D) -> Storage<D> {
    Storage {
        data,
        records: StorageRecords::new(),
        transactions: 0,
        version: CURRENT_VERSION,
    }
}

pub(crate) fn data_of<D: StorageData>(s: &Storage<D>) -> &D {
    &s.data
}

pub(crate) fn data_of_mut<D: StorageData>(s: &mut Storage<D>) -> &mut D {
    &mut s.data
}

/// Array-backed storage that already contains the version record (what
/// `Storage::new` produces on an empty back end).
pub(crate) fn fresh_arr_storage() -> Storage<ArrStorage> {
    let mut b = [0u8; 24];
    b[8] = 8;
    b[16] = 1;
    raw_storage(ArrStorage::from_slice(&b))
}

//@ id=C04 tier=quick timeout=600 bounds="one value of 0..=3 symbolic bytes into an empty storage" desc="smoke: insert then read back the same bytes" kernel="Storage::insert_bytes,Storage::value_as_bytes"
#[kani::proof]
#[kani::stub(std::fmt::format, crate::verif_support::fmt_stub)]
#[kani::stub(crate::DbError::new, crate::verif_support::dberror_new_stub)]
#[kani::unwind(6)]
fn c04_smoke_insert_read() {
    let mut s = fresh_arr_storage();
    let n: usize = kani::any();
    kani::assume(n <= 3);
    let data: [u8; 3] = kani::any();
    let idx = ok(s.insert_bytes(&data[..n]));
    let back = ok(s.value_as_bytes(idx));
    assert!(back.len() == n, "length differs");
    let mut i = 0;
    while i < n {
        assert!(back[i] == data[i], "byte differs");
        i += 1;
    }
    kani::cover!(n == 3, "three bytes");
    kani::cover!(true, "end of harness reachable");
    std::mem::forget(back);
    std::mem::forget(s);
}
