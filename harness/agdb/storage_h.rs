// harnesses mounted as child module of agdb/src/storage.rs
#[allow(unused_imports)]
use super::*;

use crate::verif_support::{ArrStorage, ok};

/// Builds a `Storage` directly (skips `read_records`): version record only.
pub(crate) fn raw_storage<D: StorageData>(data: D) -> Storage<D> {
    Storage {
        data,
        records: StorageRecords::new(),
        transactions: 0,
        version: CURRENT_VERSION,
    }
}

pub(crate) fn data_of<D: StorageData>(s: &Storage<D>) -> &D {
    &s.data
}

pub(crate) fn data_of_mut<D: StorageData>(s: &mut Storage<D>) -> &mut D {
    &mut s.data
}

/// Array-backed storage that already contains the version record (what
/// `Storage::new` produces on an empty back end).
pub(crate) fn fresh_arr_storage() -> Storage<ArrStorage> {
    let mut b = [0u8; 24];
    b[8] = 8;
    b[16] = 1;
    raw_storage(ArrStorage::from_slice(&b))
}

//@ id=C04 tier=quick timeout=600 bounds="one value of 0..=3 symbolic bytes into an empty storage" desc="smoke: insert then read back the same bytes" kernel="Storage::insert_bytes,Storage::value_as_bytes"
#[kani::proof]
#[kani::stub(std::fmt::format, crate::verif_support::fmt_stub)]
#[kani::stub(crate::DbError::new, crate::verif_support::dberror_new_stub)]
#[kani::unwind(6)]
fn c04_smoke_insert_read() {
    let mut s = fresh_arr_storage();
    let n: usize = kani::any();
    kani::assume(n <= 3);
    let data: [u8; 3] = kani::any();
    let idx = ok(s.insert_bytes(&data[..n]));
    let back = ok(s.value_as_bytes(idx));
    assert!(back.len() == n, "length differs");
    let mut i = 0;
    while i < n {
        assert!(back[i] == data[i], "byte differs");
        i += 1;
    }
    kani::cover!(n == 3, "three bytes");
    kani::cover!(true, "end of harness reachable");
    std::mem::forget(back);
    std::mem::forget(s);
}

// ===========================================================================
// C04 -- history harnesses over Storage<ArrStorage>
// ===========================================================================
//
// Oracle: `C04Model`, a reference model in plain arrays (per storage index:
// live flag, size, bytes), written from the property text:
//   insert          new index (never one that is live), reads back the bytes
//   insert_bytes_at bytes [off, off+n) overwritten, value grows (zero filled gap) if needed
//   replace         value == bytes
//   resize          prefix kept, growth zero filled
//   move_at         bytes [from, from+n) copied to [to, to+n), source bytes not covered by the
//                   destination become 0, value grows if needed
//   remove          index no longer readable
//   optimize        nothing changes, file length == 24 + sum(16 + size), no free region
//   reopen          nothing changes (values, free regions), next insert gets a non-live index
// After EVERY step (`c04_check_all`): every live index reads back its model
// bytes, every dead index returns Err, the file is exactly tiled by the version
// record, the records of the live indexes and the free regions (headers and
// value bytes checked on the raw bytes, regions pairwise disjoint, lengths add
// up to the file length), free_size == sum of free regions, and no write
// started beyond the end of the file or straddled it (`ArrStorage::bad_write`,
// the H-pre obligation of DESIGN.md).
//
// Two measured limits of CBMC shape these harnesses (details in the report):
//  * the two BTree indexes of `StorageRecords` cannot be executed (10 GB
//    exhausted by ONE `free_size_pos.entry(s).or_default().insert(p)`), so the
//    six functions touching them are replaced by the contract model in
//    storage_records_h.rs; all of `Storage` and the record-table half of
//    `StorageRecords` are the real code;
//  * a symbolic value size makes every `StorageData::write` a memcpy of
//    symbolic length to a symbolic offset: one such `insert_bytes` after a
//    5-operation prefix exhausts 10 GB. Sizes, offsets and targets are therefore
//    enumerated (boundary values of every split / no-split decision: x-1, x,
//    x+1 around the 16-byte header), each run with concrete layout; the stored
//    bytes, the partial-read window and the compared byte positions are symbolic.
// `alloc::slice::stable_sort` (behind `sort_by_key` in `records()`) is replaced
// by an insertion sort (std's small-sort networks did not finish in symex).
// All harnesses need `--max-field-sensitivity-array-size 200` (registry key
// cbmc=): without it the 192-byte buffer is not constant-propagated and a
// 5-operation concrete prefix alone takes 108 s instead of 6 s.

use crate::storage::storage_records::verif_h as rec_h;
use crate::verif_support::ARR_CAP;

pub(crate) const C04_NV: usize = 6; // storage indexes 1..=6 are modelled
pub(crate) const C04_MAXV: usize = 48; // largest modelled value
pub(crate) const C04_MAXP: usize = 33; // largest payload of one operation

pub(crate) const C04_INSERT: u8 = 0;
pub(crate) const C04_WRITE_AT: u8 = 1;
pub(crate) const C04_REPLACE: u8 = 2;
pub(crate) const C04_RESIZE: u8 = 3;
pub(crate) const C04_MOVE: u8 = 4;
pub(crate) const C04_REMOVE: u8 = 5;
pub(crate) const C04_OPTIMIZE: u8 = 6;

#[derive(Clone, Copy)]
pub(crate) struct C04Model {
    live: [bool; C04_NV + 1],
    size: [usize; C04_NV + 1],
    bytes: [[u8; C04_MAXV]; C04_NV + 1],
}

impl C04Model {
    fn new() -> Self {
        Self {
            live: [false; C04_NV + 1],
            size: [0; C04_NV + 1],
            bytes: [[0; C04_MAXV]; C04_NV + 1],
        }
    }

    fn live_count(&self) -> usize {
        let mut n = 0;
        let mut i = 1;
        while i <= C04_NV {
            if self.live[i] {
                n += 1;
            }
            i += 1;
        }
        n
    }

    fn total(&self) -> usize {
        let mut n = 0;
        let mut i = 1;
        while i <= C04_NV {
            if self.live[i] {
                n += 16 + self.size[i];
            }
            i += 1;
        }
        n
    }

    // invariant: bytes[t][i] == 0 for i >= size[t]
    // (bulk slice operations instead of loops: memcpy / memset need no unwinding)
    fn insert(&mut self, t: usize, n: usize, p: &[u8; C04_MAXP]) {
        self.live[t] = true;
        self.size[t] = n;
        self.bytes[t] = [0; C04_MAXV];
        self.bytes[t][..n].copy_from_slice(&p[..n]);
    }

    fn write_at(&mut self, t: usize, off: usize, n: usize, p: &[u8; C04_MAXP]) {
        self.bytes[t][off..off + n].copy_from_slice(&p[..n]);
        if off + n > self.size[t] {
            self.size[t] = off + n;
        }
    }

    fn resize(&mut self, t: usize, n: usize) {
        self.bytes[t][n..].fill(0);
        self.size[t] = n;
    }

    fn move_at(&mut self, t: usize, from: usize, to: usize, n: usize) {
        let old = self.bytes[t];
        self.bytes[t][from..from + n].fill(0);
        self.bytes[t][to..to + n].copy_from_slice(&old[from..from + n]);
        if to + n > self.size[t] {
            self.size[t] = to + n;
        }
    }
}

fn c04_expect_err<T>(r: Result<T, DbError>, msg: &'static str) {
    match r {
        Ok(v) => {
            std::mem::forget(v);
            panic!("{}", msg);
        }
        Err(e) => std::mem::forget(e),
    }
}

/// Every live index reads back its model bytes; every dead index is unreadable.
fn c04_check_values<D: StorageData>(s: &Storage<D>, m: &C04Model) {
    let mut idx = 1usize;
    while idx <= C04_NV {
        let si = StorageIndex(idx as u64);
        let live = m.live[idx];
        match s.value_as_bytes(si) {
            Ok(v) => {
                assert!(live, "removed / never created index is readable");
                assert!(v.len() == m.size[idx], "value length differs from the model");
                let j: usize = kani::any();
                if j < v.len() && j < C04_MAXV {
                    assert!(v[j] == m.bytes[idx][j], "value byte differs from the model");
                }
                std::mem::forget(v);
            }
            Err(e) => {
                std::mem::forget(e);
                assert!(!live, "value_as_bytes fails on a live index");
            }
        }
        idx += 1;
    }
    // index 0 heads the free-index list and marks free records: never a value
    c04_expect_err(s.value_size(StorageIndex(0)), "index 0 is readable");
}

/// Partial reads: `value_as_bytes_at_size(idx, off, n)` is Ok with the model
/// bytes iff idx is live and off + n <= size; `value_size` agrees with the model.
fn c04_check_partial_read<D: StorageData>(s: &Storage<D>, m: &C04Model) {
    let idx: usize = kani::any();
    kani::assume(idx <= C04_NV);
    let off: usize = kani::any();
    let n: usize = kani::any();
    kani::assume(off <= C04_MAXV + 1 && n <= C04_MAXV + 1);
    match s.value_size(StorageIndex(idx as u64)) {
        Ok(sz) => assert!(m.live[idx] && sz == m.size[idx] as u64, "value_size differs from the model"),
        Err(e) => {
            std::mem::forget(e);
            assert!(!m.live[idx], "value_size fails on a live index");
        }
    }
    let r = s.value_as_bytes_at_size(StorageIndex(idx as u64), off as u64, n as u64);
    let expect_ok = m.live[idx] && off + n <= m.size[idx];
    match r {
        Ok(v) => {
            assert!(expect_ok, "partial read succeeds outside the value / on a dead index");
            assert!(v.len() == n, "partial read has the wrong length");
            let j: usize = kani::any();
            if j < n {
                assert!(v[j] == m.bytes[idx][off + j], "partial read byte differs from the model");
            }
            std::mem::forget(v);
        }
        Err(e) => {
            std::mem::forget(e);
            assert!(!expect_ok, "partial read inside a live value fails");
        }
    }
}

fn c04_rd64(buf: &[u8; ARR_CAP], p: usize) -> u64 {
    u64::from_le_bytes([
        buf[p],
        buf[p + 1],
        buf[p + 2],
        buf[p + 3],
        buf[p + 4],
        buf[p + 5],
        buf[p + 6],
        buf[p + 7],
    ])
}

/// The file is exactly tiled by the version record, the records of the live
/// indexes and the regions of the free index: every such region lies inside
/// the file, carries the right header (and value bytes) on disk, the regions
/// are pairwise disjoint and their lengths add up to the file length. (This is
/// what a reader that walks the headers from offset 24 -- `read_records` --
/// relies on.)
fn c04_check_disk(s: &Storage<ArrStorage>, m: &C04Model) {
    const NR: usize = C04_NV + rec_h::C04_FCAP;
    let len = s.data.len;
    let buf = &s.data.buf;
    assert!(!s.data.bad_write, "a write started beyond the end of the file or straddled it");
    assert!(len >= 24 && len <= ARR_CAP, "version record missing");
    assert!(
        c04_rd64(buf, 0) == 0 && c04_rd64(buf, 8) == 8 && c04_rd64(buf, 16) == CURRENT_VERSION,
        "version record damaged"
    );
    let fm = rec_h::c04_fm();
    let mut rpos = [0usize; NR];
    let mut rend = [0usize; NR];
    let mut n = 0usize;
    let mut sum = 24usize;
    let mut free_sum = 0u64;
    let mut i = 1;
    while i <= C04_NV {
        if m.live[i] {
            let r = ok(s.records.record(i as u64));
            assert!(r.index == i as u64, "record table slot holds another index");
            assert!(r.size == m.size[i] as u64, "record table size differs from the model");
            assert!(r.pos >= 24 && r.pos + 16 + r.size <= len as u64, "record outside the file");
            let p = r.pos as usize;
            assert!(c04_rd64(buf, p) == i as u64, "record header on disk has the wrong index");
            assert!(c04_rd64(buf, p + 8) == r.size, "record header on disk has the wrong size");
            let j: usize = kani::any();
            if j < m.size[i] && j < C04_MAXV {
                assert!(buf[p + 16 + j] == m.bytes[i][j], "value byte on disk differs from the model");
            }
            rpos[n] = p;
            rend[n] = p + 16 + m.size[i];
            sum += 16 + m.size[i];
            n += 1;
        }
        i += 1;
    }
    let mut k = 0;
    while k < rec_h::C04_FCAP {
        if k < fm.n {
            assert!(
                fm.pos[k] >= 24 && fm.pos[k] + 16 + fm.size[k] <= len as u64,
                "free region outside the file"
            );
            let p = fm.pos[k] as usize;
            assert!(c04_rd64(buf, p) == 0, "free region has no free-record header on disk");
            assert!(c04_rd64(buf, p + 8) == fm.size[k], "free-record header on disk has the wrong size");
            rpos[n] = p;
            rend[n] = p + 16 + fm.size[k] as usize;
            sum += 16 + fm.size[k] as usize;
            free_sum += fm.size[k];
            n += 1;
        }
        k += 1;
    }
    assert!(sum == len, "records and free regions do not add up to the file length");
    let mut x = 0;
    while x < NR {
        let mut y = x + 1;
        while y < NR {
            if y < n {
                assert!(rend[x] <= rpos[y] || rend[y] <= rpos[x], "two records / free regions overlap");
            }
            y += 1;
        }
        x += 1;
    }
    assert!(free_sum == s.records.free_size(), "free_size is not the sum of the free regions");
}

fn c04_check_all(s: &Storage<ArrStorage>, m: &C04Model) {
    c04_check_values(s, m);
    c04_check_disk(s, m);
}

/// Observable effect of one step (for `kani::cover!` in the harnesses).
#[derive(Clone, Copy)]
pub(crate) struct C04Fx {
    pub ok: bool,
    pub t: usize,
    pub len0: usize,
    pub len1: usize,
    pub fc0: usize,
    pub fc1: usize,
    pub fs0: u64,
    pub fs1: u64,
    pub pos0: u64,
    pub pos1: u64,
}

impl C04Fx {
    fn same_place(&self) -> bool {
        self.ok && self.pos0 == self.pos1 && self.len0 == self.len1
    }
    fn moved_to_end(&self) -> bool {
        self.ok && self.pos1 == self.len0 as u64 && self.pos0 != self.pos1
    }
    fn moved_into_free(&self) -> bool {
        self.ok && self.pos1 != self.pos0 && self.pos1 < self.len0 as u64 && self.len1 == self.len0
    }
}

fn c04_pos_of(s: &Storage<ArrStorage>, t: usize) -> u64 {
    match s.records.record(t as u64) {
        Ok(r) => r.pos,
        Err(e) => {
            std::mem::forget(e);
            u64::MAX
        }
    }
}

/// One operation on the real storage, mirrored on the model, followed by the
/// full check. Target and sizes are concrete in the caller; the payload bytes
/// are symbolic.
fn c04_step(
    s: &mut Storage<ArrStorage>,
    m: &mut C04Model,
    op: u8,
    t: usize,
    a: usize,
    b: usize,
    c: usize,
) -> C04Fx {
    let payload: [u8; C04_MAXP] = kani::any();
    let live = m.live[t];
    let mut fx = C04Fx {
        ok: false,
        t,
        len0: s.data.len,
        len1: 0,
        fc0: rec_h::c04_fm().n,
        fc1: 0,
        fs0: s.records.free_size(),
        fs1: 0,
        pos0: c04_pos_of(s, t),
        pos1: 0,
    };
    // bound: the file stays within the array of ArrStorage (an operation grows
    // the file by at most one record header + the new size of its target)
    let old = if live { m.size[t] } else { 0 };
    let grown = if op == C04_INSERT || op == C04_RESIZE {
        a
    } else if op == C04_WRITE_AT {
        std::cmp::max(old, a + b)
    } else if op == C04_REPLACE {
        std::cmp::max(old, a)
    } else if op == C04_MOVE {
        std::cmp::max(old, b + c)
    } else {
        0
    };
    assert!(grown <= C04_MAXV, "harness bound: value larger than the model");
    if op == C04_INSERT {
        let idx = ok(s.insert_bytes(&payload[..a])).0 as usize;
        assert!(idx >= 1 && idx <= C04_NV, "insert returned an index outside the modelled range");
        assert!(!m.live[idx], "insert returned an index that is still live");
        m.insert(idx, a, &payload);
        fx.t = idx;
        fx.ok = true;
    } else if op == C04_WRITE_AT {
        let r = s.insert_bytes_at(StorageIndex(t as u64), a as u64, &payload[..b]);
        if live {
            ok(r);
            m.write_at(t, a, b, &payload);
            fx.ok = true;
        } else {
            c04_expect_err(r, "insert_bytes_at on a dead index succeeded");
        }
    } else if op == C04_REPLACE {
        let r = s.replace_with_bytes(StorageIndex(t as u64), &payload[..a]);
        if live {
            ok(r);
            m.write_at(t, 0, a, &payload);
            m.resize(t, a);
            fx.ok = true;
        } else {
            c04_expect_err(r, "replace_with_bytes on a dead index succeeded");
        }
    } else if op == C04_RESIZE {
        let r = s.resize_value(StorageIndex(t as u64), a as u64);
        if live {
            ok(r);
            m.resize(t, a);
            fx.ok = true;
        } else {
            c04_expect_err(r, "resize_value on a dead index succeeded");
        }
    } else if op == C04_MOVE {
        let r = s.move_at(StorageIndex(t as u64), a as u64, b as u64, c as u64);
        if live && a + c <= m.size[t] {
            ok(r);
            m.move_at(t, a, b, c);
            fx.ok = true;
        } else {
            c04_expect_err(r, "move_at from outside the value / on a dead index succeeded");
        }
    } else if op == C04_REMOVE {
        let r = s.remove(StorageIndex(t as u64));
        if live {
            ok(r);
            m.live[t] = false;
            fx.ok = true;
        } else {
            c04_expect_err(r, "remove of a dead index succeeded");
        }
    } else {
        ok(s.optimize_storage());
        assert!(s.data.len == 24 + m.total(), "file holds unused space after optimize_storage");
        assert!(rec_h::c04_fm().n == 0, "free regions left after optimize_storage");
        fx.ok = true;
    }
    fx.len1 = s.data.len;
    fx.fc1 = rec_h::c04_fm().n;
    fx.fs1 = s.records.free_size();
    fx.pos1 = c04_pos_of(s, fx.t);
    c04_check_all(s, m);
    fx
}

/// Inserts `n` symbolic bytes (prefix construction).
fn c04_put(s: &mut Storage<ArrStorage>, m: &mut C04Model, n: usize) -> usize {
    let payload: [u8; C04_MAXP] = kani::any();
    let idx = ok(s.insert_bytes(&payload[..n])).0 as usize;
    assert!(idx >= 1 && idx <= C04_NV && !m.live[idx], "prefix insert returned a bad index");
    m.insert(idx, n, &payload);
    idx
}

fn c04_del(s: &mut Storage<ArrStorage>, m: &mut C04Model, t: usize) {
    ok(s.remove(StorageIndex(t as u64)));
    m.live[t] = false;
}

/// Reopens the storage from a copy of its bytes (`Storage::with_data`, i.e.
/// `read_records`, `set_record`, `rebuild_free_index`) and checks that the
/// reopened storage shows the same values, the same free regions, and hands
/// out a non-live index on the next insert.
fn c04_reopen_check(s: &Storage<ArrStorage>, m: &C04Model) {
    let mut m = *m;
    let fm = rec_h::c04_fm();
    let saved_n = fm.n;
    let saved_pos = fm.pos;
    let saved_size = fm.size;
    let saved_total = fm.total;
    fm.reset();
    let copy = ArrStorage {
        buf: s.data.buf,
        len: s.data.len,
        flushes: 0,
        calls: 0,
        fail_at: u32::MAX,
        bad_write: false,
        fail_flushes: 0,
        failed_flushes: 0,
    };
    let mut s2 = ok(Storage::<ArrStorage>::with_data(copy));
    assert!(s2.data.calls == 0, "reopening a current-version file wrote to it");
    assert!(s2.version == CURRENT_VERSION, "version lost on reopen");
    let fm = rec_h::c04_fm();
    assert!(fm.n == saved_n, "reopen found a different number of free regions");
    let mut i = 0;
    while i < rec_h::C04_FCAP {
        if i < saved_n {
            assert!(fm.has(saved_pos[i], saved_size[i]), "free region lost on reopen");
        }
        i += 1;
    }
    c04_check_all(&s2, &m);
    // the reopened storage is usable: the free-index list was rebuilt
    if m.live_count() < C04_NV && s2.data.len + 16 + 1 <= ARR_CAP {
        let payload: [u8; C04_MAXP] = kani::any();
        let idx = ok(s2.insert_bytes(&payload[..1])).0 as usize;
        assert!(idx >= 1 && idx <= C04_NV, "insert after reopen returned an index outside the table");
        assert!(!m.live[idx], "insert after reopen returned a live index");
        m.insert(idx, 1, &payload);
        c04_check_all(&s2, &m);
    }
    std::mem::forget(s2);
    let fm = rec_h::c04_fm();
    fm.n = saved_n;
    fm.pos = saved_pos;
    fm.size = saved_size;
    fm.total = saved_total;
}

/// Final phase required by the property: defragment, no unused space, all
/// values intact (whole and partial reads).
fn c04_finale(s: &mut Storage<ArrStorage>, m: &mut C04Model) {
    ok(s.optimize_storage());
    assert!(s.data.len == 24 + m.total(), "file holds unused space after optimize_storage");
    assert!(rec_h::c04_fm().n == 0, "free regions left after optimize_storage");
    c04_check_all(s, m);
    c04_check_partial_read(s, m);
}

/// Builds a storage state directly: file image (headers, symbolic value bytes,
/// symbolic garbage inside free regions) + record table through the real
/// `set_record` / `rebuild_free_index`, i.e. the state `Storage::with_data`
/// reconstructs from that image. Building it through `insert_bytes` / `remove`
/// costs ~25 s of symex per scenario; `c04_check_all` on the built state (first
/// thing `c04_step`'s callers may run) validates that image, table, free index
/// and model agree, and the harnesses `c04_hist_from_empty`,
/// `c04_hist_index_reuse`, `c04_reopen_*` connect such states to real histories.
/// `layout[i] = (index, size)`, index 0 = free region.
fn c04_build(layout: &[(u64, usize)]) -> (Storage<ArrStorage>, C04Model) {
    rec_h::c04_fm().reset();
    let mut s = fresh_arr_storage();
    // one up-front reallocation of the record table: after a realloc (memcpy)
    // CBMC no longer constant-propagates the table slots and explores the
    // "index is valid" branch of every lookup both ways
    rec_h::c04_reserve_table(&mut s.records, 8);
    let mut m = C04Model::new();
    let mut pos = 24usize;
    let mut i = 0;
    while i < layout.len() {
        let (index, size) = layout[i];
        let payload: [u8; C04_MAXP] = kani::any();
        s.data.buf[pos..pos + 8].copy_from_slice(&index.to_le_bytes());
        s.data.buf[pos + 8..pos + 16].copy_from_slice(&(size as u64).to_le_bytes());
        s.data.buf[pos + 16..pos + 16 + size].copy_from_slice(&payload[..size]);
        if index != 0 {
            m.insert(index as usize, size, &payload);
        }
        s.records.set_record(StorageRecord {
            index,
            pos: pos as u64,
            size: size as u64,
        });
        pos += 16 + size;
        i += 1;
    }
    s.data.len = pos;
    s.records.rebuild_free_index();
    (s, m)
}

/// Prefix 0: empty storage.
/// Prefix 1: [A:8][free 33][C:8][D:1]            indexes A=1 C=3 D=4 (2 free), len 138
/// Prefix 2: [A:0][free 16][C:8][free 17][E:1]   indexes A=1 C=3 E=5 (2, 4 free), len 146
/// Prefix 3: [A:16][B:8]                         len 80
/// Prefix 4: [A:33][B:1]                         len 90
/// Prefix 5: [A:8][B:16][C:8][D:17][E:1]         len 154
/// Prefix 6: [free 8][A:1]                       len 65
fn c04_prefix(kind: u8) -> (Storage<ArrStorage>, C04Model) {
    if kind == 1 {
        c04_build(&[(1, 8), (0, 33), (3, 8), (4, 1)])
    } else if kind == 2 {
        c04_build(&[(1, 0), (0, 16), (3, 8), (0, 17), (5, 1)])
    } else if kind == 3 {
        c04_build(&[(1, 16), (2, 8)])
    } else if kind == 4 {
        c04_build(&[(1, 33), (2, 1)])
    } else if kind == 5 {
        c04_build(&[(1, 8), (2, 16), (3, 8), (4, 17), (5, 1)])
    } else if kind == 6 {
        c04_build(&[(0, 8), (1, 1)])
    } else {
        c04_build(&[])
    }
}

/// Runs `op(t, a, b, c)` + the final phase on a freshly built prefix state.
fn c04_scenario(prefix: u8, op: u8, t: usize, a: usize, b: usize, c: usize) -> C04Fx {
    let (mut w, mut m) = c04_prefix(prefix);
    let fx = c04_step(&mut w, &mut m, op, t, a, b, c);
    c04_finale(&mut w, &mut m);
    std::mem::forget(w);
    fx
}

/// Replaces `alloc::slice::stable_sort` (what `sort_by_key` calls; std's
/// driftsort / small-sort networks explode in symex) by a plain insertion sort
/// on the same slice: same result for any input (stable). Part of the claim of
/// every harness that reaches `StorageRecords::records()`.
pub(crate) fn c04_stable_sort_stub<T, F: FnMut(&T, &T) -> bool>(v: &mut [T], mut is_less: F) {
    let n = v.len();
    let mut i = 1;
    while i < n {
        let mut j = i;
        while j > 0 && is_less(&v[j], &v[j - 1]) {
            v.swap(j, j - 1);
            j -= 1;
        }
        i += 1;
    }
}

//@ id=C04 tier=quick timeout=1200 cbmc="--max-field-sensitivity-array-size 200" args="--no-assertion-reach-checks" bounds="prefix [A:8][free 33][C:8][D:1]; insert of 33 bytes, insert of 17 bytes; stored bytes, partial-read window, compared byte positions symbolic; free index = contract model" desc="insert into a free region: exact fit (index of the removed value reused) and split that leaves an empty free record: values read back, dead indexes unreadable, file tiled by records and free regions, no out-of-file write; then optimize_storage: no unused space, values intact" kernel="Storage::insert_bytes,Storage::append,Storage::write_record,Storage::free_a_region,Storage::optimize_storage,Storage::shrink_index,Storage::truncate,Storage::value_as_bytes,Storage::value_as_bytes_at_size,Storage::value_size,StorageRecords::new_record,StorageRecords::remove_index,StorageRecords::records,StorageRecords::record,StorageRecords::set_pos,StorageRecords::set_size"
#[kani::proof]
#[kani::stub(std::fmt::format, crate::verif_support::fmt_stub)]
#[kani::stub(crate::DbError::new, crate::verif_support::dberror_new_stub)]
#[kani::stub(crate::storage::storage_records::StorageRecords::take_free, crate::storage::storage_records::verif_h::c04_take_free_model)]
#[kani::stub(crate::storage::storage_records::StorageRecords::take_free_after, crate::storage::storage_records::verif_h::c04_take_free_after_model)]
#[kani::stub(crate::storage::storage_records::StorageRecords::mark_free_compact, crate::storage::storage_records::verif_h::c04_mark_free_compact_model)]
#[kani::stub(crate::storage::storage_records::StorageRecords::mark_free, crate::storage::storage_records::verif_h::c04_mark_free_model)]
#[kani::stub(crate::storage::storage_records::StorageRecords::clear_free, crate::storage::storage_records::verif_h::c04_clear_free_model)]
#[kani::stub(crate::storage::storage_records::StorageRecords::free_size, crate::storage::storage_records::verif_h::c04_free_size_model)]
#[kani::stub(alloc::slice::stable_sort, c04_stable_sort_stub)]
#[kani::unwind(50)]
fn c04_hist_insert_exact() {
    let f1 = c04_scenario(1, C04_INSERT, 1, 33, 0, 0);
    let f2 = c04_scenario(1, C04_INSERT, 1, 17, 0, 0);
    kani::cover!(f1.fc1 == 0 && f1.len1 == f1.len0 && f1.t == 2, "exact fit, removed index reused");
    kani::cover!(f2.fc1 == 1 && f2.fs1 == 0 && f2.len1 == f2.len0, "split, remainder is an empty free record");
    kani::cover!(true, "end of harness reachable");
}

//@ id=C04 tier=quick timeout=1200 cbmc="--max-field-sensitivity-array-size 200" args="--no-assertion-reach-checks" bounds="prefix [A:8][free 33][C:8][D:1]; insert of 16 bytes, insert of 0 bytes; stored bytes, partial-read window, compared byte positions symbolic; free index = contract model" desc="insert into a free region with a remainder of 1 byte / of an empty value: values read back, dead indexes unreadable, file tiled by records and free regions, no out-of-file write; then optimize_storage: no unused space, values intact" kernel="Storage::insert_bytes,Storage::append,Storage::write_record,Storage::free_a_region,Storage::optimize_storage,Storage::shrink_index,Storage::truncate,Storage::value_as_bytes,Storage::value_as_bytes_at_size,Storage::value_size,StorageRecords::new_record,StorageRecords::remove_index,StorageRecords::records,StorageRecords::record,StorageRecords::set_pos,StorageRecords::set_size"
#[kani::proof]
#[kani::stub(std::fmt::format, crate::verif_support::fmt_stub)]
#[kani::stub(crate::DbError::new, crate::verif_support::dberror_new_stub)]
#[kani::stub(crate::storage::storage_records::StorageRecords::take_free, crate::storage::storage_records::verif_h::c04_take_free_model)]
#[kani::stub(crate::storage::storage_records::StorageRecords::take_free_after, crate::storage::storage_records::verif_h::c04_take_free_after_model)]
#[kani::stub(crate::storage::storage_records::StorageRecords::mark_free_compact, crate::storage::storage_records::verif_h::c04_mark_free_compact_model)]
#[kani::stub(crate::storage::storage_records::StorageRecords::mark_free, crate::storage::storage_records::verif_h::c04_mark_free_model)]
#[kani::stub(crate::storage::storage_records::StorageRecords::clear_free, crate::storage::storage_records::verif_h::c04_clear_free_model)]
#[kani::stub(crate::storage::storage_records::StorageRecords::free_size, crate::storage::storage_records::verif_h::c04_free_size_model)]
#[kani::stub(alloc::slice::stable_sort, c04_stable_sort_stub)]
#[kani::unwind(50)]
fn c04_hist_insert_split() {
    let f1 = c04_scenario(1, C04_INSERT, 1, 16, 0, 0);
    let f2 = c04_scenario(1, C04_INSERT, 1, 0, 0, 0);
    kani::cover!(f1.fc1 == 1 && f1.fs1 == 1 && f1.len1 == f1.len0, "split, remainder of 1 byte");
    kani::cover!(f2.len1 == f2.len0 && f2.fs1 == 17, "empty value placed in the free region");
    kani::cover!(true, "end of harness reachable");
}

//@ id=C04 tier=quick timeout=1200 cbmc="--max-field-sensitivity-array-size 200" args="--no-assertion-reach-checks" bounds="prefix [A:8][free 33][C:8][D:1] / [A:0][free 16][C:8][free 17][E:1]; insert of 32 bytes into the first, insert of 1 byte into the second; stored bytes, partial-read window, compared byte positions symbolic; free index = contract model" desc="insert that misses a split by one byte is appended; among two free regions the one that fits is used: values read back, dead indexes unreadable, file tiled by records and free regions, no out-of-file write; then optimize_storage: no unused space, values intact" kernel="Storage::insert_bytes,Storage::append,Storage::write_record,Storage::free_a_region,Storage::optimize_storage,Storage::shrink_index,Storage::truncate,Storage::value_as_bytes,Storage::value_as_bytes_at_size,Storage::value_size,StorageRecords::new_record,StorageRecords::remove_index,StorageRecords::records,StorageRecords::record,StorageRecords::set_pos,StorageRecords::set_size"
#[kani::proof]
#[kani::stub(std::fmt::format, crate::verif_support::fmt_stub)]
#[kani::stub(crate::DbError::new, crate::verif_support::dberror_new_stub)]
#[kani::stub(crate::storage::storage_records::StorageRecords::take_free, crate::storage::storage_records::verif_h::c04_take_free_model)]
#[kani::stub(crate::storage::storage_records::StorageRecords::take_free_after, crate::storage::storage_records::verif_h::c04_take_free_after_model)]
#[kani::stub(crate::storage::storage_records::StorageRecords::mark_free_compact, crate::storage::storage_records::verif_h::c04_mark_free_compact_model)]
#[kani::stub(crate::storage::storage_records::StorageRecords::mark_free, crate::storage::storage_records::verif_h::c04_mark_free_model)]
#[kani::stub(crate::storage::storage_records::StorageRecords::clear_free, crate::storage::storage_records::verif_h::c04_clear_free_model)]
#[kani::stub(crate::storage::storage_records::StorageRecords::free_size, crate::storage::storage_records::verif_h::c04_free_size_model)]
#[kani::stub(alloc::slice::stable_sort, c04_stable_sort_stub)]
#[kani::unwind(50)]
fn c04_hist_insert_append() {
    let f1 = c04_scenario(1, C04_INSERT, 1, 32, 0, 0);
    let f2 = c04_scenario(2, C04_INSERT, 1, 1, 0, 0);
    kani::cover!(f1.len1 == f1.len0 + 48 && f1.fc1 == 1, "no fit: appended");
    kani::cover!(f2.len1 == f2.len0 && f2.fc1 == 2 && f2.pos1 == 96, "17-byte region chosen over the 16-byte one");
    kani::cover!(true, "end of harness reachable");
}

//@ id=C04 tier=quick timeout=1200 cbmc="--max-field-sensitivity-array-size 200" args="--no-assertion-reach-checks" bounds="prefix [A:0][free 16][C:8][free 17][E:1]; resize C (8 bytes, followed by the 17-byte free region) to 25, to 41; stored bytes, partial-read window, compared byte positions symbolic; free index = contract model" desc="growing into the following free region: remainder becomes an empty free record / region consumed completely; grown bytes are zero: values read back, dead indexes unreadable, file tiled by records and free regions, no out-of-file write; then optimize_storage: no unused space, values intact" kernel="Storage::resize_value,Storage::enlarge_value,Storage::enlarge_in_place,Storage::enlarge_move_to,Storage::enlarge_at_end,Storage::move_to_end,Storage::update_record,Storage::write_record,Storage::free_a_region,Storage::optimize_storage,Storage::shrink_index,Storage::truncate,Storage::value_as_bytes,Storage::value_as_bytes_at_size,Storage::value_size,StorageRecords::new_record,StorageRecords::remove_index,StorageRecords::records,StorageRecords::record,StorageRecords::set_pos,StorageRecords::set_size"
#[kani::proof]
#[kani::stub(std::fmt::format, crate::verif_support::fmt_stub)]
#[kani::stub(crate::DbError::new, crate::verif_support::dberror_new_stub)]
#[kani::stub(crate::storage::storage_records::StorageRecords::take_free, crate::storage::storage_records::verif_h::c04_take_free_model)]
#[kani::stub(crate::storage::storage_records::StorageRecords::take_free_after, crate::storage::storage_records::verif_h::c04_take_free_after_model)]
#[kani::stub(crate::storage::storage_records::StorageRecords::mark_free_compact, crate::storage::storage_records::verif_h::c04_mark_free_compact_model)]
#[kani::stub(crate::storage::storage_records::StorageRecords::mark_free, crate::storage::storage_records::verif_h::c04_mark_free_model)]
#[kani::stub(crate::storage::storage_records::StorageRecords::clear_free, crate::storage::storage_records::verif_h::c04_clear_free_model)]
#[kani::stub(crate::storage::storage_records::StorageRecords::free_size, crate::storage::storage_records::verif_h::c04_free_size_model)]
#[kani::stub(alloc::slice::stable_sort, c04_stable_sort_stub)]
#[kani::unwind(50)]
fn c04_hist_grow_inplace_a() {
    let f1 = c04_scenario(2, C04_RESIZE, 3, 25, 0, 0);
    let f2 = c04_scenario(2, C04_RESIZE, 3, 41, 0, 0);
    kani::cover!(f1.same_place() && f1.fc1 == 2 && f1.fs1 == 16, "in place, remainder is an empty free record");
    kani::cover!(f2.same_place() && f2.fc1 == 1, "in place, free region consumed completely");
    kani::cover!(true, "end of harness reachable");
}

//@ id=C04 tier=quick timeout=1200 cbmc="--max-field-sensitivity-array-size 200" args="--no-assertion-reach-checks" bounds="prefix [A:0][free 16][C:8][free 17][E:1]; resize C to 24, to 26; stored bytes, partial-read window, compared byte positions symbolic; free index = contract model" desc="growing into the following free region with 1 byte left free; 1 byte too much: moved to the end, vacated place merged with both free neighbours; grown bytes are zero: values read back, dead indexes unreadable, file tiled by records and free regions, no out-of-file write; then optimize_storage: no unused space, values intact" kernel="Storage::resize_value,Storage::enlarge_value,Storage::enlarge_in_place,Storage::enlarge_move_to,Storage::enlarge_at_end,Storage::move_to_end,Storage::update_record,Storage::write_record,Storage::free_a_region,Storage::optimize_storage,Storage::shrink_index,Storage::truncate,Storage::value_as_bytes,Storage::value_as_bytes_at_size,Storage::value_size,StorageRecords::new_record,StorageRecords::remove_index,StorageRecords::records,StorageRecords::record,StorageRecords::set_pos,StorageRecords::set_size"
#[kani::proof]
#[kani::stub(std::fmt::format, crate::verif_support::fmt_stub)]
#[kani::stub(crate::DbError::new, crate::verif_support::dberror_new_stub)]
#[kani::stub(crate::storage::storage_records::StorageRecords::take_free, crate::storage::storage_records::verif_h::c04_take_free_model)]
#[kani::stub(crate::storage::storage_records::StorageRecords::take_free_after, crate::storage::storage_records::verif_h::c04_take_free_after_model)]
#[kani::stub(crate::storage::storage_records::StorageRecords::mark_free_compact, crate::storage::storage_records::verif_h::c04_mark_free_compact_model)]
#[kani::stub(crate::storage::storage_records::StorageRecords::mark_free, crate::storage::storage_records::verif_h::c04_mark_free_model)]
#[kani::stub(crate::storage::storage_records::StorageRecords::clear_free, crate::storage::storage_records::verif_h::c04_clear_free_model)]
#[kani::stub(crate::storage::storage_records::StorageRecords::free_size, crate::storage::storage_records::verif_h::c04_free_size_model)]
#[kani::stub(alloc::slice::stable_sort, c04_stable_sort_stub)]
#[kani::unwind(50)]
fn c04_hist_grow_inplace_b() {
    let f1 = c04_scenario(2, C04_RESIZE, 3, 24, 0, 0);
    let f2 = c04_scenario(2, C04_RESIZE, 3, 26, 0, 0);
    kani::cover!(f1.same_place() && f1.fc1 == 2 && f1.fs1 == 17, "in place, 1 byte remains free");
    kani::cover!(f2.moved_to_end() && f2.fc1 == 1, "moved to the end, old place merged with both neighbours");
    kani::cover!(true, "end of harness reachable");
}

//@ id=C04 tier=quick timeout=1200 cbmc="--max-field-sensitivity-array-size 200" args="--no-assertion-reach-checks" bounds="prefix [A:8][free 33][C:8][D:1]; resize C (8 bytes, between the free region and D) to 33, to 17; stored bytes, partial-read window, compared byte positions symbolic; free index = contract model" desc="growing a value that cannot grow in place: moved into the free region, exact fit / split whose remainder merges with the vacated place; grown bytes are zero: values read back, dead indexes unreadable, file tiled by records and free regions, no out-of-file write; then optimize_storage: no unused space, values intact" kernel="Storage::resize_value,Storage::enlarge_value,Storage::enlarge_in_place,Storage::enlarge_move_to,Storage::enlarge_at_end,Storage::move_to_end,Storage::update_record,Storage::write_record,Storage::free_a_region,Storage::optimize_storage,Storage::shrink_index,Storage::truncate,Storage::value_as_bytes,Storage::value_as_bytes_at_size,Storage::value_size,StorageRecords::new_record,StorageRecords::remove_index,StorageRecords::records,StorageRecords::record,StorageRecords::set_pos,StorageRecords::set_size"
#[kani::proof]
#[kani::stub(std::fmt::format, crate::verif_support::fmt_stub)]
#[kani::stub(crate::DbError::new, crate::verif_support::dberror_new_stub)]
#[kani::stub(crate::storage::storage_records::StorageRecords::take_free, crate::storage::storage_records::verif_h::c04_take_free_model)]
#[kani::stub(crate::storage::storage_records::StorageRecords::take_free_after, crate::storage::storage_records::verif_h::c04_take_free_after_model)]
#[kani::stub(crate::storage::storage_records::StorageRecords::mark_free_compact, crate::storage::storage_records::verif_h::c04_mark_free_compact_model)]
#[kani::stub(crate::storage::storage_records::StorageRecords::mark_free, crate::storage::storage_records::verif_h::c04_mark_free_model)]
#[kani::stub(crate::storage::storage_records::StorageRecords::clear_free, crate::storage::storage_records::verif_h::c04_clear_free_model)]
#[kani::stub(crate::storage::storage_records::StorageRecords::free_size, crate::storage::storage_records::verif_h::c04_free_size_model)]
#[kani::stub(alloc::slice::stable_sort, c04_stable_sort_stub)]
#[kani::unwind(50)]
fn c04_hist_grow_relocate_a() {
    let f1 = c04_scenario(1, C04_RESIZE, 3, 33, 0, 0);
    let f2 = c04_scenario(1, C04_RESIZE, 3, 17, 0, 0);
    kani::cover!(f1.moved_into_free() && f1.fc1 == 1 && f1.fs1 == 8, "moved into the free region, exact fit");
    kani::cover!(f2.moved_into_free() && f2.fc1 == 1 && f2.fs1 == 24, "moved into the free region, remainder merged with the vacated place");
    kani::cover!(true, "end of harness reachable");
}

//@ id=C04 tier=quick timeout=1200 cbmc="--max-field-sensitivity-array-size 200" args="--no-assertion-reach-checks" bounds="prefix [A:8][free 33][C:8][D:1]; resize C to 32, resize D (at end) to 17; stored bytes, partial-read window, compared byte positions symbolic; free index = contract model" desc="growing: moved to the end (vacated place merges with the free region before it); grown at the end of the file; grown bytes are zero: values read back, dead indexes unreadable, file tiled by records and free regions, no out-of-file write; then optimize_storage: no unused space, values intact" kernel="Storage::resize_value,Storage::enlarge_value,Storage::enlarge_in_place,Storage::enlarge_move_to,Storage::enlarge_at_end,Storage::move_to_end,Storage::update_record,Storage::write_record,Storage::free_a_region,Storage::optimize_storage,Storage::shrink_index,Storage::truncate,Storage::value_as_bytes,Storage::value_as_bytes_at_size,Storage::value_size,StorageRecords::new_record,StorageRecords::remove_index,StorageRecords::records,StorageRecords::record,StorageRecords::set_pos,StorageRecords::set_size"
#[kani::proof]
#[kani::stub(std::fmt::format, crate::verif_support::fmt_stub)]
#[kani::stub(crate::DbError::new, crate::verif_support::dberror_new_stub)]
#[kani::stub(crate::storage::storage_records::StorageRecords::take_free, crate::storage::storage_records::verif_h::c04_take_free_model)]
#[kani::stub(crate::storage::storage_records::StorageRecords::take_free_after, crate::storage::storage_records::verif_h::c04_take_free_after_model)]
#[kani::stub(crate::storage::storage_records::StorageRecords::mark_free_compact, crate::storage::storage_records::verif_h::c04_mark_free_compact_model)]
#[kani::stub(crate::storage::storage_records::StorageRecords::mark_free, crate::storage::storage_records::verif_h::c04_mark_free_model)]
#[kani::stub(crate::storage::storage_records::StorageRecords::clear_free, crate::storage::storage_records::verif_h::c04_clear_free_model)]
#[kani::stub(crate::storage::storage_records::StorageRecords::free_size, crate::storage::storage_records::verif_h::c04_free_size_model)]
#[kani::stub(alloc::slice::stable_sort, c04_stable_sort_stub)]
#[kani::unwind(50)]
fn c04_hist_grow_relocate_b() {
    let f1 = c04_scenario(1, C04_RESIZE, 3, 32, 0, 0);
    let f2 = c04_scenario(1, C04_RESIZE, 4, 17, 0, 0);
    kani::cover!(f1.moved_to_end() && f1.fc1 == 1 && f1.fs1 == 57, "moved to the end, vacated place merged with the previous free region");
    kani::cover!(f2.pos0 == f2.pos1 && f2.len1 == f2.len0 + 16, "grown at the end of the file");
    kani::cover!(true, "end of harness reachable");
}

//@ id=C04 tier=quick timeout=1200 cbmc="--max-field-sensitivity-array-size 200" args="--no-assertion-reach-checks" bounds="prefix [A:33][B:1]; resize A (33 bytes) to 16, to 17; stored bytes, partial-read window, compared byte positions symbolic; free index = contract model" desc="shrinking: freed tail of 17 / 16 bytes becomes a free record of 1 byte / an empty free record; kept prefix intact: values read back, dead indexes unreadable, file tiled by records and free regions, no out-of-file write; then optimize_storage: no unused space, values intact" kernel="Storage::resize_value,Storage::shrink_value,Storage::move_to_end,Storage::update_record,Storage::write_record,Storage::free_a_region,Storage::optimize_storage,Storage::shrink_index,Storage::truncate,Storage::value_as_bytes,Storage::value_as_bytes_at_size,Storage::value_size,StorageRecords::new_record,StorageRecords::remove_index,StorageRecords::records,StorageRecords::record,StorageRecords::set_pos,StorageRecords::set_size"
#[kani::proof]
#[kani::stub(std::fmt::format, crate::verif_support::fmt_stub)]
#[kani::stub(crate::DbError::new, crate::verif_support::dberror_new_stub)]
#[kani::stub(crate::storage::storage_records::StorageRecords::take_free, crate::storage::storage_records::verif_h::c04_take_free_model)]
#[kani::stub(crate::storage::storage_records::StorageRecords::take_free_after, crate::storage::storage_records::verif_h::c04_take_free_after_model)]
#[kani::stub(crate::storage::storage_records::StorageRecords::mark_free_compact, crate::storage::storage_records::verif_h::c04_mark_free_compact_model)]
#[kani::stub(crate::storage::storage_records::StorageRecords::mark_free, crate::storage::storage_records::verif_h::c04_mark_free_model)]
#[kani::stub(crate::storage::storage_records::StorageRecords::clear_free, crate::storage::storage_records::verif_h::c04_clear_free_model)]
#[kani::stub(crate::storage::storage_records::StorageRecords::free_size, crate::storage::storage_records::verif_h::c04_free_size_model)]
#[kani::stub(alloc::slice::stable_sort, c04_stable_sort_stub)]
#[kani::unwind(50)]
fn c04_hist_shrink_a() {
    let f1 = c04_scenario(4, C04_RESIZE, 1, 16, 0, 0);
    let f2 = c04_scenario(4, C04_RESIZE, 1, 17, 0, 0);
    kani::cover!(f1.same_place() && f1.fc1 == 1 && f1.fs1 == 1, "tail of 17 bytes freed in place");
    kani::cover!(f2.same_place() && f2.fc1 == 1 && f2.fs1 == 0, "tail of 16 bytes becomes an empty free record");
    kani::cover!(true, "end of harness reachable");
}

//@ id=C04 tier=quick timeout=1200 cbmc="--max-field-sensitivity-array-size 200" args="--no-assertion-reach-checks" bounds="prefix [A:33][B:1] / [A:8][free 33][C:8][D:1]; resize A (33 bytes) to 18; resize D (1 byte, at end) to 0; stored bytes, partial-read window, compared byte positions symbolic; free index = contract model" desc="shrinking: a tail of 15 bytes cannot hold a header so the value moves to the end; at the end of the file the file is truncated; kept prefix intact: values read back, dead indexes unreadable, file tiled by records and free regions, no out-of-file write; then optimize_storage: no unused space, values intact" kernel="Storage::resize_value,Storage::shrink_value,Storage::move_to_end,Storage::update_record,Storage::write_record,Storage::free_a_region,Storage::optimize_storage,Storage::shrink_index,Storage::truncate,Storage::value_as_bytes,Storage::value_as_bytes_at_size,Storage::value_size,StorageRecords::new_record,StorageRecords::remove_index,StorageRecords::records,StorageRecords::record,StorageRecords::set_pos,StorageRecords::set_size"
#[kani::proof]
#[kani::stub(std::fmt::format, crate::verif_support::fmt_stub)]
#[kani::stub(crate::DbError::new, crate::verif_support::dberror_new_stub)]
#[kani::stub(crate::storage::storage_records::StorageRecords::take_free, crate::storage::storage_records::verif_h::c04_take_free_model)]
#[kani::stub(crate::storage::storage_records::StorageRecords::take_free_after, crate::storage::storage_records::verif_h::c04_take_free_after_model)]
#[kani::stub(crate::storage::storage_records::StorageRecords::mark_free_compact, crate::storage::storage_records::verif_h::c04_mark_free_compact_model)]
#[kani::stub(crate::storage::storage_records::StorageRecords::mark_free, crate::storage::storage_records::verif_h::c04_mark_free_model)]
#[kani::stub(crate::storage::storage_records::StorageRecords::clear_free, crate::storage::storage_records::verif_h::c04_clear_free_model)]
#[kani::stub(crate::storage::storage_records::StorageRecords::free_size, crate::storage::storage_records::verif_h::c04_free_size_model)]
#[kani::stub(alloc::slice::stable_sort, c04_stable_sort_stub)]
#[kani::unwind(50)]
fn c04_hist_shrink_b() {
    let f1 = c04_scenario(4, C04_RESIZE, 1, 18, 0, 0);
    let f2 = c04_scenario(1, C04_RESIZE, 4, 0, 0, 0);
    kani::cover!(f1.moved_to_end() && f1.fc1 == 1 && f1.fs1 == 33, "tail of 15 bytes: moved to the end");
    kani::cover!(f2.pos0 == f2.pos1 && f2.len1 + 1 == f2.len0, "shrunk at the end: file truncated");
    kani::cover!(true, "end of harness reachable");
}

//@ id=C04 tier=quick timeout=1200 cbmc="--max-field-sensitivity-array-size 200" args="--no-assertion-reach-checks" bounds="prefix [A:0][free 16][C:8][free 17][E:1]; remove C, remove A; stored bytes, partial-read window, compared byte positions symbolic; free index = contract model" desc="remove: the index becomes unreadable, the others stay intact; the freed place merges with both free neighbours / with the following free region: values read back, dead indexes unreadable, file tiled by records and free regions, no out-of-file write; then optimize_storage: no unused space, values intact" kernel="Storage::remove,Storage::is_at_end,Storage::write_record,Storage::free_a_region,Storage::optimize_storage,Storage::shrink_index,Storage::truncate,Storage::value_as_bytes,Storage::value_as_bytes_at_size,Storage::value_size,StorageRecords::new_record,StorageRecords::remove_index,StorageRecords::records,StorageRecords::record,StorageRecords::set_pos,StorageRecords::set_size"
#[kani::proof]
#[kani::stub(std::fmt::format, crate::verif_support::fmt_stub)]
#[kani::stub(crate::DbError::new, crate::verif_support::dberror_new_stub)]
#[kani::stub(crate::storage::storage_records::StorageRecords::take_free, crate::storage::storage_records::verif_h::c04_take_free_model)]
#[kani::stub(crate::storage::storage_records::StorageRecords::take_free_after, crate::storage::storage_records::verif_h::c04_take_free_after_model)]
#[kani::stub(crate::storage::storage_records::StorageRecords::mark_free_compact, crate::storage::storage_records::verif_h::c04_mark_free_compact_model)]
#[kani::stub(crate::storage::storage_records::StorageRecords::mark_free, crate::storage::storage_records::verif_h::c04_mark_free_model)]
#[kani::stub(crate::storage::storage_records::StorageRecords::clear_free, crate::storage::storage_records::verif_h::c04_clear_free_model)]
#[kani::stub(crate::storage::storage_records::StorageRecords::free_size, crate::storage::storage_records::verif_h::c04_free_size_model)]
#[kani::stub(alloc::slice::stable_sort, c04_stable_sort_stub)]
#[kani::unwind(50)]
fn c04_hist_remove_a() {
    let f1 = c04_scenario(2, C04_REMOVE, 3, 0, 0, 0);
    let f2 = c04_scenario(2, C04_REMOVE, 1, 0, 0, 0);
    kani::cover!(f1.ok && f1.fc1 == 1 && f1.fs1 == 16 + 16 + 8 + 16 + 17, "merged with both neighbours");
    kani::cover!(f2.ok && f2.fc1 == 2 && f2.len1 == f2.len0, "merged with the next free region");
    kani::cover!(true, "end of harness reachable");
}

//@ id=C04 tier=quick timeout=1200 cbmc="--max-field-sensitivity-array-size 200" args="--no-assertion-reach-checks" bounds="prefix [A:0][free 16][C:8][free 17][E:1] / [A:8][free 33][C:8][D:1]; remove E (last value of the first), remove C (of the second); stored bytes, partial-read window, compared byte positions symbolic; free index = contract model" desc="remove: at the end of the file the file is truncated (a free region may then end the file); in the middle the freed place merges with the free region before it: values read back, dead indexes unreadable, file tiled by records and free regions, no out-of-file write; then optimize_storage: no unused space, values intact" kernel="Storage::remove,Storage::is_at_end,Storage::write_record,Storage::free_a_region,Storage::optimize_storage,Storage::shrink_index,Storage::truncate,Storage::value_as_bytes,Storage::value_as_bytes_at_size,Storage::value_size,StorageRecords::new_record,StorageRecords::remove_index,StorageRecords::records,StorageRecords::record,StorageRecords::set_pos,StorageRecords::set_size"
#[kani::proof]
#[kani::stub(std::fmt::format, crate::verif_support::fmt_stub)]
#[kani::stub(crate::DbError::new, crate::verif_support::dberror_new_stub)]
#[kani::stub(crate::storage::storage_records::StorageRecords::take_free, crate::storage::storage_records::verif_h::c04_take_free_model)]
#[kani::stub(crate::storage::storage_records::StorageRecords::take_free_after, crate::storage::storage_records::verif_h::c04_take_free_after_model)]
#[kani::stub(crate::storage::storage_records::StorageRecords::mark_free_compact, crate::storage::storage_records::verif_h::c04_mark_free_compact_model)]
#[kani::stub(crate::storage::storage_records::StorageRecords::mark_free, crate::storage::storage_records::verif_h::c04_mark_free_model)]
#[kani::stub(crate::storage::storage_records::StorageRecords::clear_free, crate::storage::storage_records::verif_h::c04_clear_free_model)]
#[kani::stub(crate::storage::storage_records::StorageRecords::free_size, crate::storage::storage_records::verif_h::c04_free_size_model)]
#[kani::stub(alloc::slice::stable_sort, c04_stable_sort_stub)]
#[kani::unwind(50)]
fn c04_hist_remove_b() {
    let f1 = c04_scenario(2, C04_REMOVE, 5, 0, 0, 0);
    let f2 = c04_scenario(1, C04_REMOVE, 3, 0, 0, 0);
    kani::cover!(f1.ok && f1.len1 + 17 == f1.len0 && f1.fc1 == 2, "removed at the end: truncated");
    kani::cover!(f2.ok && f2.fc1 == 1 && f2.fs1 == 33 + 16 + 8, "merged with the previous free region");
    kani::cover!(true, "end of harness reachable");
}

//@ id=C04 tier=quick timeout=1200 cbmc="--max-field-sensitivity-array-size 200" args="--no-assertion-reach-checks" bounds="prefix [A:8][free 33][C:8][D:1]; replace A (8 bytes) by 8 bytes, by 0 bytes; stored bytes, partial-read window, compared byte positions symbolic; free index = contract model" desc="replace_with_bytes with the same size (in place) and with an empty value (shrink by 8 relocates, vacated place merges with the free region): value equals the new bytes: values read back, dead indexes unreadable, file tiled by records and free regions, no out-of-file write; then optimize_storage: no unused space, values intact" kernel="Storage::replace_with_bytes,Storage::insert_bytes_at,Storage::ensure_size,Storage::resize_value,Storage::enlarge_value,Storage::enlarge_in_place,Storage::shrink_value,Storage::move_to_end,Storage::write_record,Storage::free_a_region,Storage::optimize_storage,Storage::shrink_index,Storage::truncate,Storage::value_as_bytes,Storage::value_as_bytes_at_size,Storage::value_size,StorageRecords::new_record,StorageRecords::remove_index,StorageRecords::records,StorageRecords::record,StorageRecords::set_pos,StorageRecords::set_size"
#[kani::proof]
#[kani::stub(std::fmt::format, crate::verif_support::fmt_stub)]
#[kani::stub(crate::DbError::new, crate::verif_support::dberror_new_stub)]
#[kani::stub(crate::storage::storage_records::StorageRecords::take_free, crate::storage::storage_records::verif_h::c04_take_free_model)]
#[kani::stub(crate::storage::storage_records::StorageRecords::take_free_after, crate::storage::storage_records::verif_h::c04_take_free_after_model)]
#[kani::stub(crate::storage::storage_records::StorageRecords::mark_free_compact, crate::storage::storage_records::verif_h::c04_mark_free_compact_model)]
#[kani::stub(crate::storage::storage_records::StorageRecords::mark_free, crate::storage::storage_records::verif_h::c04_mark_free_model)]
#[kani::stub(crate::storage::storage_records::StorageRecords::clear_free, crate::storage::storage_records::verif_h::c04_clear_free_model)]
#[kani::stub(crate::storage::storage_records::StorageRecords::free_size, crate::storage::storage_records::verif_h::c04_free_size_model)]
#[kani::stub(alloc::slice::stable_sort, c04_stable_sort_stub)]
#[kani::unwind(50)]
fn c04_hist_replace_a() {
    let f1 = c04_scenario(1, C04_REPLACE, 1, 8, 0, 0);
    let f2 = c04_scenario(1, C04_REPLACE, 1, 0, 0, 0);
    kani::cover!(f1.same_place() && f1.fs1 == f1.fs0, "same size: in place");
    kani::cover!(f2.moved_to_end() && f2.fc1 == 1, "shrink by 8: relocated, old place merged with the free region");
    kani::cover!(true, "end of harness reachable");
}

//@ id=C04 tier=quick timeout=1200 cbmc="--max-field-sensitivity-array-size 200" args="--no-assertion-reach-checks" bounds="prefix [A:8][free 33][C:8][D:1]; replace A (8 bytes) by 33 bytes; stored bytes, partial-read window, compared byte positions symbolic; free index = contract model" desc="replace_with_bytes with a larger value (grows into the following free region): value equals the new bytes: values read back, dead indexes unreadable, file tiled by records and free regions, no out-of-file write; then optimize_storage: no unused space, values intact" kernel="Storage::replace_with_bytes,Storage::insert_bytes_at,Storage::ensure_size,Storage::resize_value,Storage::enlarge_value,Storage::enlarge_in_place,Storage::shrink_value,Storage::move_to_end,Storage::write_record,Storage::free_a_region,Storage::optimize_storage,Storage::shrink_index,Storage::truncate,Storage::value_as_bytes,Storage::value_as_bytes_at_size,Storage::value_size,StorageRecords::new_record,StorageRecords::remove_index,StorageRecords::records,StorageRecords::record,StorageRecords::set_pos,StorageRecords::set_size"
#[kani::proof]
#[kani::stub(std::fmt::format, crate::verif_support::fmt_stub)]
#[kani::stub(crate::DbError::new, crate::verif_support::dberror_new_stub)]
#[kani::stub(crate::storage::storage_records::StorageRecords::take_free, crate::storage::storage_records::verif_h::c04_take_free_model)]
#[kani::stub(crate::storage::storage_records::StorageRecords::take_free_after, crate::storage::storage_records::verif_h::c04_take_free_after_model)]
#[kani::stub(crate::storage::storage_records::StorageRecords::mark_free_compact, crate::storage::storage_records::verif_h::c04_mark_free_compact_model)]
#[kani::stub(crate::storage::storage_records::StorageRecords::mark_free, crate::storage::storage_records::verif_h::c04_mark_free_model)]
#[kani::stub(crate::storage::storage_records::StorageRecords::clear_free, crate::storage::storage_records::verif_h::c04_clear_free_model)]
#[kani::stub(crate::storage::storage_records::StorageRecords::free_size, crate::storage::storage_records::verif_h::c04_free_size_model)]
#[kani::stub(alloc::slice::stable_sort, c04_stable_sort_stub)]
#[kani::unwind(50)]
fn c04_hist_replace_b() {
    let f1 = c04_scenario(1, C04_REPLACE, 1, 33, 0, 0);
    kani::cover!(f1.same_place() && f1.fs1 == 8, "growth into the following free region");
    kani::cover!(true, "end of harness reachable");
}

//@ id=C04 tier=quick timeout=1200 cbmc="--max-field-sensitivity-array-size 200" args="--no-assertion-reach-checks" bounds="prefix [A:8][free 33][C:8][D:1]; insert_bytes_at on A (offset,len) = (0,8), (4,8); stored bytes, partial-read window, compared byte positions symbolic; free index = contract model" desc="insert_bytes_at inside the value and extending it by 4 bytes into the following free region: exactly the addressed bytes change: values read back, dead indexes unreadable, file tiled by records and free regions, no out-of-file write; then optimize_storage: no unused space, values intact" kernel="Storage::insert_bytes_at,Storage::ensure_size,Storage::enlarge_value,Storage::enlarge_in_place,Storage::enlarge_at_end,Storage::write_record,Storage::free_a_region,Storage::optimize_storage,Storage::shrink_index,Storage::truncate,Storage::value_as_bytes,Storage::value_as_bytes_at_size,Storage::value_size,StorageRecords::new_record,StorageRecords::remove_index,StorageRecords::records,StorageRecords::record,StorageRecords::set_pos,StorageRecords::set_size"
#[kani::proof]
#[kani::stub(std::fmt::format, crate::verif_support::fmt_stub)]
#[kani::stub(crate::DbError::new, crate::verif_support::dberror_new_stub)]
#[kani::stub(crate::storage::storage_records::StorageRecords::take_free, crate::storage::storage_records::verif_h::c04_take_free_model)]
#[kani::stub(crate::storage::storage_records::StorageRecords::take_free_after, crate::storage::storage_records::verif_h::c04_take_free_after_model)]
#[kani::stub(crate::storage::storage_records::StorageRecords::mark_free_compact, crate::storage::storage_records::verif_h::c04_mark_free_compact_model)]
#[kani::stub(crate::storage::storage_records::StorageRecords::mark_free, crate::storage::storage_records::verif_h::c04_mark_free_model)]
#[kani::stub(crate::storage::storage_records::StorageRecords::clear_free, crate::storage::storage_records::verif_h::c04_clear_free_model)]
#[kani::stub(crate::storage::storage_records::StorageRecords::free_size, crate::storage::storage_records::verif_h::c04_free_size_model)]
#[kani::stub(alloc::slice::stable_sort, c04_stable_sort_stub)]
#[kani::unwind(50)]
fn c04_hist_write_at_a() {
    let f1 = c04_scenario(1, C04_WRITE_AT, 1, 0, 8, 0);
    let f2 = c04_scenario(1, C04_WRITE_AT, 1, 4, 8, 0);
    kani::cover!(f1.same_place() && f1.fs1 == f1.fs0, "overwrite inside the value");
    kani::cover!(f2.same_place() && f2.fs1 + 4 == f2.fs0, "extends the value by 4 into the free region");
    kani::cover!(true, "end of harness reachable");
}

//@ id=C04 tier=quick timeout=1200 cbmc="--max-field-sensitivity-array-size 200" args="--no-assertion-reach-checks" bounds="prefix [A:8][free 33][C:8][D:1]; insert_bytes_at on A (17,1), on D (1,16); stored bytes, partial-read window, compared byte positions symbolic; free index = contract model" desc="insert_bytes_at beyond the end of the value (the gap reads as zero although the space held other data before) and on the last value of the file: values read back, dead indexes unreadable, file tiled by records and free regions, no out-of-file write; then optimize_storage: no unused space, values intact" kernel="Storage::insert_bytes_at,Storage::ensure_size,Storage::enlarge_value,Storage::enlarge_in_place,Storage::enlarge_at_end,Storage::write_record,Storage::free_a_region,Storage::optimize_storage,Storage::shrink_index,Storage::truncate,Storage::value_as_bytes,Storage::value_as_bytes_at_size,Storage::value_size,StorageRecords::new_record,StorageRecords::remove_index,StorageRecords::records,StorageRecords::record,StorageRecords::set_pos,StorageRecords::set_size"
#[kani::proof]
#[kani::stub(std::fmt::format, crate::verif_support::fmt_stub)]
#[kani::stub(crate::DbError::new, crate::verif_support::dberror_new_stub)]
#[kani::stub(crate::storage::storage_records::StorageRecords::take_free, crate::storage::storage_records::verif_h::c04_take_free_model)]
#[kani::stub(crate::storage::storage_records::StorageRecords::take_free_after, crate::storage::storage_records::verif_h::c04_take_free_after_model)]
#[kani::stub(crate::storage::storage_records::StorageRecords::mark_free_compact, crate::storage::storage_records::verif_h::c04_mark_free_compact_model)]
#[kani::stub(crate::storage::storage_records::StorageRecords::mark_free, crate::storage::storage_records::verif_h::c04_mark_free_model)]
#[kani::stub(crate::storage::storage_records::StorageRecords::clear_free, crate::storage::storage_records::verif_h::c04_clear_free_model)]
#[kani::stub(crate::storage::storage_records::StorageRecords::free_size, crate::storage::storage_records::verif_h::c04_free_size_model)]
#[kani::stub(alloc::slice::stable_sort, c04_stable_sort_stub)]
#[kani::unwind(50)]
fn c04_hist_write_at_b() {
    let f1 = c04_scenario(1, C04_WRITE_AT, 1, 17, 1, 0);
    let f2 = c04_scenario(1, C04_WRITE_AT, 4, 1, 16, 0);
    kani::cover!(f1.same_place() && f1.fs1 + 10 == f1.fs0, "offset beyond the end: gap + 1 byte");
    kani::cover!(f2.pos0 == f2.pos1 && f2.len1 == f2.len0 + 16, "last value of the file grows");
    kani::cover!(true, "end of harness reachable");
}

//@ id=C04 tier=quick timeout=1200 cbmc="--max-field-sensitivity-array-size 200" args="--no-assertion-reach-checks" bounds="prefix [A:16][B:8]; move_at on A (from,to,len) = (8,0,8), (4,0,8); stored bytes, partial-read window, compared byte positions symbolic; free index = contract model" desc="move_at towards the start, disjoint and overlapping: destination gets the source bytes, source bytes not covered by the destination read as zero: values read back, dead indexes unreadable, file tiled by records and free regions, no out-of-file write; then optimize_storage: no unused space, values intact" kernel="Storage::move_at,Storage::erase_bytes,Storage::insert_bytes_at,Storage::validate_read_size,Storage::ensure_size,Storage::enlarge_value,Storage::move_to_end,Storage::write_record,Storage::free_a_region,Storage::optimize_storage,Storage::shrink_index,Storage::truncate,Storage::value_as_bytes,Storage::value_as_bytes_at_size,Storage::value_size,StorageRecords::new_record,StorageRecords::remove_index,StorageRecords::records,StorageRecords::record,StorageRecords::set_pos,StorageRecords::set_size"
#[kani::proof]
#[kani::stub(std::fmt::format, crate::verif_support::fmt_stub)]
#[kani::stub(crate::DbError::new, crate::verif_support::dberror_new_stub)]
#[kani::stub(crate::storage::storage_records::StorageRecords::take_free, crate::storage::storage_records::verif_h::c04_take_free_model)]
#[kani::stub(crate::storage::storage_records::StorageRecords::take_free_after, crate::storage::storage_records::verif_h::c04_take_free_after_model)]
#[kani::stub(crate::storage::storage_records::StorageRecords::mark_free_compact, crate::storage::storage_records::verif_h::c04_mark_free_compact_model)]
#[kani::stub(crate::storage::storage_records::StorageRecords::mark_free, crate::storage::storage_records::verif_h::c04_mark_free_model)]
#[kani::stub(crate::storage::storage_records::StorageRecords::clear_free, crate::storage::storage_records::verif_h::c04_clear_free_model)]
#[kani::stub(crate::storage::storage_records::StorageRecords::free_size, crate::storage::storage_records::verif_h::c04_free_size_model)]
#[kani::stub(alloc::slice::stable_sort, c04_stable_sort_stub)]
#[kani::unwind(50)]
fn c04_hist_move_left_a() {
    let f1 = c04_scenario(3, C04_MOVE, 1, 8, 0, 8);
    let f2 = c04_scenario(3, C04_MOVE, 1, 4, 0, 8);
    kani::cover!(f1.same_place(), "disjoint move to the left");
    kani::cover!(f2.same_place(), "overlapping move to the left");
    kani::cover!(true, "end of harness reachable");
}

//@ id=C04 tier=quick timeout=1200 cbmc="--max-field-sensitivity-array-size 200" args="--no-assertion-reach-checks" bounds="prefix [A:16][B:8]; move_at on A (from,to,len) = (8,8,8), (0,0,0); stored bytes, partial-read window, compared byte positions symbolic; free index = contract model" desc="move_at onto itself and empty move change nothing: values read back, dead indexes unreadable, file tiled by records and free regions, no out-of-file write; then optimize_storage: no unused space, values intact" kernel="Storage::move_at,Storage::erase_bytes,Storage::insert_bytes_at,Storage::validate_read_size,Storage::ensure_size,Storage::enlarge_value,Storage::move_to_end,Storage::write_record,Storage::free_a_region,Storage::optimize_storage,Storage::shrink_index,Storage::truncate,Storage::value_as_bytes,Storage::value_as_bytes_at_size,Storage::value_size,StorageRecords::new_record,StorageRecords::remove_index,StorageRecords::records,StorageRecords::record,StorageRecords::set_pos,StorageRecords::set_size"
#[kani::proof]
#[kani::stub(std::fmt::format, crate::verif_support::fmt_stub)]
#[kani::stub(crate::DbError::new, crate::verif_support::dberror_new_stub)]
#[kani::stub(crate::storage::storage_records::StorageRecords::take_free, crate::storage::storage_records::verif_h::c04_take_free_model)]
#[kani::stub(crate::storage::storage_records::StorageRecords::take_free_after, crate::storage::storage_records::verif_h::c04_take_free_after_model)]
#[kani::stub(crate::storage::storage_records::StorageRecords::mark_free_compact, crate::storage::storage_records::verif_h::c04_mark_free_compact_model)]
#[kani::stub(crate::storage::storage_records::StorageRecords::mark_free, crate::storage::storage_records::verif_h::c04_mark_free_model)]
#[kani::stub(crate::storage::storage_records::StorageRecords::clear_free, crate::storage::storage_records::verif_h::c04_clear_free_model)]
#[kani::stub(crate::storage::storage_records::StorageRecords::free_size, crate::storage::storage_records::verif_h::c04_free_size_model)]
#[kani::stub(alloc::slice::stable_sort, c04_stable_sort_stub)]
#[kani::unwind(50)]
fn c04_hist_move_left_b() {
    let f1 = c04_scenario(3, C04_MOVE, 1, 8, 8, 8);
    let f2 = c04_scenario(3, C04_MOVE, 1, 0, 0, 0);
    kani::cover!(f1.same_place(), "source == destination");
    kani::cover!(f2.same_place(), "empty move");
    kani::cover!(true, "end of harness reachable");
}

//@ id=C04 tier=quick timeout=1200 cbmc="--max-field-sensitivity-array-size 200" args="--no-assertion-reach-checks" bounds="prefix [A:16][B:8]; move_at on A (from,to,len) = (0,8,8), (0,4,8); stored bytes, partial-read window, compared byte positions symbolic; free index = contract model" desc="move_at towards the end, disjoint and overlapping: destination gets the source bytes, source bytes not covered by the destination read as zero: values read back, dead indexes unreadable, file tiled by records and free regions, no out-of-file write; then optimize_storage: no unused space, values intact" kernel="Storage::move_at,Storage::erase_bytes,Storage::insert_bytes_at,Storage::validate_read_size,Storage::ensure_size,Storage::enlarge_value,Storage::move_to_end,Storage::write_record,Storage::free_a_region,Storage::optimize_storage,Storage::shrink_index,Storage::truncate,Storage::value_as_bytes,Storage::value_as_bytes_at_size,Storage::value_size,StorageRecords::new_record,StorageRecords::remove_index,StorageRecords::records,StorageRecords::record,StorageRecords::set_pos,StorageRecords::set_size"
#[kani::proof]
#[kani::stub(std::fmt::format, crate::verif_support::fmt_stub)]
#[kani::stub(crate::DbError::new, crate::verif_support::dberror_new_stub)]
#[kani::stub(crate::storage::storage_records::StorageRecords::take_free, crate::storage::storage_records::verif_h::c04_take_free_model)]
#[kani::stub(crate::storage::storage_records::StorageRecords::take_free_after, crate::storage::storage_records::verif_h::c04_take_free_after_model)]
#[kani::stub(crate::storage::storage_records::StorageRecords::mark_free_compact, crate::storage::storage_records::verif_h::c04_mark_free_compact_model)]
#[kani::stub(crate::storage::storage_records::StorageRecords::mark_free, crate::storage::storage_records::verif_h::c04_mark_free_model)]
#[kani::stub(crate::storage::storage_records::StorageRecords::clear_free, crate::storage::storage_records::verif_h::c04_clear_free_model)]
#[kani::stub(crate::storage::storage_records::StorageRecords::free_size, crate::storage::storage_records::verif_h::c04_free_size_model)]
#[kani::stub(alloc::slice::stable_sort, c04_stable_sort_stub)]
#[kani::unwind(50)]
fn c04_hist_move_right_a() {
    let f1 = c04_scenario(3, C04_MOVE, 1, 0, 8, 8);
    let f2 = c04_scenario(3, C04_MOVE, 1, 0, 4, 8);
    kani::cover!(f1.same_place(), "disjoint move to the right");
    kani::cover!(f2.same_place(), "overlapping move to the right");
    kani::cover!(true, "end of harness reachable");
}

//@ id=C04 tier=quick timeout=1200 cbmc="--max-field-sensitivity-array-size 200" args="--no-assertion-reach-checks" bounds="prefix [A:16][B:8]; move_at on A (from,to,len) = (8,16,8); stored bytes, partial-read window, compared byte positions symbolic; free index = contract model" desc="move_at beyond the end of the value: the value grows (gap zero) and relocates: destination gets the source bytes, source bytes not covered by the destination read as zero: values read back, dead indexes unreadable, file tiled by records and free regions, no out-of-file write; then optimize_storage: no unused space, values intact" kernel="Storage::move_at,Storage::erase_bytes,Storage::insert_bytes_at,Storage::validate_read_size,Storage::ensure_size,Storage::enlarge_value,Storage::move_to_end,Storage::write_record,Storage::free_a_region,Storage::optimize_storage,Storage::shrink_index,Storage::truncate,Storage::value_as_bytes,Storage::value_as_bytes_at_size,Storage::value_size,StorageRecords::new_record,StorageRecords::remove_index,StorageRecords::records,StorageRecords::record,StorageRecords::set_pos,StorageRecords::set_size"
#[kani::proof]
#[kani::stub(std::fmt::format, crate::verif_support::fmt_stub)]
#[kani::stub(crate::DbError::new, crate::verif_support::dberror_new_stub)]
#[kani::stub(crate::storage::storage_records::StorageRecords::take_free, crate::storage::storage_records::verif_h::c04_take_free_model)]
#[kani::stub(crate::storage::storage_records::StorageRecords::take_free_after, crate::storage::storage_records::verif_h::c04_take_free_after_model)]
#[kani::stub(crate::storage::storage_records::StorageRecords::mark_free_compact, crate::storage::storage_records::verif_h::c04_mark_free_compact_model)]
#[kani::stub(crate::storage::storage_records::StorageRecords::mark_free, crate::storage::storage_records::verif_h::c04_mark_free_model)]
#[kani::stub(crate::storage::storage_records::StorageRecords::clear_free, crate::storage::storage_records::verif_h::c04_clear_free_model)]
#[kani::stub(crate::storage::storage_records::StorageRecords::free_size, crate::storage::storage_records::verif_h::c04_free_size_model)]
#[kani::stub(alloc::slice::stable_sort, c04_stable_sort_stub)]
#[kani::unwind(50)]
fn c04_hist_move_right_b() {
    let f1 = c04_scenario(3, C04_MOVE, 1, 8, 16, 8);
    kani::cover!(f1.moved_to_end() && f1.fc1 == 1, "destination beyond the end: value grows and relocates");
    kani::cover!(true, "end of harness reachable");
}

//@ id=C04 tier=quick timeout=2000 cbmc="--max-field-sensitivity-array-size 200" args="--no-assertion-reach-checks" bounds="[A:8][B:16][C:8][D:17][E:1], then remove B, remove D, insert 1, insert 1, remove A, insert 8, insert 0 with a full check after each step; stored bytes, partial-read window, compared byte positions symbolic; free index = contract model" desc="indexes of removed values are handed out again one by one and never while live (free-index list threaded through slot 0), new values land in free regions or at the end, every step keeps all values readable and the file tiled, optimize leaves no unused space" kernel="Storage::insert_bytes,Storage::remove,Storage::write_record,Storage::free_a_region,Storage::optimize_storage,Storage::shrink_index,Storage::truncate,Storage::value_as_bytes,Storage::value_as_bytes_at_size,Storage::value_size,StorageRecords::new_record,StorageRecords::remove_index,StorageRecords::records,StorageRecords::record,StorageRecords::set_pos,StorageRecords::set_size"
#[kani::proof]
#[kani::stub(std::fmt::format, crate::verif_support::fmt_stub)]
#[kani::stub(crate::DbError::new, crate::verif_support::dberror_new_stub)]
#[kani::stub(crate::storage::storage_records::StorageRecords::take_free, crate::storage::storage_records::verif_h::c04_take_free_model)]
#[kani::stub(crate::storage::storage_records::StorageRecords::take_free_after, crate::storage::storage_records::verif_h::c04_take_free_after_model)]
#[kani::stub(crate::storage::storage_records::StorageRecords::mark_free_compact, crate::storage::storage_records::verif_h::c04_mark_free_compact_model)]
#[kani::stub(crate::storage::storage_records::StorageRecords::mark_free, crate::storage::storage_records::verif_h::c04_mark_free_model)]
#[kani::stub(crate::storage::storage_records::StorageRecords::clear_free, crate::storage::storage_records::verif_h::c04_clear_free_model)]
#[kani::stub(crate::storage::storage_records::StorageRecords::free_size, crate::storage::storage_records::verif_h::c04_free_size_model)]
#[kani::stub(alloc::slice::stable_sort, c04_stable_sort_stub)]
#[kani::unwind(50)]
fn c04_hist_index_reuse() {
    let (mut s, mut m) = c04_prefix(5);
    c04_check_all(&s, &m);
    c04_step(&mut s, &mut m, C04_REMOVE, 2, 0, 0, 0);
    c04_step(&mut s, &mut m, C04_REMOVE, 4, 0, 0, 0);
    let f1 = c04_step(&mut s, &mut m, C04_INSERT, 1, 1, 0, 0);
    let f2 = c04_step(&mut s, &mut m, C04_INSERT, 1, 1, 0, 0);
    let f3 = c04_step(&mut s, &mut m, C04_REMOVE, 1, 0, 0, 0);
    let f4 = c04_step(&mut s, &mut m, C04_INSERT, 1, 8, 0, 0);
    let f5 = c04_step(&mut s, &mut m, C04_INSERT, 1, 0, 0, 0);
    c04_finale(&mut s, &mut m);
    kani::cover!(f1.t == 4 && f2.t == 2, "removed indexes reused, last removed first");
    kani::cover!(f4.t == 1, "index removed later is reused");
    kani::cover!(f5.t == 6, "table grows when no removed index is left");
    kani::cover!(true, "end of harness reachable");
    std::mem::forget(s);
}

//@ id=C04 tier=quick timeout=1200 cbmc="--max-field-sensitivity-array-size 200" args="--no-assertion-reach-checks" bounds="empty storage: insert 0 bytes, insert_bytes_at(1,1), resize to 0, remove, insert 1 byte, insert_bytes_at beyond end on it, with a full check after each step; stored bytes, partial-read window, compared byte positions symbolic; free index = contract model" desc="history from an empty storage through an empty value, growth from empty, shrink to empty, removal of the only value (file back to the bare version record) and reuse: every step keeps all values readable and the file tiled, optimize leaves no unused space" kernel="Storage::insert_bytes,Storage::insert_bytes_at,Storage::resize_value,Storage::remove,Storage::enlarge_at_end,Storage::shrink_value,Storage::write_record,Storage::free_a_region,Storage::optimize_storage,Storage::shrink_index,Storage::truncate,Storage::value_as_bytes,Storage::value_as_bytes_at_size,Storage::value_size,StorageRecords::new_record,StorageRecords::remove_index,StorageRecords::records,StorageRecords::record,StorageRecords::set_pos,StorageRecords::set_size"
#[kani::proof]
#[kani::stub(std::fmt::format, crate::verif_support::fmt_stub)]
#[kani::stub(crate::DbError::new, crate::verif_support::dberror_new_stub)]
#[kani::stub(crate::storage::storage_records::StorageRecords::take_free, crate::storage::storage_records::verif_h::c04_take_free_model)]
#[kani::stub(crate::storage::storage_records::StorageRecords::take_free_after, crate::storage::storage_records::verif_h::c04_take_free_after_model)]
#[kani::stub(crate::storage::storage_records::StorageRecords::mark_free_compact, crate::storage::storage_records::verif_h::c04_mark_free_compact_model)]
#[kani::stub(crate::storage::storage_records::StorageRecords::mark_free, crate::storage::storage_records::verif_h::c04_mark_free_model)]
#[kani::stub(crate::storage::storage_records::StorageRecords::clear_free, crate::storage::storage_records::verif_h::c04_clear_free_model)]
#[kani::stub(crate::storage::storage_records::StorageRecords::free_size, crate::storage::storage_records::verif_h::c04_free_size_model)]
#[kani::stub(alloc::slice::stable_sort, c04_stable_sort_stub)]
#[kani::unwind(50)]
fn c04_hist_from_empty() {
    let (mut s, mut m) = c04_prefix(0);
    c04_check_all(&s, &m);
    let f1 = c04_step(&mut s, &mut m, C04_INSERT, 1, 0, 0, 0);
    let f2 = c04_step(&mut s, &mut m, C04_WRITE_AT, 1, 1, 1, 0);
    let f3 = c04_step(&mut s, &mut m, C04_RESIZE, 1, 0, 0, 0);
    let f4 = c04_step(&mut s, &mut m, C04_REMOVE, 1, 0, 0, 0);
    let f5 = c04_step(&mut s, &mut m, C04_INSERT, 1, 1, 0, 0);
    let f6 = c04_step(&mut s, &mut m, C04_WRITE_AT, 1, 8, 8, 0);
    c04_finale(&mut s, &mut m);
    kani::cover!(f1.t == 1 && f1.len1 == 40, "empty value stored");
    kani::cover!(f2.len1 == 42, "grown from empty at the end of the file");
    kani::cover!(f3.len1 == 40, "shrunk to empty");
    kani::cover!(f4.len1 == 24, "file back to the version record");
    kani::cover!(f5.t == 1, "index reused");
    kani::cover!(f6.len1 == 24 + 16 + 16, "gap beyond the end");
    kani::cover!(true, "end of harness reachable");
    std::mem::forget(s);
}

//@ id=C04 tier=quick timeout=1200 cbmc="--max-field-sensitivity-array-size 200" args="--no-assertion-reach-checks" bounds="file image [A:8][free 33][C:8][D:1] (index 2 unused) built directly, symbolic value bytes and symbolic garbage in the free region; stored bytes, partial-read window, compared byte positions symbolic; free index = contract model" desc="Storage::with_data on a copy of the bytes: same values under the same indexes, same free regions, nothing written; the next insert on the reopened storage gets a non-live index (the unused one) and leaves everything readable and tiled" kernel="Storage::with_data,Storage::read_records,Storage::read_record,Storage::extract_version,Storage::validate_or_update_version,StorageRecords::set_record,StorageRecords::rebuild_free_index,Storage::insert_bytes,Storage::write_record,Storage::free_a_region,Storage::optimize_storage,Storage::shrink_index,Storage::truncate,Storage::value_as_bytes,Storage::value_as_bytes_at_size,Storage::value_size,StorageRecords::new_record,StorageRecords::remove_index,StorageRecords::records,StorageRecords::record,StorageRecords::set_pos,StorageRecords::set_size"
#[kani::proof]
#[kani::stub(std::fmt::format, crate::verif_support::fmt_stub)]
#[kani::stub(crate::DbError::new, crate::verif_support::dberror_new_stub)]
#[kani::stub(crate::storage::storage_records::StorageRecords::take_free, crate::storage::storage_records::verif_h::c04_take_free_model)]
#[kani::stub(crate::storage::storage_records::StorageRecords::take_free_after, crate::storage::storage_records::verif_h::c04_take_free_after_model)]
#[kani::stub(crate::storage::storage_records::StorageRecords::mark_free_compact, crate::storage::storage_records::verif_h::c04_mark_free_compact_model)]
#[kani::stub(crate::storage::storage_records::StorageRecords::mark_free, crate::storage::storage_records::verif_h::c04_mark_free_model)]
#[kani::stub(crate::storage::storage_records::StorageRecords::clear_free, crate::storage::storage_records::verif_h::c04_clear_free_model)]
#[kani::stub(crate::storage::storage_records::StorageRecords::free_size, crate::storage::storage_records::verif_h::c04_free_size_model)]
#[kani::stub(alloc::slice::stable_sort, c04_stable_sort_stub)]
#[kani::unwind(50)]
fn c04_reopen_gap() {
    let (s, m) = c04_prefix(1);
    c04_check_all(&s, &m);
    c04_reopen_check(&s, &m);
    kani::cover!(true, "end of harness reachable");
    std::mem::forget(s);
}

//@ id=C04 tier=quick timeout=1500 cbmc="--max-field-sensitivity-array-size 200" args="--no-assertion-reach-checks" bounds="empty storage, insert 8, insert 1, insert 8, remove the middle one, reopen, optimize, reopen; stored bytes, partial-read window, compared byte positions symbolic; free index = contract model" desc="after a real history that leaves a free region and an unused index, and again after optimize_storage, Storage::with_data on a copy of the bytes shows the same values under the same indexes and the same free regions; the next insert on the reopened storage gets a non-live index" kernel="Storage::with_data,Storage::read_records,Storage::read_record,Storage::extract_version,Storage::validate_or_update_version,StorageRecords::set_record,StorageRecords::rebuild_free_index,Storage::insert_bytes,Storage::remove,Storage::write_record,Storage::free_a_region,Storage::optimize_storage,Storage::shrink_index,Storage::truncate,Storage::value_as_bytes,Storage::value_as_bytes_at_size,Storage::value_size,StorageRecords::new_record,StorageRecords::remove_index,StorageRecords::records,StorageRecords::record,StorageRecords::set_pos,StorageRecords::set_size"
#[kani::proof]
#[kani::stub(std::fmt::format, crate::verif_support::fmt_stub)]
#[kani::stub(crate::DbError::new, crate::verif_support::dberror_new_stub)]
#[kani::stub(crate::storage::storage_records::StorageRecords::take_free, crate::storage::storage_records::verif_h::c04_take_free_model)]
#[kani::stub(crate::storage::storage_records::StorageRecords::take_free_after, crate::storage::storage_records::verif_h::c04_take_free_after_model)]
#[kani::stub(crate::storage::storage_records::StorageRecords::mark_free_compact, crate::storage::storage_records::verif_h::c04_mark_free_compact_model)]
#[kani::stub(crate::storage::storage_records::StorageRecords::mark_free, crate::storage::storage_records::verif_h::c04_mark_free_model)]
#[kani::stub(crate::storage::storage_records::StorageRecords::clear_free, crate::storage::storage_records::verif_h::c04_clear_free_model)]
#[kani::stub(crate::storage::storage_records::StorageRecords::free_size, crate::storage::storage_records::verif_h::c04_free_size_model)]
#[kani::stub(alloc::slice::stable_sort, c04_stable_sort_stub)]
#[kani::unwind(50)]
fn c04_reopen_history() {
    let (mut s, mut m) = c04_prefix(0);
    c04_put(&mut s, &mut m, 8);
    c04_put(&mut s, &mut m, 1);
    c04_put(&mut s, &mut m, 8);
    c04_del(&mut s, &mut m, 2);
    c04_check_all(&s, &m);
    c04_reopen_check(&s, &m);
    c04_finale(&mut s, &mut m);
    c04_reopen_check(&s, &m);
    kani::cover!(true, "end of harness reachable");
    std::mem::forget(s);
}

// ===========================================================================
// C32 -- a failed write must not leave the storage transaction open
// ===========================================================================
//
// Mechanism under test (DESIGN.md C32): every public mutating method of
// `Storage` brackets its writes with `transaction()` ... `commit(id)`; only the
// commit that brings the nesting counter back to 0 calls `StorageData::flush`
// (which is what clears the write-ahead log in `FileStorage`). Oracle: if the
// operation returns Err because the `fail_at`-th write/resize of the back end
// failed, the counter is back at its pre-call value (0), and a following
// successful operation reaches `flush`.
//
// State: [A:8][free 33][C:8][D:1] (c04_prefix(1)); operation arguments are
// concrete (see C04 for why), `fail_at` is symbolic over all calls the
// operation issues (+ "no failure").

pub(crate) const C32_MAX_CALLS: u32 = 8;

fn c32_arm(s: &mut Storage<ArrStorage>, fail_at: u32) -> u32 {
    // `fail_at` is enumerated by the caller: a symbolic failure point makes the
    // position of every later write symbolic, which exhausts 10 GB (measured)
    s.data.calls = 0;
    s.data.flushes = 0;
    s.data.fail_at = fail_at;
    assert!(s.transactions == 0, "harness: fresh storage has an open transaction");
    fail_at
}

/// Oracle after the faulty operation; returns (operation failed, calls issued).
fn c32_after<T>(s: &mut Storage<ArrStorage>, r: Result<T, DbError>, fail_at: u32) -> (bool, u32) {
    let failed = r.is_err();
    std::mem::forget(r);
    let calls = s.data.calls;
    assert!(calls <= C32_MAX_CALLS, "harness bound: operation issues more calls than fail_at covers");
    if failed {
        assert!(fail_at < calls, "operation failed although no back-end call failed");
        assert!(
            s.transactions == 0,
            "failed operation left its storage transaction open (nesting counter not restored)"
        );
    } else {
        assert!(fail_at >= calls, "back-end failure swallowed: operation reported success");
        assert!(s.transactions == 0, "successful operation left a transaction open");
        assert!(s.data.flushes == 1, "successful outermost operation did not flush exactly once");
    }
    // later committed work: a following successful operation must reach flush
    s.data.fail_at = u32::MAX;
    let before = s.data.flushes;
    let one = [7u8; 1];
    let r2 = s.insert_bytes(&one);
    assert!(r2.is_ok(), "operation after a failed one fails");
    std::mem::forget(r2);
    assert!(
        s.data.flushes == before + 1,
        "successful operation after a failed one never reaches flush (its commit is not the outermost)"
    );
    (failed, calls)
}

// ===========================================================================
// C07 (storage part) -- opening / reading a damaged file never crashes
// ===========================================================================
//
// `Storage::with_data` on a damaged file must return Ok or Err; it must not
// panic, overflow, or size a table by a number read from the file without
// bound. On a storage that did open, every record of the table must lie inside
// the file and every read entry point (whole values, sizes, a partial-read
// window with symbolic offset / size) must return Ok or Err.
// Oracle = absence of failed checks (panics, arithmetic overflow, out-of-range
// slicing, unwinding assertions of loops whose trip count is read from the
// file) + the explicit assertion of `c07_table_inside_file`.
// `StorageRecords::mark_free` (BTree) is replaced by the contract model, see
// storage_records_h.rs.

pub(crate) const C07_N: usize = 72;
pub(crate) const C07_VALID_LEN: usize = 65;
pub(crate) const C07_CUTS: usize = 16;
/// truncation points: every structural boundary of the valid image -1 / 0 / +1
pub(crate) const C07_CUT_POINTS: [usize; C07_CUTS] = [0, 1, 15, 16, 20, 23, 24, 25, 39, 40, 44, 47, 48, 63, 64, 65];

// Measured limits: with a fully symbolic file (length and bytes) `with_data`
// does not finish (25 min), a symbolic record index makes
// `records.resize(index + 1)` exhaust the solver memory, and so does a symbolic
// record size (the walk of `read_records` continues at a symbolic position).
// The damaged files are therefore generated from one valid image
//     [0,8,version=1][index 1, size 8, 8 bytes][index 3, size 1, 1 byte]   (65 bytes)
// with symbolic value bytes, by
//  (a) truncation at the lengths around every structural boundary,
//  (b) the size field of the version record replaced by a symbolic u64,
//  (c) the size field of the last record replaced by boundary values of the
//      size check (2, 17, 33 accepted too leniently today, 34, 2^63, 2^64-1),
//  (d) the index field of the last record replaced by 6, 2^40, 2^62, 2^64-1
//      (and `set_record` alone with the same values, storage_records_h.rs).
// In (a), (c), (d) the case is a symbolic choice with one concrete run per
// case, so that a panic in one case does not hide the others.

/// Offsets of the numeric header fields of the valid image.
pub(crate) const C07_F_VERSION_INDEX: usize = 0;
pub(crate) const C07_F_VERSION_SIZE: usize = 8;
pub(crate) const C07_F_VERSION_VALUE: usize = 16;
pub(crate) const C07_F_REC1_INDEX: usize = 24;
pub(crate) const C07_F_REC1_SIZE: usize = 32;
pub(crate) const C07_F_REC2_INDEX: usize = 48;
pub(crate) const C07_F_REC2_SIZE: usize = 56;

// (element-wise stores instead of copy_from_slice: after a memcpy CBMC no
// longer constant-propagates the header fields, and `read_records` on header
// fields that look symbolic ends in a symbolic `records.resize(index + 1)`)
pub(crate) fn c07_put64(img: &mut [u8; C07_N], at: usize, v: u64) {
    let b = v.to_le_bytes();
    let mut k = 0;
    while k < 8 {
        img[at + k] = b[k];
        k += 1;
    }
}

pub(crate) fn c07_valid_image() -> [u8; C07_N] {
    let values: [u8; 9] = kani::any();
    let mut img = [0u8; C07_N];
    c07_put64(&mut img, C07_F_VERSION_INDEX, 0);
    c07_put64(&mut img, C07_F_VERSION_SIZE, 8);
    c07_put64(&mut img, C07_F_VERSION_VALUE, CURRENT_VERSION);
    c07_put64(&mut img, C07_F_REC1_INDEX, 1);
    c07_put64(&mut img, C07_F_REC1_SIZE, 8);
    let mut k = 0;
    while k < 8 {
        img[40 + k] = values[k];
        k += 1;
    }
    c07_put64(&mut img, C07_F_REC2_INDEX, 3);
    c07_put64(&mut img, C07_F_REC2_SIZE, 1);
    img[64] = values[8];
    img
}

pub(crate) fn c07_arr(img: &[u8; C07_N], n: usize) -> ArrStorage {
    let mut d = ArrStorage::empty();
    // 9 x 8 nested so that a small unwind bound covers it
    let mut c = 0;
    while c < C07_N / 8 {
        let mut k = 0;
        while k < 8 {
            let i = c * 8 + k;
            if i < n {
                d.buf[i] = img[i];
            }
            k += 1;
        }
        c += 1;
    }
    d.len = n;
    d
}

/// Opens `data`; if it opens, checks the table against the file and reads
/// every value of the table (whole value, size, and one symbolic window of the
/// value with index `probe`). Returns whether it opened.
pub(crate) fn c07_open_case<D: StorageData>(data: D, probe: u64) -> bool {
    rec_h::c04_fm().reset();
    match Storage::<D>::with_data(data) {
        Ok(s) => {
            c07_table_inside_file(&s);
            let mut i = 0u64;
            while i < 5 {
                let r = s.value_size(StorageIndex(i));
                std::mem::forget(r);
                let r = s.value_as_bytes(StorageIndex(i));
                std::mem::forget(r);
                i += 1;
            }
            let offset: u64 = kani::any();
            let size: u64 = kani::any();
            let r = s.value_as_bytes_at(StorageIndex(probe), offset);
            std::mem::forget(r);
            let r = s.value_as_bytes_at_size(StorageIndex(probe), offset, size);
            std::mem::forget(r);
            std::mem::forget(s);
            true
        }
        Err(e) => {
            std::mem::forget(e);
            false
        }
    }
}

/// What a successful open must guarantee for later reads: every record of the
/// table lies inside the file.
pub(crate) fn c07_table_inside_file<D: StorageData>(s: &Storage<D>) {
    let mut index = 0u64;
    while index < 5 {
        match s.records.record(index) {
            Ok(r) => {
                let end = r.pos.checked_add(STORAGE_RECORD_SIZE).and_then(|v| v.checked_add(r.size));
                assert!(
                    matches!(end, Some(e) if e <= s.len()),
                    "opened storage has a record that extends past the end of the file"
                );
            }
            Err(e) => std::mem::forget(e),
        }
        index += 1;
    }
}

//@ id=C32 tier=quick timeout=900 cbmc="--max-field-sensitivity-array-size 200" args="--no-assertion-reach-checks" bounds="storage [A:8][free 33][C:8][D:1]; insert_bytes of 17 bytes (split of the free region); fail_at enumerated 0..=3 over the 3 back-end write/resize calls of the operation (and no failure), each on a fresh storage; stored bytes symbolic; free index = contract model" desc="if insert_bytes returns Err because a back-end write/resize failed, the transaction nesting counter is back at 0 and a following successful insert reaches StorageData::flush; without failure the operation flushes exactly once" kernel="Storage::insert_bytes,Storage::transaction,Storage::begin_transaction,Storage::commit,Storage::end_transaction"
#[kani::proof]
#[kani::stub(std::fmt::format, crate::verif_support::fmt_stub)]
#[kani::stub(crate::DbError::new, crate::verif_support::dberror_new_stub)]
#[kani::stub(crate::storage::storage_records::StorageRecords::take_free, crate::storage::storage_records::verif_h::c04_take_free_model)]
#[kani::stub(crate::storage::storage_records::StorageRecords::take_free_after, crate::storage::storage_records::verif_h::c04_take_free_after_model)]
#[kani::stub(crate::storage::storage_records::StorageRecords::mark_free_compact, crate::storage::storage_records::verif_h::c04_mark_free_compact_model)]
#[kani::stub(crate::storage::storage_records::StorageRecords::mark_free, crate::storage::storage_records::verif_h::c04_mark_free_model)]
#[kani::stub(crate::storage::storage_records::StorageRecords::clear_free, crate::storage::storage_records::verif_h::c04_clear_free_model)]
#[kani::stub(crate::storage::storage_records::StorageRecords::free_size, crate::storage::storage_records::verif_h::c04_free_size_model)]
#[kani::stub(alloc::slice::stable_sort, c04_stable_sort_stub)]
#[kani::unwind(50)]
fn c32_fail_insert() {
    let mut seen_first = false;
    let mut seen_last = false;
    let mut seen_none = false;
    let mut k: u32 = 0;
    while k <= 3 {
        let (mut s, _m) = c04_prefix(1);
        let payload: [u8; C04_MAXP] = kani::any();
        let fail_at = c32_arm(&mut s, k);
        let r = s.insert_bytes(&payload[..17]);
        let (failed, calls) = c32_after(&mut s, r, fail_at);
        seen_first |= failed && fail_at == 0;
        seen_last |= failed && fail_at + 1 == 3;
        seen_none |= !failed && calls == 3;
        std::mem::forget(s);
        k += 1;
    }
    kani::cover!(seen_first, "first back-end call of the operation fails");
    kani::cover!(seen_last, "last back-end call of the operation fails");
    kani::cover!(seen_none, "no failure injected");
    kani::cover!(true, "end of harness reachable");
}

//@ id=C32 tier=quick timeout=900 cbmc="--max-field-sensitivity-array-size 200" args="--no-assertion-reach-checks" bounds="storage [A:8][free 33][C:8][D:1]; insert_bytes(17 symbolic bytes) whose OUTERMOST commit's StorageData::flush fails (all back-end writes succeed), once directly and once nested inside an explicit transaction()/commit(id) pair (symbolic choice); then one successful insert" desc="a failing flush at the outermost commit is reported as Err and the transaction nesting counter is still back at 0, so the following successful insert reaches StorageData::flush again (the write-ahead log is cleared; nothing later is rolled back at reopen)" kernel="Storage::insert_bytes,Storage::transaction,Storage::begin_transaction,Storage::commit,Storage::end_transaction"
#[kani::proof]
#[kani::stub(std::fmt::format, crate::verif_support::fmt_stub)]
#[kani::stub(crate::DbError::new, crate::verif_support::dberror_new_stub)]
#[kani::stub(crate::storage::storage_records::StorageRecords::take_free, crate::storage::storage_records::verif_h::c04_take_free_model)]
#[kani::stub(crate::storage::storage_records::StorageRecords::take_free_after, crate::storage::storage_records::verif_h::c04_take_free_after_model)]
#[kani::stub(crate::storage::storage_records::StorageRecords::mark_free_compact, crate::storage::storage_records::verif_h::c04_mark_free_compact_model)]
#[kani::stub(crate::storage::storage_records::StorageRecords::mark_free, crate::storage::storage_records::verif_h::c04_mark_free_model)]
#[kani::stub(crate::storage::storage_records::StorageRecords::clear_free, crate::storage::storage_records::verif_h::c04_clear_free_model)]
#[kani::stub(crate::storage::storage_records::StorageRecords::free_size, crate::storage::storage_records::verif_h::c04_free_size_model)]
#[kani::stub(alloc::slice::stable_sort, c04_stable_sort_stub)]
#[kani::unwind(50)]
fn c32_failed_flush_closes_transaction() {
    let (mut s, _m) = c04_prefix(1);
    let payload: [u8; C04_MAXP] = kani::any();
    c32_arm(&mut s, u32::MAX);
    s.data.fail_flushes = 1;
    let nested: bool = kani::any();
    let failed;
    if nested {
        let id = s.transaction();
        let r = s.insert_bytes(&payload[..17]);
        assert!(r.is_ok(), "nested insert fails although no back-end write failed");
        std::mem::forget(r);
        assert!(s.data.flushes == 0 && s.data.failed_flushes == 0, "nested commit reached flush");
        let c = s.commit(id);
        failed = c.is_err();
        std::mem::forget(c);
    } else {
        let r = s.insert_bytes(&payload[..17]);
        failed = r.is_err();
        std::mem::forget(r);
    }
    assert!(s.data.failed_flushes == 1, "outermost commit did not call flush");
    assert!(failed, "flush failure swallowed: operation reported success");
    assert!(s.transactions == 0, "failed flush left the storage transaction open (nesting counter not restored)");
    let one = [7u8; 1];
    let r2 = s.insert_bytes(&one);
    assert!(r2.is_ok(), "operation after a failed flush fails");
    std::mem::forget(r2);
    assert!(s.data.flushes == 1, "successful operation after a failed flush never reaches flush (its commit is not the outermost)");
    assert!(s.transactions == 0, "successful operation left a transaction open");
    kani::cover!(nested, "flush fails at the commit of an explicit outer transaction");
    kani::cover!(!nested, "flush fails at the operation's own commit");
    kani::cover!(true, "end of harness reachable");
    std::mem::forget(s);
}

//@ id=C32 tier=quick timeout=900 cbmc="--max-field-sensitivity-array-size 200" args="--no-assertion-reach-checks" bounds="storage [A:8][free 33][C:8][D:1]; insert_bytes_at(A, offset 4, 8 bytes) (grows in place); fail_at enumerated 0..=4 over the 4 back-end write/resize calls of the operation (and no failure), each on a fresh storage; stored bytes symbolic; free index = contract model" desc="if insert_bytes_at(A, returns Err because a back-end write/resize failed, the transaction nesting counter is back at 0 and a following successful insert reaches StorageData::flush; without failure the operation flushes exactly once" kernel="Storage::insert_bytes_at,Storage::ensure_size,Storage::enlarge_in_place,Storage::transaction,Storage::begin_transaction,Storage::commit,Storage::end_transaction"
#[kani::proof]
#[kani::stub(std::fmt::format, crate::verif_support::fmt_stub)]
#[kani::stub(crate::DbError::new, crate::verif_support::dberror_new_stub)]
#[kani::stub(crate::storage::storage_records::StorageRecords::take_free, crate::storage::storage_records::verif_h::c04_take_free_model)]
#[kani::stub(crate::storage::storage_records::StorageRecords::take_free_after, crate::storage::storage_records::verif_h::c04_take_free_after_model)]
#[kani::stub(crate::storage::storage_records::StorageRecords::mark_free_compact, crate::storage::storage_records::verif_h::c04_mark_free_compact_model)]
#[kani::stub(crate::storage::storage_records::StorageRecords::mark_free, crate::storage::storage_records::verif_h::c04_mark_free_model)]
#[kani::stub(crate::storage::storage_records::StorageRecords::clear_free, crate::storage::storage_records::verif_h::c04_clear_free_model)]
#[kani::stub(crate::storage::storage_records::StorageRecords::free_size, crate::storage::storage_records::verif_h::c04_free_size_model)]
#[kani::stub(alloc::slice::stable_sort, c04_stable_sort_stub)]
#[kani::unwind(50)]
fn c32_fail_write_at() {
    let mut seen_first = false;
    let mut seen_last = false;
    let mut seen_none = false;
    let mut k: u32 = 0;
    while k <= 4 {
        let (mut s, _m) = c04_prefix(1);
        let payload: [u8; C04_MAXP] = kani::any();
        let fail_at = c32_arm(&mut s, k);
        let r = s.insert_bytes_at(StorageIndex(1), 4, &payload[..8]);
        let (failed, calls) = c32_after(&mut s, r, fail_at);
        seen_first |= failed && fail_at == 0;
        seen_last |= failed && fail_at + 1 == 4;
        seen_none |= !failed && calls == 4;
        std::mem::forget(s);
        k += 1;
    }
    kani::cover!(seen_first, "first back-end call of the operation fails");
    kani::cover!(seen_last, "last back-end call of the operation fails");
    kani::cover!(seen_none, "no failure injected");
    kani::cover!(true, "end of harness reachable");
}

//@ id=C32 tier=quick timeout=900 cbmc="--max-field-sensitivity-array-size 200" args="--no-assertion-reach-checks" bounds="storage [A:8][free 33][C:8][D:1]; replace_with_bytes(A, 33 bytes) (nested transactions, grows in place); fail_at enumerated 0..=4 over the 4 back-end write/resize calls of the operation (and no failure), each on a fresh storage; stored bytes symbolic; free index = contract model" desc="if replace_with_bytes(A, returns Err because a back-end write/resize failed, the transaction nesting counter is back at 0 and a following successful insert reaches StorageData::flush; without failure the operation flushes exactly once" kernel="Storage::replace_with_bytes,Storage::insert_bytes_at,Storage::resize_value,Storage::transaction,Storage::begin_transaction,Storage::commit,Storage::end_transaction"
#[kani::proof]
#[kani::stub(std::fmt::format, crate::verif_support::fmt_stub)]
#[kani::stub(crate::DbError::new, crate::verif_support::dberror_new_stub)]
#[kani::stub(crate::storage::storage_records::StorageRecords::take_free, crate::storage::storage_records::verif_h::c04_take_free_model)]
#[kani::stub(crate::storage::storage_records::StorageRecords::take_free_after, crate::storage::storage_records::verif_h::c04_take_free_after_model)]
#[kani::stub(crate::storage::storage_records::StorageRecords::mark_free_compact, crate::storage::storage_records::verif_h::c04_mark_free_compact_model)]
#[kani::stub(crate::storage::storage_records::StorageRecords::mark_free, crate::storage::storage_records::verif_h::c04_mark_free_model)]
#[kani::stub(crate::storage::storage_records::StorageRecords::clear_free, crate::storage::storage_records::verif_h::c04_clear_free_model)]
#[kani::stub(crate::storage::storage_records::StorageRecords::free_size, crate::storage::storage_records::verif_h::c04_free_size_model)]
#[kani::stub(alloc::slice::stable_sort, c04_stable_sort_stub)]
#[kani::unwind(50)]
fn c32_fail_replace() {
    let mut seen_first = false;
    let mut seen_last = false;
    let mut seen_none = false;
    let mut k: u32 = 0;
    while k <= 4 {
        let (mut s, _m) = c04_prefix(1);
        let payload: [u8; C04_MAXP] = kani::any();
        let fail_at = c32_arm(&mut s, k);
        let r = s.replace_with_bytes(StorageIndex(1), &payload[..33]);
        let (failed, calls) = c32_after(&mut s, r, fail_at);
        seen_first |= failed && fail_at == 0;
        seen_last |= failed && fail_at + 1 == 4;
        seen_none |= !failed && calls == 4;
        std::mem::forget(s);
        k += 1;
    }
    kani::cover!(seen_first, "first back-end call of the operation fails");
    kani::cover!(seen_last, "last back-end call of the operation fails");
    kani::cover!(seen_none, "no failure injected");
    kani::cover!(true, "end of harness reachable");
}

//@ id=C32 tier=quick timeout=900 cbmc="--max-field-sensitivity-array-size 200" args="--no-assertion-reach-checks" bounds="storage [A:8][free 33][C:8][D:1]; resize_value(C, 32) (moves to the end); fail_at enumerated 0..=3 over the 3 back-end write/resize calls of the operation (and no failure), each on a fresh storage; stored bytes symbolic; free index = contract model" desc="if resize_value(C, returns Err because a back-end write/resize failed, the transaction nesting counter is back at 0 and a following successful insert reaches StorageData::flush; without failure the operation flushes exactly once" kernel="Storage::resize_value,Storage::enlarge_value,Storage::move_to_end,Storage::transaction,Storage::begin_transaction,Storage::commit,Storage::end_transaction"
#[kani::proof]
#[kani::stub(std::fmt::format, crate::verif_support::fmt_stub)]
#[kani::stub(crate::DbError::new, crate::verif_support::dberror_new_stub)]
#[kani::stub(crate::storage::storage_records::StorageRecords::take_free, crate::storage::storage_records::verif_h::c04_take_free_model)]
#[kani::stub(crate::storage::storage_records::StorageRecords::take_free_after, crate::storage::storage_records::verif_h::c04_take_free_after_model)]
#[kani::stub(crate::storage::storage_records::StorageRecords::mark_free_compact, crate::storage::storage_records::verif_h::c04_mark_free_compact_model)]
#[kani::stub(crate::storage::storage_records::StorageRecords::mark_free, crate::storage::storage_records::verif_h::c04_mark_free_model)]
#[kani::stub(crate::storage::storage_records::StorageRecords::clear_free, crate::storage::storage_records::verif_h::c04_clear_free_model)]
#[kani::stub(crate::storage::storage_records::StorageRecords::free_size, crate::storage::storage_records::verif_h::c04_free_size_model)]
#[kani::stub(alloc::slice::stable_sort, c04_stable_sort_stub)]
#[kani::unwind(50)]
fn c32_fail_resize_value() {
    let mut seen_first = false;
    let mut seen_last = false;
    let mut seen_none = false;
    let mut k: u32 = 0;
    while k <= 3 {
        let (mut s, _m) = c04_prefix(1);
        let payload: [u8; C04_MAXP] = kani::any();
        let fail_at = c32_arm(&mut s, k);
        let r = s.resize_value(StorageIndex(3), 32);
        let (failed, calls) = c32_after(&mut s, r, fail_at);
        seen_first |= failed && fail_at == 0;
        seen_last |= failed && fail_at + 1 == 3;
        seen_none |= !failed && calls == 3;
        std::mem::forget(s);
        k += 1;
    }
    kani::cover!(seen_first, "first back-end call of the operation fails");
    kani::cover!(seen_last, "last back-end call of the operation fails");
    kani::cover!(seen_none, "no failure injected");
    kani::cover!(true, "end of harness reachable");
}

//@ id=C32 tier=quick timeout=900 cbmc="--max-field-sensitivity-array-size 200" args="--no-assertion-reach-checks" bounds="storage [A:8][free 33][C:8][D:1]; move_at(A, 0 -> 8, 8 bytes) (nested, grows in place, erases source); fail_at enumerated 0..=5 over the 5 back-end write/resize calls of the operation (and no failure), each on a fresh storage; stored bytes symbolic; free index = contract model" desc="if move_at(A, returns Err because a back-end write/resize failed, the transaction nesting counter is back at 0 and a following successful insert reaches StorageData::flush; without failure the operation flushes exactly once" kernel="Storage::move_at,Storage::insert_bytes_at,Storage::erase_bytes,Storage::transaction,Storage::begin_transaction,Storage::commit,Storage::end_transaction"
#[kani::proof]
#[kani::stub(std::fmt::format, crate::verif_support::fmt_stub)]
#[kani::stub(crate::DbError::new, crate::verif_support::dberror_new_stub)]
#[kani::stub(crate::storage::storage_records::StorageRecords::take_free, crate::storage::storage_records::verif_h::c04_take_free_model)]
#[kani::stub(crate::storage::storage_records::StorageRecords::take_free_after, crate::storage::storage_records::verif_h::c04_take_free_after_model)]
#[kani::stub(crate::storage::storage_records::StorageRecords::mark_free_compact, crate::storage::storage_records::verif_h::c04_mark_free_compact_model)]
#[kani::stub(crate::storage::storage_records::StorageRecords::mark_free, crate::storage::storage_records::verif_h::c04_mark_free_model)]
#[kani::stub(crate::storage::storage_records::StorageRecords::clear_free, crate::storage::storage_records::verif_h::c04_clear_free_model)]
#[kani::stub(crate::storage::storage_records::StorageRecords::free_size, crate::storage::storage_records::verif_h::c04_free_size_model)]
#[kani::stub(alloc::slice::stable_sort, c04_stable_sort_stub)]
#[kani::unwind(50)]
fn c32_fail_move_at() {
    let mut seen_first = false;
    let mut seen_last = false;
    let mut seen_none = false;
    let mut k: u32 = 0;
    while k <= 5 {
        let (mut s, _m) = c04_prefix(1);
        let payload: [u8; C04_MAXP] = kani::any();
        let fail_at = c32_arm(&mut s, k);
        let r = s.move_at(StorageIndex(1), 0, 8, 8);
        let (failed, calls) = c32_after(&mut s, r, fail_at);
        seen_first |= failed && fail_at == 0;
        seen_last |= failed && fail_at + 1 == 5;
        seen_none |= !failed && calls == 5;
        std::mem::forget(s);
        k += 1;
    }
    kani::cover!(seen_first, "first back-end call of the operation fails");
    kani::cover!(seen_last, "last back-end call of the operation fails");
    kani::cover!(seen_none, "no failure injected");
    kani::cover!(true, "end of harness reachable");
}

//@ id=C32 tier=quick timeout=900 cbmc="--max-field-sensitivity-array-size 200" args="--no-assertion-reach-checks" bounds="storage [A:8][free 33][C:8][D:1]; remove(C) (free record written); fail_at enumerated 0..=1 over the 1 back-end write/resize calls of the operation (and no failure), each on a fresh storage; stored bytes symbolic; free index = contract model" desc="if remove(C) returns Err because a back-end write/resize failed, the transaction nesting counter is back at 0 and a following successful insert reaches StorageData::flush; without failure the operation flushes exactly once" kernel="Storage::remove,Storage::free_a_region,Storage::transaction,Storage::begin_transaction,Storage::commit,Storage::end_transaction"
#[kani::proof]
#[kani::stub(std::fmt::format, crate::verif_support::fmt_stub)]
#[kani::stub(crate::DbError::new, crate::verif_support::dberror_new_stub)]
#[kani::stub(crate::storage::storage_records::StorageRecords::take_free, crate::storage::storage_records::verif_h::c04_take_free_model)]
#[kani::stub(crate::storage::storage_records::StorageRecords::take_free_after, crate::storage::storage_records::verif_h::c04_take_free_after_model)]
#[kani::stub(crate::storage::storage_records::StorageRecords::mark_free_compact, crate::storage::storage_records::verif_h::c04_mark_free_compact_model)]
#[kani::stub(crate::storage::storage_records::StorageRecords::mark_free, crate::storage::storage_records::verif_h::c04_mark_free_model)]
#[kani::stub(crate::storage::storage_records::StorageRecords::clear_free, crate::storage::storage_records::verif_h::c04_clear_free_model)]
#[kani::stub(crate::storage::storage_records::StorageRecords::free_size, crate::storage::storage_records::verif_h::c04_free_size_model)]
#[kani::stub(alloc::slice::stable_sort, c04_stable_sort_stub)]
#[kani::unwind(50)]
fn c32_fail_remove_mid() {
    let mut seen_first = false;
    let mut seen_last = false;
    let mut seen_none = false;
    let mut k: u32 = 0;
    while k <= 1 {
        let (mut s, _m) = c04_prefix(1);
        let payload: [u8; C04_MAXP] = kani::any();
        let fail_at = c32_arm(&mut s, k);
        let r = s.remove(StorageIndex(3));
        let (failed, calls) = c32_after(&mut s, r, fail_at);
        seen_first |= failed && fail_at == 0;
        seen_last |= failed && fail_at + 1 == 1;
        seen_none |= !failed && calls == 1;
        std::mem::forget(s);
        k += 1;
    }
    kani::cover!(seen_first, "first back-end call of the operation fails");
    kani::cover!(seen_last, "last back-end call of the operation fails");
    kani::cover!(seen_none, "no failure injected");
    kani::cover!(true, "end of harness reachable");
}

//@ id=C32 tier=quick timeout=900 cbmc="--max-field-sensitivity-array-size 200" args="--no-assertion-reach-checks" bounds="storage [A:8][free 33][C:8][D:1]; remove(D) (file truncated); fail_at enumerated 0..=1 over the 1 back-end write/resize calls of the operation (and no failure), each on a fresh storage; stored bytes symbolic; free index = contract model" desc="if remove(D) returns Err because a back-end write/resize failed, the transaction nesting counter is back at 0 and a following successful insert reaches StorageData::flush; without failure the operation flushes exactly once" kernel="Storage::remove,Storage::truncate,Storage::transaction,Storage::begin_transaction,Storage::commit,Storage::end_transaction"
#[kani::proof]
#[kani::stub(std::fmt::format, crate::verif_support::fmt_stub)]
#[kani::stub(crate::DbError::new, crate::verif_support::dberror_new_stub)]
#[kani::stub(crate::storage::storage_records::StorageRecords::take_free, crate::storage::storage_records::verif_h::c04_take_free_model)]
#[kani::stub(crate::storage::storage_records::StorageRecords::take_free_after, crate::storage::storage_records::verif_h::c04_take_free_after_model)]
#[kani::stub(crate::storage::storage_records::StorageRecords::mark_free_compact, crate::storage::storage_records::verif_h::c04_mark_free_compact_model)]
#[kani::stub(crate::storage::storage_records::StorageRecords::mark_free, crate::storage::storage_records::verif_h::c04_mark_free_model)]
#[kani::stub(crate::storage::storage_records::StorageRecords::clear_free, crate::storage::storage_records::verif_h::c04_clear_free_model)]
#[kani::stub(crate::storage::storage_records::StorageRecords::free_size, crate::storage::storage_records::verif_h::c04_free_size_model)]
#[kani::stub(alloc::slice::stable_sort, c04_stable_sort_stub)]
#[kani::unwind(50)]
fn c32_fail_remove_end() {
    let mut seen_first = false;
    let mut seen_last = false;
    let mut seen_none = false;
    let mut k: u32 = 0;
    while k <= 1 {
        let (mut s, _m) = c04_prefix(1);
        let payload: [u8; C04_MAXP] = kani::any();
        let fail_at = c32_arm(&mut s, k);
        let r = s.remove(StorageIndex(4));
        let (failed, calls) = c32_after(&mut s, r, fail_at);
        seen_first |= failed && fail_at == 0;
        seen_last |= failed && fail_at + 1 == 1;
        seen_none |= !failed && calls == 1;
        std::mem::forget(s);
        k += 1;
    }
    kani::cover!(seen_first, "first back-end call of the operation fails");
    kani::cover!(seen_last, "last back-end call of the operation fails");
    kani::cover!(seen_none, "no failure injected");
    kani::cover!(true, "end of harness reachable");
}

//@ id=C32 tier=quick timeout=900 cbmc="--max-field-sensitivity-array-size 200" args="--no-assertion-reach-checks" bounds="storage [free 8][A:1]; optimize_storage ( the value moves, file truncated); fail_at enumerated 0..=3 over the 3 back-end write/resize calls of the operation (and no failure), each on a fresh storage; stored bytes symbolic; free index = contract model" desc="if optimize_storage returns Err because a back-end write/resize failed, the transaction nesting counter is back at 0 and a following successful insert reaches StorageData::flush; without failure the operation flushes exactly once" kernel="Storage::optimize_storage,Storage::shrink_index,Storage::truncate,Storage::transaction,Storage::begin_transaction,Storage::commit,Storage::end_transaction"
#[kani::proof]
#[kani::stub(std::fmt::format, crate::verif_support::fmt_stub)]
#[kani::stub(crate::DbError::new, crate::verif_support::dberror_new_stub)]
#[kani::stub(crate::storage::storage_records::StorageRecords::take_free, crate::storage::storage_records::verif_h::c04_take_free_model)]
#[kani::stub(crate::storage::storage_records::StorageRecords::take_free_after, crate::storage::storage_records::verif_h::c04_take_free_after_model)]
#[kani::stub(crate::storage::storage_records::StorageRecords::mark_free_compact, crate::storage::storage_records::verif_h::c04_mark_free_compact_model)]
#[kani::stub(crate::storage::storage_records::StorageRecords::mark_free, crate::storage::storage_records::verif_h::c04_mark_free_model)]
#[kani::stub(crate::storage::storage_records::StorageRecords::clear_free, crate::storage::storage_records::verif_h::c04_clear_free_model)]
#[kani::stub(crate::storage::storage_records::StorageRecords::free_size, crate::storage::storage_records::verif_h::c04_free_size_model)]
#[kani::stub(alloc::slice::stable_sort, c04_stable_sort_stub)]
#[kani::unwind(50)]
fn c32_fail_optimize() {
    let mut seen_first = false;
    let mut seen_last = false;
    let mut seen_none = false;
    let mut k: u32 = 0;
    while k <= 3 {
        let (mut s, _m) = c04_prefix(6);
        let payload: [u8; C04_MAXP] = kani::any();
        let fail_at = c32_arm(&mut s, k);
        let r = s.optimize_storage();
        let (failed, calls) = c32_after(&mut s, r, fail_at);
        seen_first |= failed && fail_at == 0;
        seen_last |= failed && fail_at + 1 == 3;
        seen_none |= !failed && calls == 3;
        std::mem::forget(s);
        k += 1;
    }
    kani::cover!(seen_first, "first back-end call of the operation fails");
    kani::cover!(seen_last, "last back-end call of the operation fails");
    kani::cover!(seen_none, "no failure injected");
    kani::cover!(true, "end of harness reachable");
}

//@ id=C07 tier=quick timeout=900 cbmc="--max-field-sensitivity-array-size 200" args="--no-assertion-reach-checks" bounds="valid image [version][index 1: 8 bytes][index 3: 1 byte] (65 bytes), value bytes symbolic, truncated at the lengths 0 15 24 40 44 47 64 65 (the points where ArrStorage, which does not bound reads by the file length, can still tell: record value cut short); back end ArrStorage (its reads are bounded by the 192-byte array, not by the file length); read arguments: all u64; free index = contract model" desc="Storage::with_data on a truncated file returns Ok or Err without panic or overflow; if it opens, every record of the table lies inside the file and every read entry point returns Ok or Err" kernel="Storage::with_data,Storage::read_records,Storage::read_record,Storage::extract_version,Storage::validate_or_update_version,StorageRecords::set_record,StorageRecords::rebuild_free_index,StorageRecords::record,Storage::value_size,Storage::value_as_bytes,Storage::value_as_bytes_at,Storage::value_as_bytes_at_size,Storage::validate_read_size"
#[kani::proof]
#[kani::stub(std::fmt::format, crate::verif_support::fmt_stub)]
#[kani::stub(crate::DbError::new, crate::verif_support::dberror_new_stub)]
#[kani::stub(crate::storage::storage_records::StorageRecords::take_free, crate::storage::storage_records::verif_h::c04_take_free_model)]
#[kani::stub(crate::storage::storage_records::StorageRecords::take_free_after, crate::storage::storage_records::verif_h::c04_take_free_after_model)]
#[kani::stub(crate::storage::storage_records::StorageRecords::mark_free_compact, crate::storage::storage_records::verif_h::c04_mark_free_compact_model)]
#[kani::stub(crate::storage::storage_records::StorageRecords::mark_free, crate::storage::storage_records::verif_h::c04_mark_free_model)]
#[kani::stub(crate::storage::storage_records::StorageRecords::clear_free, crate::storage::storage_records::verif_h::c04_clear_free_model)]
#[kani::stub(crate::storage::storage_records::StorageRecords::free_size, crate::storage::storage_records::verif_h::c04_free_size_model)]
#[kani::stub(alloc::slice::stable_sort, c04_stable_sort_stub)]
#[kani::stub(<crate::DbError as std::convert::From<std::array::TryFromSliceError>>::from, crate::verif_support::sliceerr_stub)]
#[kani::unwind(10)]
fn c07_arr_truncated() {
    let img = c07_valid_image();
    // symbolic choice of the truncation point, one concrete run per point (a
    // panic at one length must not hide the others)
    let points: [usize; 8] = [0, 15, 24, 40, 44, 47, 64, 65];
    let pick: usize = kani::any();
    kani::assume(pick < 8);
    let mut opened = false;
    let mut k = 0usize;
    while k < 8 {
        if pick == k {
            opened = c07_open_case(c07_arr(&img, points[k]), 1);
        }
        k += 1;
    }
    kani::cover!(opened && pick == 7, "the untruncated file opens");
    kani::cover!(true, "end of harness reachable");
}

//@ id=C07 tier=quick timeout=900 cbmc="--max-field-sensitivity-array-size 200" args="--no-assertion-reach-checks" bounds="valid image [version][index 1: 8 bytes][index 3: 1 byte] (65 bytes), value bytes symbolic, with the size field of the last record (1 byte remains in the file) replaced by 2, 17, 33, 34, 2^63, 2^64-1 (symbolic choice, concrete run each) or left at 1; back end ArrStorage; free index = contract model" desc="Storage::with_data on a file whose last record claims more bytes than the file holds returns Ok or Err without panic or overflow; if it opens, every record of the table lies inside the file and every read entry point returns Ok or Err" kernel="Storage::with_data,Storage::read_records,Storage::read_record,Storage::extract_version,Storage::validate_or_update_version,StorageRecords::set_record,StorageRecords::rebuild_free_index,StorageRecords::record,Storage::value_size,Storage::value_as_bytes,Storage::value_as_bytes_at,Storage::value_as_bytes_at_size,Storage::validate_read_size"
#[kani::proof]
#[kani::stub(std::fmt::format, crate::verif_support::fmt_stub)]
#[kani::stub(crate::DbError::new, crate::verif_support::dberror_new_stub)]
#[kani::stub(crate::storage::storage_records::StorageRecords::take_free, crate::storage::storage_records::verif_h::c04_take_free_model)]
#[kani::stub(crate::storage::storage_records::StorageRecords::take_free_after, crate::storage::storage_records::verif_h::c04_take_free_after_model)]
#[kani::stub(crate::storage::storage_records::StorageRecords::mark_free_compact, crate::storage::storage_records::verif_h::c04_mark_free_compact_model)]
#[kani::stub(crate::storage::storage_records::StorageRecords::mark_free, crate::storage::storage_records::verif_h::c04_mark_free_model)]
#[kani::stub(crate::storage::storage_records::StorageRecords::clear_free, crate::storage::storage_records::verif_h::c04_clear_free_model)]
#[kani::stub(crate::storage::storage_records::StorageRecords::free_size, crate::storage::storage_records::verif_h::c04_free_size_model)]
#[kani::stub(alloc::slice::stable_sort, c04_stable_sort_stub)]
#[kani::stub(<crate::DbError as std::convert::From<std::array::TryFromSliceError>>::from, crate::verif_support::sliceerr_stub)]
#[kani::unwind(10)]
fn c07_arr_bad_record_size() {
    let base = c07_valid_image();
    let cases: [u64; 7] = [1, 2, 17, 33, 34, 1 << 63, u64::MAX];
    let pick: usize = kani::any();
    kani::assume(pick < 7);
    let mut opened = false;
    let mut k = 0usize;
    while k < 7 {
        if pick == k {
            let mut img = base;
            c07_put64(&mut img, C07_F_REC2_SIZE, cases[k]);
            opened = c07_open_case(c07_arr(&img, C07_VALID_LEN), 3);
        }
        k += 1;
    }
    kani::cover!(opened && pick == 0, "the undamaged file opens");
    kani::cover!(!opened && pick == 6, "a size of 2^64-1 is rejected");
    kani::cover!(true, "end of harness reachable");
}

