// harnesses mounted as child module of agdb/src/storage.rs
#[allow(unused_imports)]
use super::*;
