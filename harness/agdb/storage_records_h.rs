// harnesses mounted as child module of agdb/src/storage/storage_records.rs
#[allow(unused_imports)]
use super::*;
