// harnesses mounted as child module of agdb/src/storage/storage_records.rs
#[allow(unused_imports)]
use super::*;

// ---------------------------------------------------------------------------
// Contract model of the free-space index of `StorageRecords`
// ---------------------------------------------------------------------------
//
// Measured (see report): `BTreeMap<u64, BTreeSet<u64>>` (field `free_size_pos`)
// cannot be executed by CBMC -- a single `entry(k).or_default().insert(p)` runs
// out of 10 GB in propositional reduction (the root pointer of the set nested in
// the map node is not constant-propagated and symex explores the node-split path
// on a garbage pointer). The harnesses of `Storage` therefore replace the six
// functions of `StorageRecords` that touch the two BTree indexes by the model
// below (a plain list of regions), which is written from their documented
// behaviour:
//   take_free(min)            smallest region with size == min or size >= min+16, removed
//   take_free_after(end, min) region starting at `end` with 16+size == min or size >= min, removed
//   mark_free_compact(p, s)   union of [p, p+16+s) with every free region touching it, registered
//   mark_free(p, s)           region registered as is (reopen path, `set_record`)
//   clear_free()              no free region
//   free_size()               sum of the sizes of the free regions
// Everything else of `StorageRecords` (record table, index free list, `records`,
// `set_record`, `rebuild_free_index`, `record`, `set_pos`, `set_size`) is the real code.

pub(crate) const C04_FCAP: usize = 4;

pub(crate) struct C04FreeModel {
    pub n: usize,
    pub pos: [u64; C04_FCAP],
    pub size: [u64; C04_FCAP],
    pub total: u64,
}

pub(crate) static mut C04_FM: C04FreeModel = C04FreeModel {
    n: 0,
    pos: [0; C04_FCAP],
    size: [0; C04_FCAP],
    total: 0,
};

pub(crate) fn c04_fm() -> &'static mut C04FreeModel {
    unsafe { &mut *std::ptr::addr_of_mut!(C04_FM) }
}

impl C04FreeModel {
    pub(crate) fn reset(&mut self) {
        self.n = 0;
        self.total = 0;
    }

    fn push(&mut self, pos: u64, size: u64) {
        assert!(self.n < C04_FCAP, "harness bound: more free regions than the model holds");
        self.pos[self.n] = pos;
        self.size[self.n] = size;
        self.n += 1;
        self.total += size;
    }

    fn take(&mut self, i: usize) -> (u64, u64) {
        let r = (self.pos[i], self.size[i]);
        self.n -= 1;
        self.pos[i] = self.pos[self.n];
        self.size[i] = self.size[self.n];
        self.total -= r.1;
        r
    }

    fn find_pos(&self, pos: u64) -> Option<usize> {
        let mut i = 0;
        let mut r = None;
        while i < C04_FCAP {
            if i < self.n && self.pos[i] == pos {
                r = Some(i);
            }
            i += 1;
        }
        r
    }

    fn find_end(&self, end: u64) -> Option<usize> {
        let mut i = 0;
        let mut r = None;
        while i < C04_FCAP {
            if i < self.n && self.pos[i] + STORAGE_RECORD_SIZE + self.size[i] == end {
                r = Some(i);
            }
            i += 1;
        }
        r
    }

    pub(crate) fn has(&self, pos: u64, size: u64) -> bool {
        match self.find_pos(pos) {
            Some(i) => self.size[i] == size,
            None => false,
        }
    }
}

pub(crate) fn c04_take_free_model(_r: &mut StorageRecords, min_size: u64) -> Option<(u64, u64)> {
    let m = c04_fm();
    let mut best: Option<usize> = None;
    let mut i = 0;
    while i < C04_FCAP {
        if i < m.n && (m.size[i] == min_size || m.size[i] >= min_size + STORAGE_RECORD_SIZE) {
            best = match best {
                None => Some(i),
                Some(b) => {
                    if m.size[i] < m.size[b] || (m.size[i] == m.size[b] && m.pos[i] < m.pos[b]) {
                        Some(i)
                    } else {
                        Some(b)
                    }
                }
            };
        }
        i += 1;
    }
    match best {
        Some(b) => Some(m.take(b)),
        None => None,
    }
}

pub(crate) fn c04_take_free_after_model(
    _r: &mut StorageRecords,
    end_pos: u64,
    min_size: u64,
) -> Option<(u64, u64)> {
    let m = c04_fm();
    match m.find_pos(end_pos) {
        Some(i) if STORAGE_RECORD_SIZE + m.size[i] == min_size || m.size[i] >= min_size => {
            Some(m.take(i))
        }
        _ => None,
    }
}

pub(crate) fn c04_mark_free_compact_model(_r: &mut StorageRecords, pos: u64, size: u64) -> (u64, u64) {
    let m = c04_fm();
    let mut pos = pos;
    let mut end_pos = pos + STORAGE_RECORD_SIZE + size;
    let mut k = 0;
    while k < C04_FCAP {
        if let Some(i) = m.find_pos(end_pos) {
            let (_, s) = m.take(i);
            end_pos += STORAGE_RECORD_SIZE + s;
        }
        k += 1;
    }
    let mut k = 0;
    while k < C04_FCAP {
        if let Some(i) = m.find_end(pos) {
            let (p, _) = m.take(i);
            pos = p;
        }
        k += 1;
    }
    let size = end_pos - pos - STORAGE_RECORD_SIZE;
    m.push(pos, size);
    (pos, size)
}

pub(crate) fn c04_mark_free_model(_r: &mut StorageRecords, pos: u64, size: u64) {
    c04_fm().push(pos, size);
}

pub(crate) fn c04_clear_free_model(_r: &mut StorageRecords) {
    c04_fm().reset();
}

pub(crate) fn c04_free_size_model(_r: &StorageRecords) -> u64 {
    c04_fm().total
}

/// Sets the capacity of the record table to exactly `n` slots (no change of
/// content). 8 slots = 192 bytes stays within the field-sensitivity limit
/// (`--max-field-sensitivity-array-size 200`) the harnesses run with.
pub(crate) fn c04_reserve_table(r: &mut StorageRecords, n: usize) {
    let len = r.records.len();
    assert!(len == 1 && r.records[0].index == 0, "harness: expected a fresh table");
    r.records.reserve_exact(n - len);
    assert!(r.records.capacity() == n, "harness: unexpected table capacity");
    // the reallocation copied slot 0 with a memcpy, after which CBMC no longer
    // sees its (unchanged, all-zero) content as constant: store it again
    r.records[0] = StorageRecord::default();
}

/// Length of the record table (slot 0 included).
pub(crate) fn c04_table_len(r: &StorageRecords) -> usize {
    r.records.len()
}

/// Head of the free-index list (slot 0 of the table).
pub(crate) fn c04_free_index_head(r: &StorageRecords) -> u64 {
    r.records[0].index
}

/// Raw table slot.
pub(crate) fn c04_slot(r: &StorageRecords, i: usize) -> StorageRecord {
    r.records[i]
}

// ===========================================================================
// C04 -- record table half of StorageRecords (real code, symbolic indexes)
// ===========================================================================

fn c04_table_case(i1: u64, i2: u64) {
    const N: usize = 5;
    let r1 = StorageRecord { index: i1, pos: kani::any(), size: kani::any() };
    let r2 = StorageRecord { index: i2, pos: kani::any(), size: kani::any() };
    kani::assume(r1.pos != u64::MAX && r2.pos != u64::MAX && r1.pos < r2.pos);
    let mut t = StorageRecords::new();
    t.set_record(r1);
    t.set_record(r2);
    t.rebuild_free_index();
    let len = t.records.len();
    let max = if i1 > i2 { i1 } else { i2 };
    assert!(len as u64 == max + 1, "table is not sized by the largest loaded index");
    let mut live = [false; N + 3];
    live[i1 as usize] = true;
    live[i2 as usize] = true;
    // exactly the loaded indexes are readable
    let mut i = 0;
    while i < N + 2 {
        match t.record(i as u64) {
            Ok(r) => {
                assert!(live[i], "an index that was not loaded is valid");
                let want = if i as u64 == i1 { r1 } else { r2 };
                assert!(r.index == want.index && r.pos == want.pos && r.size == want.size, "loaded record changed");
            }
            Err(e) => {
                std::mem::forget(e);
                assert!(!live[i], "a loaded index is not valid");
            }
        }
        i += 1;
    }
    let all = t.records();
    assert!(all.len() == 2 && all[0].index == i1 && all[1].index == i2, "records() is not the live records ordered by position");
    std::mem::forget(all);
    // remove one of them: invalid, and reusable
    t.remove_index(i1);
    live[i1 as usize] = false;
    assert!(!crate::verif_support::is_ok(t.record(i1)), "removed index still valid");
    // every unused slot below len is handed out exactly once, then the table grows
    let unused = len - 1 - 1; // slots 1..len minus the one live record
    let mut k = 0;
    while k < N + 1 {
        let r = t.new_record(100 + k as u64, 1);
        let idx = r.index as usize;
        assert!(idx >= 1 && idx < N + 3, "new_record returned index 0 or a wild index");
        assert!(!live[idx], "new_record handed out a live index");
        if k < unused {
            assert!(idx < len, "table grew although an unused index was available");
        } else {
            assert!(idx == len + (k - unused), "table did not grow by one slot");
        }
        live[idx] = true;
        let back = crate::verif_support::ok(t.record(r.index));
        assert!(back.pos == 100 + k as u64 && back.size == 1, "new record not stored");
        k += 1;
    }
    assert!(crate::verif_support::is_ok(t.record(i2)), "untouched record lost");
    std::mem::forget(t);
}

//@ id=C04 tier=quick timeout=900 cbmc="--max-field-sensitivity-array-size 200" args="--no-assertion-reach-checks" bounds="two records with distinct indexes (pairs (1,2) (2,1) (5,1) (1,5) (3,5) (4,2) in load order), symbolic pos/size, loaded into a fresh table; then remove_index and 6 new_record calls" desc="set_record + rebuild_free_index (the reopen path): exactly the loaded indexes are valid and return their record, records() lists them by position, every other slot is on the free-index list; after remove_index, new_record hands out each unused index below the table length exactly once (never a live one) before the table grows by one slot per call" kernel="StorageRecords::set_record,StorageRecords::rebuild_free_index,StorageRecords::new_record,StorageRecords::remove_index,StorageRecords::record,StorageRecords::is_valid,StorageRecords::records"
#[kani::proof]
#[kani::stub(std::fmt::format, crate::verif_support::fmt_stub)]
#[kani::stub(crate::DbError::new, crate::verif_support::dberror_new_stub)]
#[kani::stub(alloc::slice::stable_sort, crate::storage::verif_h::c04_stable_sort_stub)]
#[kani::stub(crate::storage::storage_records::StorageRecords::mark_free, c04_mark_free_model)]
#[kani::unwind(9)]
fn c04_table_rebuild_and_reuse() {
    c04_table_case(1, 2);
    c04_table_case(2, 1);
    c04_table_case(5, 1);
    c04_table_case(1, 5);
    c04_table_case(3, 5);
    c04_table_case(4, 2);
    kani::cover!(true, "end of harness reachable");
}

// ===========================================================================
// C07 -- record table sized by a number read from the file
// ===========================================================================

fn c07_set_record_case(index: u64) {
    c04_fm().reset();
    let rec = StorageRecord {
        index,
        pos: kani::any(),
        size: kani::any(),
    };
    let mut t = StorageRecords::new();
    t.set_record(rec);
    t.rebuild_free_index();
    if rec.index != 0 && rec.pos != u64::MAX {
        let back = crate::verif_support::ok(t.record(rec.index));
        assert!(back.pos == rec.pos && back.size == rec.size, "record not stored under its index");
    }
    std::mem::forget(t);
}

//@ id=C07 tier=quick timeout=300 cbmc="--max-field-sensitivity-array-size 200" args="--no-assertion-reach-checks" bounds="one record into a fresh table, index = 6 (and 0 = free record) (a symbolic index exhausts the solver memory, extreme values are enumerated one per harness), pos and size: all u64; loops bounded by 8 iterations; free index = contract model" desc="StorageRecords::set_record followed by rebuild_free_index with a record whose index (6 (and 0 = free record)) comes from file content does not panic, overflow, or loop / allocate proportionally to the index value" kernel="StorageRecords::set_record,StorageRecords::rebuild_free_index,StorageRecords::remove_index"
#[kani::proof]
#[kani::stub(std::fmt::format, crate::verif_support::fmt_stub)]
#[kani::stub(crate::DbError::new, crate::verif_support::dberror_new_stub)]
#[kani::stub(crate::storage::storage_records::StorageRecords::mark_free, c04_mark_free_model)]
#[kani::unwind(8)]
fn c07_set_record_small() {
    c07_set_record_case(0);
    c07_set_record_case(6);
    kani::cover!(true, "end of harness reachable");
}

//@ id=C07 tier=quick timeout=300 cbmc="--max-field-sensitivity-array-size 200" args="--no-assertion-reach-checks" bounds="one record into a fresh table, index = 2^64-1 (a symbolic index exhausts the solver memory, extreme values are enumerated one per harness), pos and size: all u64; loops bounded by 8 iterations; free index = contract model" desc="StorageRecords::set_record followed by rebuild_free_index with a record whose index (2^64-1) comes from file content does not panic, overflow, or loop / allocate proportionally to the index value" kernel="StorageRecords::set_record,StorageRecords::rebuild_free_index,StorageRecords::remove_index"
#[kani::proof]
#[kani::stub(std::fmt::format, crate::verif_support::fmt_stub)]
#[kani::stub(crate::DbError::new, crate::verif_support::dberror_new_stub)]
#[kani::stub(crate::storage::storage_records::StorageRecords::mark_free, c04_mark_free_model)]
#[kani::unwind(8)]
fn c07_set_record_index_max() {
    c07_set_record_case(u64::MAX);
    kani::cover!(true, "end of harness reachable");
}

//@ id=C07 tier=quick timeout=300 cbmc="--max-field-sensitivity-array-size 200" args="--no-assertion-reach-checks" bounds="one record into a fresh table, index = 2^62 (a symbolic index exhausts the solver memory, extreme values are enumerated one per harness), pos and size: all u64; loops bounded by 8 iterations; free index = contract model" desc="StorageRecords::set_record followed by rebuild_free_index with a record whose index (2^62) comes from file content does not panic, overflow, or loop / allocate proportionally to the index value" kernel="StorageRecords::set_record,StorageRecords::rebuild_free_index,StorageRecords::remove_index"
#[kani::proof]
#[kani::stub(std::fmt::format, crate::verif_support::fmt_stub)]
#[kani::stub(crate::DbError::new, crate::verif_support::dberror_new_stub)]
#[kani::stub(crate::storage::storage_records::StorageRecords::mark_free, c04_mark_free_model)]
#[kani::unwind(8)]
fn c07_set_record_index_2p62() {
    c07_set_record_case(1 << 62);
    kani::cover!(true, "end of harness reachable");
}

//@ id=C07 tier=quick timeout=300 cbmc="--max-field-sensitivity-array-size 200" args="--no-assertion-reach-checks" bounds="one record into a fresh table, index = 2^40 (a symbolic index exhausts the solver memory, extreme values are enumerated one per harness), pos and size: all u64; loops bounded by 8 iterations; free index = contract model" desc="StorageRecords::set_record followed by rebuild_free_index with a record whose index (2^40) comes from file content does not panic, overflow, or loop / allocate proportionally to the index value" kernel="StorageRecords::set_record,StorageRecords::rebuild_free_index,StorageRecords::remove_index"
#[kani::proof]
#[kani::stub(std::fmt::format, crate::verif_support::fmt_stub)]
#[kani::stub(crate::DbError::new, crate::verif_support::dberror_new_stub)]
#[kani::stub(crate::storage::storage_records::StorageRecords::mark_free, c04_mark_free_model)]
#[kani::unwind(8)]
fn c07_set_record_index_2p40() {
    c07_set_record_case(1 << 40);
    kani::cover!(true, "end of harness reachable");
}

