// harnesses mounted as child module of agdb/src/query/query_condition.rs
#[allow(unused_imports)]
use super::*;

// =============================================================================
// C15 — "search conditions select and prune exactly as documented": the
// evaluator kernels that do not need a database object.
//
// Documentation used as the oracle (agdb_web/content/docs/03.references/01.queries.md,
// section "Conditions" / "Truth tables", and the doc comments of
// query_condition.rs / query_builder/where_.rs):
//
//   And:  C,C->C  C,S->S  C,F->F  S,S->S  S,F->F  F,F->F     value: left && right
//   Or:   C,C->C  C,S->C  C,F->C  S,S->S  S,F->S  F,F->F     value: left || right
//   (the documentation lists the six unordered pairs: the tables are symmetric)
//   Not: `!` (flips the value, keeps the control kind)
//   "The condition comparators are type strict meaning that they do not perform
//   type conversions nor coercion (e.g. Comparison::Equal(1_i64).compare(1_u64)
//   will evaluate to false). Slight exception ... Comparison::Contains as it
//   allows vectorized version of the base type ... StartsWith and EndsWith are
//   provided with the same semantics ... (both single value and vectorized and
//   vice versa)"; `Comparison` doc: "does not support the bytes and integral
//   types where the contains makes little sense".
// =============================================================================

use std::cmp::Ordering;

pub(crate) const C15_C: u8 = 0; // Continue
pub(crate) const C15_F: u8 = 1; // Finish
pub(crate) const C15_S: u8 = 2; // Stop

// Documented truth tables, transcribed as data: [left kind][right kind] -> kind
pub(crate) const C15_AND: [[u8; 3]; 3] = [
    //            right: C      F      S
    /* left C */ [C15_C, C15_F, C15_S],
    /* left F */ [C15_F, C15_F, C15_F],
    /* left S */ [C15_S, C15_F, C15_S],
];
pub(crate) const C15_OR: [[u8; 3]; 3] = [
    //            right: C      F      S
    /* left C */ [C15_C, C15_C, C15_C],
    /* left F */ [C15_C, C15_F, C15_S],
    /* left S */ [C15_C, C15_S, C15_S],
];

pub(crate) fn c15_mk(kind: u8, v: bool) -> SearchControl {
    match kind {
        C15_C => SearchControl::Continue(v),
        C15_F => SearchControl::Finish(v),
        _ => SearchControl::Stop(v),
    }
}

pub(crate) fn c15_kind(c: &SearchControl) -> u8 {
    match c {
        SearchControl::Continue(_) => C15_C,
        SearchControl::Finish(_) => C15_F,
        SearchControl::Stop(_) => C15_S,
    }
}

pub(crate) fn c15_val(c: &SearchControl) -> bool {
    match c {
        SearchControl::Continue(v) | SearchControl::Finish(v) | SearchControl::Stop(v) => *v,
    }
}

//@ id=C15 tier=quick timeout=300 bounds="all 6x6 pairs of {Continue,Finish,Stop}x{true,false} (symbolic)" desc="SearchControl::and / or / flip / is_true / set_value agree with the documented truth tables (transcribed as data) for every pair of control values" kernel="SearchControl::and,SearchControl::or,SearchControl::flip,SearchControl::is_true,SearchControl::set_value" args="--no-assertion-reach-checks"
#[kani::proof]
fn c15_search_control_truth_tables() {
    let lk: u8 = kani::any();
    let rk: u8 = kani::any();
    kani::assume(lk < 3 && rk < 3);
    let lv: bool = kani::any();
    let rv: bool = kani::any();
    let left = c15_mk(lk, lv);
    let right = c15_mk(rk, rv);

    let a = left.and(right);
    assert!(c15_kind(&a) == C15_AND[lk as usize][rk as usize], "and: control kind differs from the documented table");
    assert!(c15_val(&a) == (lv && rv), "and: value is not left && right");

    let o = left.or(right);
    assert!(c15_kind(&o) == C15_OR[lk as usize][rk as usize], "or: control kind differs from the documented table");
    assert!(c15_val(&o) == (lv || rv), "or: value is not left || right");

    // the documented tables are unordered pairs: both operators are commutative
    assert!(right.and(left) == a, "and is not symmetric");
    assert!(right.or(left) == o, "or is not symmetric");
    // Continue(true) is the documented starting value: neutral for `and`
    assert!(SearchControl::Continue(true).and(right) == right, "Continue(true) is not neutral for and");

    let mut f = left;
    f.flip();
    assert!(c15_kind(&f) == lk && c15_val(&f) == !lv, "flip must negate the value and keep the kind");
    assert!(left.is_true() == lv, "is_true");
    let mut sv = left;
    sv.set_value(rv);
    assert!(c15_kind(&sv) == lk && c15_val(&sv) == rv, "set_value must keep the kind");

    kani::cover!(lk == C15_F && rk == C15_S, "Finish/Stop pair explored");
    kani::cover!(lk == C15_S && rk == C15_C && lv && !rv, "Stop(true)/Continue(false) explored");
    kani::cover!(true, "end of harness reachable");
}

pub(crate) fn c15_count_cmp(op: u8, n: u64) -> CountComparison {
    match op {
        0 => CountComparison::Equal(n),
        1 => CountComparison::GreaterThan(n),
        2 => CountComparison::GreaterThanOrEqual(n),
        3 => CountComparison::LessThan(n),
        4 => CountComparison::LessThanOrEqual(n),
        _ => CountComparison::NotEqual(n),
    }
}

// arithmetic meaning: `x OP n`
fn c15_arith(op: u8, x: u64, n: u64) -> bool {
    match op {
        0 => x == n,
        1 => x > n,
        2 => x >= n,
        3 => x < n,
        4 => x <= n,
        _ => x != n,
    }
}

//@ id=C15 tier=quick timeout=300 bounds="all six comparison kinds, all u64 pairs" desc="CountComparison::compare(x) (edge_count* conditions) is exactly the arithmetic relation x OP n" kernel="CountComparison::compare" args="--no-assertion-reach-checks"
#[kani::proof]
fn c15_count_compare_arithmetic() {
    let op: u8 = kani::any();
    kani::assume(op < 6);
    let n: u64 = kani::any();
    let x: u64 = kani::any();
    let r = c15_count_cmp(op, n).compare(x);
    assert!(r == c15_arith(op, x, n), "CountComparison::compare differs from the arithmetic relation");
    kani::cover!(op == 2 && x == n, "GreaterThanOrEqual at equality");
    kani::cover!(op == 3 && x == n, "LessThan at equality");
    kani::cover!(true, "end of harness reachable");
}

//@ id=C15 tier=quick timeout=300 bounds="all six comparison kinds, all u64 (distance, n) pairs, one further symbolic deeper distance" desc="CountComparison::compare_distance: selection value is the arithmetic relation; never Finish; Stop only if no deeper element can satisfy the comparison (search stays complete); Equal stops at the distance itself and Equal/LessThan/LessThanOrEqual stop once the distance is past the bound (documented depth limiting); GreaterThan*/NotEqual never stop" kernel="CountComparison::compare_distance" args="--no-assertion-reach-checks"
#[kani::proof]
fn c15_compare_distance_selects_and_prunes() {
    let op: u8 = kani::any();
    kani::assume(op < 6);
    let n: u64 = kani::any();
    let d: u64 = kani::any();
    let c = c15_count_cmp(op, n).compare_distance(d);
    let kind = c15_kind(&c);

    // selection: "if the current distance of the search satisfies the numerical comparison"
    assert!(c15_val(&c) == c15_arith(op, d, n), "distance: selection value differs from the arithmetic relation");
    // "Finish ... is only used internally with offset and limit"
    assert!(kind != C15_F, "distance condition must never yield Finish");
    // completeness of the search: a branch is cut only if nothing deeper can pass
    let deeper: u64 = kani::any();
    if kind == C15_S && deeper > d {
        assert!(!c15_arith(op, deeper, n), "distance: search stopped although a deeper element satisfies the comparison");
    }
    // documented depth limiting ("it tells it when to stop searching",
    // "Search at most to distance 2"): the comparisons with an upper bound stop
    // once the current element fails and nothing at this or a deeper distance can pass
    let upper_bounded = op == 0 || op == 3 || op == 4;
    if upper_bounded && !c15_arith(op, d, n) && d > n {
        assert!(kind == C15_S, "distance: past the bound the search must stop");
    }
    if op == 3 && d == n {
        assert!(kind == C15_S, "distance: LessThan(n) must stop at distance n");
    }
    if op == 0 && d == n {
        assert!(kind == C15_S, "distance: Equal(n) must select and stop at distance n");
    }
    // comparisons without an upper bound never cut the search
    if !upper_bounded {
        assert!(kind == C15_C, "distance: GreaterThan/GreaterThanOrEqual/NotEqual must continue");
    }

    kani::cover!(op == 0 && d == n, "Equal at the distance");
    kani::cover!(op == 4 && d == n, "LessThanOrEqual at the bound");
    kani::cover!(op == 3 && d < n && n - d == 1, "LessThan just below the bound");
    kani::cover!(kind == C15_S && !c15_val(&c), "Stop(false) explored");
    kani::cover!(true, "end of harness reachable");
}

// -----------------------------------------------------------------------------
// Comparison::compare over symbolic DbValue
// -----------------------------------------------------------------------------

const C15_BYTES: u8 = 0;
const C15_I64: u8 = 1;
const C15_U64: u8 = 2;
const C15_F64: u8 = 3;
const C15_STRING: u8 = 4;
const C15_VEC_I64: u8 = 5;
const C15_VEC_U64: u8 = 6;
const C15_VEC_F64: u8 = 7;
const C15_VEC_STRING: u8 = 8;

// Plain model of a DbValue with small payload; `c15_build` makes the real one.
#[derive(Clone, Copy)]
struct C15Val {
    tag: u8,
    n: usize,            // number of bytes (Bytes, <= 3) / elements (Vec*, <= 2)
    b: [u8; 3],          // Bytes payload
    w: [u64; 2],         // I64 / U64 / F64 (raw bits), scalars use w[0]
    s: [[u8; 2]; 2],     // String (s[0]) / VecString, ASCII
    sl: [usize; 2],      // string lengths <= 2
}

// `tag` may be concrete (the harness loops over variants) or symbolic
fn c15_any_val(tag: u8) -> C15Val {
    let v = C15Val {
        tag,
        n: kani::any(),
        b: kani::any(),
        w: kani::any(),
        s: kani::any(),
        sl: kani::any(),
    };
    kani::assume(v.tag <= 8);
    kani::assume(v.n <= if v.tag == C15_BYTES { 3 } else { 2 });
    kani::assume(v.sl[0] <= 2 && v.sl[1] <= 2);
    kani::assume(v.s[0][0] < 128 && v.s[0][1] < 128 && v.s[1][0] < 128 && v.s[1][1] < 128);
    v
}

fn c15_string(bytes: &[u8; 2], len: usize) -> String {
    let mut v: Vec<u8> = Vec::with_capacity(2);
    let mut i = 0;
    while i < len {
        v.push(bytes[i]);
        i += 1;
    }
    // ASCII only (assumed in c15_any_val)
    unsafe { String::from_utf8_unchecked(v) }
}

fn c15_build(v: &C15Val) -> DbValue {
    match v.tag {
        C15_BYTES => {
            let mut x: Vec<u8> = Vec::with_capacity(3);
            let mut i = 0;
            while i < v.n {
                x.push(v.b[i]);
                i += 1;
            }
            DbValue::Bytes(x)
        }
        C15_I64 => DbValue::I64(v.w[0] as i64),
        C15_U64 => DbValue::U64(v.w[0]),
        C15_F64 => DbValue::F64(f64::from_bits(v.w[0]).into()),
        C15_STRING => DbValue::String(c15_string(&v.s[0], v.sl[0])),
        C15_VEC_I64 => {
            let mut x: Vec<i64> = Vec::with_capacity(2);
            let mut i = 0;
            while i < v.n {
                x.push(v.w[i] as i64);
                i += 1;
            }
            DbValue::VecI64(x)
        }
        C15_VEC_U64 => {
            let mut x: Vec<u64> = Vec::with_capacity(2);
            let mut i = 0;
            while i < v.n {
                x.push(v.w[i]);
                i += 1;
            }
            DbValue::VecU64(x)
        }
        C15_VEC_F64 => {
            let mut x: Vec<crate::DbF64> = Vec::with_capacity(2);
            let mut i = 0;
            while i < v.n {
                x.push(f64::from_bits(v.w[i]).into());
                i += 1;
            }
            DbValue::VecF64(x)
        }
        _ => {
            let mut x: Vec<String> = Vec::with_capacity(2);
            let mut i = 0;
            while i < v.n {
                x.push(c15_string(&v.s[i], v.sl[i]));
                i += 1;
            }
            DbValue::VecString(x)
        }
    }
}

// The operator is always CONCRETE at the call site (a symbolic operator makes
// CBMC execute every arm of `Comparison::compare`, incl. `str::contains`, for
// every call). `compare` borrows; the value is handed back for the next operator.
fn c15_compare_with(op: u8, left: &DbValue, right: DbValue) -> (bool, DbValue) {
    let cmp = match op {
        0 => Comparison::Equal(right),
        1 => Comparison::GreaterThan(right),
        2 => Comparison::GreaterThanOrEqual(right),
        3 => Comparison::LessThan(right),
        4 => Comparison::LessThanOrEqual(right),
        5 => Comparison::NotEqual(right),
        6 => Comparison::Contains(right),
        7 => Comparison::StartsWith(right),
        _ => Comparison::EndsWith(right),
    };
    let got = cmp.compare(left);
    let right = match cmp {
        Comparison::Equal(v)
        | Comparison::GreaterThan(v)
        | Comparison::GreaterThanOrEqual(v)
        | Comparison::LessThan(v)
        | Comparison::LessThanOrEqual(v)
        | Comparison::NotEqual(v)
        | Comparison::Contains(v)
        | Comparison::StartsWith(v)
        | Comparison::EndsWith(v) => v,
    };
    (got, right)
}

// IEEE-754 totalOrder on raw bits (what `DbF64` documents: `f64::total_cmp`),
// written as sign/magnitude comparison.
fn c15_f64_total(a: u64, b: u64) -> Ordering {
    const MAG: u64 = u64::MAX >> 1;
    let (na, nb) = (a >> 63 == 1, b >> 63 == 1);
    let (ma, mb) = (a & MAG, b & MAG);
    match (na, nb) {
        (false, false) => ma.cmp(&mb),
        (true, true) => mb.cmp(&ma),
        (true, false) => Ordering::Less,
        (false, true) => Ordering::Greater,
    }
}

// lexicographic, shorter prefix first; lengths <= 3. Arrays by value and explicit
// indices on purpose: with sub-slices taken at a symbolic index
// (`&a.s[i][..len]`) CBMC produced a spurious counterexample for this reference.
fn c15_bytes_cmp(a: [u8; 3], alen: usize, b: [u8; 3], blen: usize) -> Ordering {
    let mut i = 0;
    while i < 3 {
        if i < alen && i < blen && a[i] != b[i] {
            return if a[i] < b[i] { Ordering::Less } else { Ordering::Greater };
        }
        if i >= alen || i >= blen {
            break;
        }
        i += 1;
    }
    alen.cmp(&blen)
}

fn c15_str3(v: &C15Val, i: usize) -> ([u8; 3], usize) {
    let (s, l) = if i == 0 { (v.s[0], v.sl[0]) } else { (v.s[1], v.sl[1]) };
    ([s[0], s[1], 0], l)
}

fn c15_elem_cmp(tag: u8, a: &C15Val, i: usize, b: &C15Val, j: usize) -> Ordering {
    let (wa, wb) = (if i == 0 { a.w[0] } else { a.w[1] }, if j == 0 { b.w[0] } else { b.w[1] });
    match tag {
        C15_I64 | C15_VEC_I64 => (wa as i64).cmp(&(wb as i64)),
        C15_U64 | C15_VEC_U64 => wa.cmp(&wb),
        C15_F64 | C15_VEC_F64 => c15_f64_total(wa, wb),
        _ => {
            let (sa, la) = c15_str3(a, i);
            let (sb, lb) = c15_str3(b, j);
            c15_bytes_cmp(sa, la, sb, lb)
        }
    }
}

// The payload's own order for two values of the SAME variant.
fn c15_same_variant_cmp(a: &C15Val, b: &C15Val) -> Ordering {
    match a.tag {
        C15_BYTES => c15_bytes_cmp(a.b, a.n, b.b, b.n),
        C15_I64 | C15_U64 | C15_F64 | C15_STRING => c15_elem_cmp(a.tag, a, 0, b, 0),
        _ => {
            // vectors: lexicographic over elements, shorter prefix first
            let mut i = 0;
            while i < 2 {
                if i >= a.n || i >= b.n {
                    break;
                }
                let o = c15_elem_cmp(a.tag, a, i, b, i);
                if o != Ordering::Equal {
                    return o;
                }
                i += 1;
            }
            a.n.cmp(&b.n)
        }
    }
}

fn c15_order_holds(op: u8, o: Ordering) -> bool {
    match op {
        0 => o == Ordering::Equal,
        1 => o == Ordering::Greater,
        2 => o != Ordering::Less,
        3 => o == Ordering::Less,
        4 => o != Ordering::Greater,
        _ => o != Ordering::Equal,
    }
}

// All six relational operators on one pair of values of the same (concrete) variant.
// Returns (LessThan, GreaterThan, model left, model right) for the covers.
fn c15_same_type_body(tag: u8) -> (bool, bool, C15Val, C15Val) {
    let l = c15_any_val(tag);
    let r = c15_any_val(tag);
    let left = c15_build(&l);
    let right = c15_build(&r);
    let order = c15_same_variant_cmp(&l, &r);
    let (eq, right) = c15_compare_with(0, &left, right);
    let (gt, right) = c15_compare_with(1, &left, right);
    let (ge, right) = c15_compare_with(2, &left, right);
    let (lt, right) = c15_compare_with(3, &left, right);
    let (le, right) = c15_compare_with(4, &left, right);
    let (ne, right) = c15_compare_with(5, &left, right);
    assert!(eq == c15_order_holds(0, order), "same type: Equal differs from the payload's own order");
    assert!(gt == c15_order_holds(1, order), "same type: GreaterThan differs from the payload's own order");
    assert!(ge == c15_order_holds(2, order), "same type: GreaterThanOrEqual differs from the payload's own order");
    assert!(lt == c15_order_holds(3, order), "same type: LessThan differs from the payload's own order");
    assert!(le == c15_order_holds(4, order), "same type: LessThanOrEqual differs from the payload's own order");
    assert!(ne == c15_order_holds(5, order), "same type: NotEqual differs from the payload's own order");
    std::mem::forget(left);
    std::mem::forget(right);
    (lt, gt, l, r)
}

//@ id=C15 tier=quick timeout=900 bounds="both sides I64 / U64 / F64 (any 64 bits, incl. NaN, -0) / String (<= 2 ASCII bytes) / Bytes (<= 3 bytes); all of Equal,GreaterThan,GreaterThanOrEqual,LessThan,LessThanOrEqual,NotEqual on each pair" desc="Comparison::compare between scalar values of the same type agrees with the payload's own order: integers numerically, f64 by IEEE total order (as DbF64 documents), strings and bytes lexicographically" kernel="Comparison::compare" args="--no-assertion-reach-checks"
#[kani::proof]
#[kani::unwind(5)]
fn c15_compare_same_type_scalars() {
    let (lt, _, l, r) = c15_same_type_body(C15_I64);
    kani::cover!((l.w[0] as i64) < 0 && r.w[0] == 0 && lt, "negative i64 below zero");
    let (lt, _, l, r) = c15_same_type_body(C15_U64);
    kani::cover!(lt && l.w[0] == 0 && r.w[0] == u64::MAX, "u64 extremes");
    let (lt, _, l, r) = c15_same_type_body(C15_F64);
    kani::cover!(lt && (l.w[0] >> 63) == 1 && (r.w[0] >> 63) == 1, "two negative f64");
    kani::cover!(lt && l.w[0] == 1u64 << 63 && r.w[0] == 0, "-0.0 < +0.0 in the total order");
    let (_, gt, l, r) = c15_same_type_body(C15_STRING);
    kani::cover!(gt && l.sl[0] == 2 && r.sl[0] == 1, "longer string with equal prefix is greater");
    let (_, gt, l, r) = c15_same_type_body(C15_BYTES);
    kani::cover!(gt && l.n == 3 && r.n == 2, "Bytes: longer value with equal prefix is greater");
    kani::cover!(true, "end of harness reachable");
}

//@ id=C15 tier=quick timeout=900 bounds="both sides VecI64 / VecU64 / VecF64 with <= 2 elements (any 64 bits); all six relational operators on each pair" desc="Comparison::compare between numeric vectors of the same type is the lexicographic order of the elements' own order (f64: total order), shorter prefix first" kernel="Comparison::compare" cbmc="--unwindset memcmp.0:18" args="--no-assertion-reach-checks"
#[kani::proof]
#[kani::unwind(5)]
fn c15_compare_same_type_numeric_vectors() {
    let (lt, _, l, r) = c15_same_type_body(C15_VEC_I64);
    kani::cover!(lt && l.n == 2 && r.n == 2 && l.w[0] == r.w[0], "VecI64 decided by the second element");
    let (_, gt, l, r) = c15_same_type_body(C15_VEC_U64);
    kani::cover!(gt && l.n == 2 && r.n == 1, "VecU64: longer vector with equal prefix is greater");
    let (lt, gt, l, r) = c15_same_type_body(C15_VEC_F64);
    kani::cover!(!lt && !gt && l.n == 2, "equal f64 vectors");
    kani::cover!(true, "end of harness reachable");
}

//@ id=C15 tier=quick timeout=900 bounds="both sides VecString with <= 2 strings of <= 2 ASCII bytes; all six relational operators" desc="Comparison::compare between string vectors is the lexicographic order of the strings' own (bytewise) order, shorter prefix first" kernel="Comparison::compare" args="--no-assertion-reach-checks"
#[kani::proof]
#[kani::unwind(5)]
fn c15_compare_same_type_string_vectors() {
    let (_, gt, l, r) = c15_same_type_body(C15_VEC_STRING);
    kani::cover!(gt && l.n == 2 && r.n == 2 && l.sl[0] == r.sl[0] && l.s[0][0] == r.s[0][0] && l.sl[0] == 1, "VecString GreaterThan decided by the second string");
    kani::cover!(true, "end of harness reachable");
}

//@ id=C15 tier=quick timeout=900 bounds="two DbValues of DIFFERENT variants (symbolic, all 9x8 pairs), small payloads as above; Equal and NotEqual on each pair" desc="type strictness of equality: between values of different types Equal is false and NotEqual is true" kernel="Comparison::compare" args="--no-assertion-reach-checks"
#[kani::proof]
#[kani::unwind(5)]
fn c15_compare_equality_is_type_strict() {
    let l = c15_any_val(kani::any());
    let r = c15_any_val(kani::any());
    kani::assume(l.tag != r.tag);
    let left = c15_build(&l);
    let right = c15_build(&r);
    let (eq, right) = c15_compare_with(0, &left, right);
    let (ne, right) = c15_compare_with(5, &left, right);
    assert!(!eq, "Equal holds between values of different types");
    assert!(ne, "NotEqual does not hold between values of different types");
    kani::cover!(l.tag == C15_I64 && r.tag == C15_U64 && l.w[0] == r.w[0], "1_i64 vs 1_u64 (the documented example)");
    kani::cover!(l.tag == C15_VEC_U64 && r.tag == C15_VEC_I64 && l.n == 0 && r.n == 0, "empty vectors of different types");
    kani::cover!(true, "end of harness reachable");
    std::mem::forget(left);
    std::mem::forget(right);
}

//@ id=C15 tier=quick timeout=900 bounds="two DbValues of DIFFERENT variants (symbolic, all 9x8 pairs), small payloads as above; GreaterThan, GreaterThanOrEqual, LessThan, LessThanOrEqual on each pair" desc="type strictness of the ordering comparisons: between values of different types GreaterThan, GreaterThanOrEqual, LessThan, LessThanOrEqual are all false (no coercion, no ordering by kind of value)" kernel="Comparison::compare" args="--no-assertion-reach-checks"
#[kani::proof]
#[kani::unwind(5)]
fn c15_compare_ordering_is_type_strict() {
    let l = c15_any_val(kani::any());
    let r = c15_any_val(kani::any());
    kani::assume(l.tag != r.tag);
    let left = c15_build(&l);
    let right = c15_build(&r);
    let (gt, right) = c15_compare_with(1, &left, right);
    let (ge, right) = c15_compare_with(2, &left, right);
    let (lt, right) = c15_compare_with(3, &left, right);
    let (le, right) = c15_compare_with(4, &left, right);
    // one assertion per path so that every operator is reported on its own
    // (Kani assumes an assertion's condition after checking it)
    let which: u8 = kani::any();
    match which {
        1 => assert!(!gt, "GreaterThan holds between values of different types"),
        2 => assert!(!ge, "GreaterThanOrEqual holds between values of different types"),
        3 => assert!(!lt, "LessThan holds between values of different types"),
        _ => assert!(!le, "LessThanOrEqual holds between values of different types"),
    }
    kani::cover!(l.tag == C15_U64 && r.tag == C15_I64, "u64 property vs i64 value (the probe of the property)");
    kani::cover!(l.tag == C15_BYTES && r.tag == C15_I64, "bytes property vs i64 value");
    kani::cover!(true, "end of harness reachable");
    std::mem::forget(left);
    std::mem::forget(right);
}

// ---- Contains / StartsWith / EndsWith ---------------------------------------

// Documented supported (property, this) pairs: String with String or
// VecString; a vector with its element type or the same vector type; for
// element types i64, u64, f64, string. Bytes and scalar numbers as the
// property are not supported ("does 3 contain 1?").
fn c15_contains_pair_supported(l: u8, r: u8) -> bool {
    match (l, r) {
        (C15_STRING, C15_STRING) | (C15_STRING, C15_VEC_STRING) => true,
        (C15_VEC_I64, C15_I64) | (C15_VEC_I64, C15_VEC_I64) => true,
        (C15_VEC_U64, C15_U64) | (C15_VEC_U64, C15_VEC_U64) => true,
        (C15_VEC_F64, C15_F64) | (C15_VEC_F64, C15_VEC_F64) => true,
        (C15_VEC_STRING, C15_STRING) | (C15_VEC_STRING, C15_VEC_STRING) => true,
        _ => false,
    }
}

//@ id=C15 tier=quick timeout=1500 bounds="every one of the 71 (property, value) variant pairs outside the ten documented supported pairs (concrete loop); one symbolic small payload per variant and side (shared between the pairs); Contains, StartsWith, EndsWith on each pair" desc="type strictness of Contains/StartsWith/EndsWith: false for every (property, value) type pair other than the documented vector/element and string pairs" kernel="Comparison::compare" args="--no-assertion-reach-checks"
#[kani::proof]
#[kani::unwind(10)]
fn c15_compare_contains_family_is_type_strict() {
    // one value per variant for each side, built once
    let lefts: [DbValue; 9] = [
        c15_build(&c15_any_val(0)),
        c15_build(&c15_any_val(1)),
        c15_build(&c15_any_val(2)),
        c15_build(&c15_any_val(3)),
        c15_build(&c15_any_val(4)),
        c15_build(&c15_any_val(5)),
        c15_build(&c15_any_val(6)),
        c15_build(&c15_any_val(7)),
        c15_build(&c15_any_val(8)),
    ];
    let mut rights: [Option<DbValue>; 9] = [
        Some(c15_build(&c15_any_val(0))),
        Some(c15_build(&c15_any_val(1))),
        Some(c15_build(&c15_any_val(2))),
        Some(c15_build(&c15_any_val(3))),
        Some(c15_build(&c15_any_val(4))),
        Some(c15_build(&c15_any_val(5))),
        Some(c15_build(&c15_any_val(6))),
        Some(c15_build(&c15_any_val(7))),
        Some(c15_build(&c15_any_val(8))),
    ];
    let mut pairs = 0;
    let mut lt = 0usize;
    while lt <= 8 {
        let mut rt = 0usize;
        while rt <= 8 {
            if !c15_contains_pair_supported(lt as u8, rt as u8) {
                let right = rights[rt].take().unwrap();
                let (c, right) = c15_compare_with(6, &lefts[lt], right);
                let (s, right) = c15_compare_with(7, &lefts[lt], right);
                let (e, right) = c15_compare_with(8, &lefts[lt], right);
                assert!(!c, "Contains holds for an unsupported type pair");
                assert!(!s, "StartsWith holds for an unsupported type pair");
                assert!(!e, "EndsWith holds for an unsupported type pair");
                rights[rt] = Some(right);
                pairs += 1;
            }
            rt += 1;
        }
        lt += 1;
    }
    assert!(pairs == 81 - 10, "ten supported pairs are documented");
    kani::cover!(true, "end of harness reachable");
    std::mem::forget(lefts);
    std::mem::forget(rights);
}

fn c15_elem_eq(tag: u8, a: &C15Val, i: usize, b: &C15Val, j: usize) -> bool {
    c15_elem_cmp(tag, a, i, b, j) == Ordering::Equal
}

// Reference for the supported numeric pairs: left is a vector (<= 2), right is
// one element (rn == None) or a vector.
fn c15_ref_vec_family(op: u8, etag: u8, l: &C15Val, r: &C15Val, r_is_vec: bool) -> bool {
    let rn = if r_is_vec { r.n } else { 1 };
    match op {
        6 => {
            // contains: every right element occurs somewhere in left
            let mut all = true;
            let mut j = 0;
            while j < 2 {
                if j < rn {
                    let mut found = false;
                    let mut i = 0;
                    while i < 2 {
                        if i < l.n && c15_elem_eq(etag, l, i, r, j) {
                            found = true;
                        }
                        i += 1;
                    }
                    if !found {
                        all = false;
                    }
                }
                j += 1;
            }
            all
        }
        7 => {
            // starts_with: right is a prefix of left
            if rn > l.n {
                return false;
            }
            let mut ok = true;
            let mut j = 0;
            while j < 2 {
                if j < rn && !c15_elem_eq(etag, l, j, r, j) {
                    ok = false;
                }
                j += 1;
            }
            ok
        }
        _ => {
            // ends_with: right is a suffix of left
            if rn > l.n {
                return false;
            }
            let off = l.n - rn;
            let mut ok = true;
            let mut j = 0;
            while j < 2 {
                if j < rn && !c15_elem_eq(etag, l, off + j, r, j) {
                    ok = false;
                }
                j += 1;
            }
            ok
        }
    }
}

fn c15_vector_pair_body(ltag: u8, r_is_vec: bool) {
    let etag = ltag - 4; // VecI64 -> I64, VecU64 -> U64, VecF64 -> F64, VecString -> String
    let l = c15_any_val(ltag);
    let r = c15_any_val(if r_is_vec { ltag } else { etag });
    let left = c15_build(&l);
    let right = c15_build(&r);
    let (c, right) = c15_compare_with(6, &left, right);
    let (s, right) = c15_compare_with(7, &left, right);
    let (e, right) = c15_compare_with(8, &left, right);
    assert!(c == c15_ref_vec_family(6, etag, &l, &r, r_is_vec), "vector Contains differs from the documented meaning");
    assert!(s == c15_ref_vec_family(7, etag, &l, &r, r_is_vec), "vector StartsWith differs from the documented meaning");
    assert!(e == c15_ref_vec_family(8, etag, &l, &r, r_is_vec), "vector EndsWith differs from the documented meaning");
    if r_is_vec {
        kani::cover!(c && l.n == 2 && r.n == 2 && !s, "contains all elements in a different order");
        kani::cover!(!s && l.n == 1 && r.n == 2, "longer vector is not a prefix");
        kani::cover!(e && !s && r.n == 1 && l.n == 2, "proper suffix");
    } else {
        kani::cover!(c && s && !e && l.n == 2, "starts with but does not end with the element");
        kani::cover!(e && !s && l.n == 2, "ends with but does not start with the element");
    }
    std::mem::forget(left);
    std::mem::forget(right);
}

//@ id=C15 tier=quick timeout=1200 bounds="property VecI64 / VecU64 / VecF64 with <= 2 elements (any 64 bits), value the element type or the same vector type (<= 2 elements); Contains, StartsWith, EndsWith on each pair" desc="the documented vector/element exception for numeric vectors: contains = every element occurs, starts_with = prefix, ends_with = suffix; f64 elements compared as DbF64 (total order equality)" kernel="Comparison::compare" cbmc="--unwindset memcmp.0:18" args="--no-assertion-reach-checks"
#[kani::proof]
#[kani::unwind(5)]
fn c15_compare_contains_family_numeric_vectors() {
    c15_vector_pair_body(C15_VEC_I64, false);
    c15_vector_pair_body(C15_VEC_I64, true);
    c15_vector_pair_body(C15_VEC_U64, false);
    c15_vector_pair_body(C15_VEC_U64, true);
    c15_vector_pair_body(C15_VEC_F64, false);
    c15_vector_pair_body(C15_VEC_F64, true);
    kani::cover!(true, "end of harness reachable");
}

//@ id=C15 tier=quick timeout=900 bounds="property VecString with <= 2 strings of <= 2 ASCII bytes, value a String or a VecString (<= 2); Contains, StartsWith, EndsWith" desc="the documented vector/element exception for string vectors: contains = every string occurs as an element, starts_with = prefix, ends_with = suffix" kernel="Comparison::compare" args="--no-assertion-reach-checks"
#[kani::proof]
#[kani::unwind(5)]
fn c15_compare_contains_family_string_vectors() {
    c15_vector_pair_body(C15_VEC_STRING, false);
    c15_vector_pair_body(C15_VEC_STRING, true);
    kani::cover!(true, "end of harness reachable");
}


// ---- String property with String / VecString value ---------------------------

// does `needle` occur in `hay` at position `at` (lengths <= 2 / <= 4)
fn c15_occurs_at(hay: &[u8; 4], hay_len: usize, at: usize, needle: [u8; 3], needle_len: usize) -> bool {
    if at + needle_len > hay_len {
        return false;
    }
    let mut ok = true;
    let mut i = 0;
    while i < 2 {
        if i < needle_len && hay[at + i] != needle[i] {
            ok = false;
        }
        i += 1;
    }
    ok
}

fn c15_substring(hay: &[u8; 4], hay_len: usize, needle: [u8; 3], needle_len: usize) -> bool {
    let mut found = false;
    let mut at = 0;
    while at <= 2 {
        if c15_occurs_at(hay, hay_len, at, needle, needle_len) {
            found = true;
        }
        at += 1;
    }
    found
}

// concatenation of the (<= 2) strings of a VecString model: (bytes, len <= 4)
fn c15_concat(r: &C15Val) -> ([u8; 4], usize) {
    let mut out = [0u8; 4];
    let mut len = 0;
    let mut i = 0;
    while i < 2 {
        if i < r.n {
            let (s, l) = c15_str3(r, i);
            if l >= 1 {
                out[len] = s[0];
                len += 1;
            }
            if l >= 2 {
                out[len] = s[1];
                len += 1;
            }
        }
        i += 1;
    }
    (out, len)
}

// is needle[..nl] equal to hay[at..at+nl]  (hay_len <= 2, nl <= 4)
fn c15_matches_at(hay: [u8; 2], hay_len: usize, at: usize, needle: [u8; 4], nl: usize) -> bool {
    if at + nl > hay_len {
        return false;
    }
    let mut ok = true;
    let mut i = 0;
    while i < 2 {
        if i < nl && hay[at + i] != needle[i] {
            ok = false;
        }
        i += 1;
    }
    ok
}

//@ id=C15 tier=quick timeout=900 bounds="property String of <= 2 ASCII bytes, value a String (<= 2 bytes) or a VecString (<= 2 strings of <= 2 bytes); StartsWith, EndsWith" desc="the documented string exception for StartsWith/EndsWith: with a string value = prefix / suffix, with a list of strings = their concatenation is a prefix / suffix" kernel="Comparison::compare" args="--no-assertion-reach-checks"
#[kani::proof]
#[kani::unwind(6)]
fn c15_compare_string_property_starts_ends() {
    let l = c15_any_val(C15_STRING);
    let hay = l.s[0];
    let hay_len = l.sl[0];
    let left = c15_build(&l);
    // value: a single string
    let r = c15_any_val(C15_STRING);
    let (n3, nl) = c15_str3(&r, 0);
    let needle = [n3[0], n3[1], 0, 0];
    let right = c15_build(&r);
    let (s, right) = c15_compare_with(7, &left, right);
    let (e, right) = c15_compare_with(8, &left, right);
    assert!(s == c15_matches_at(hay, hay_len, 0, needle, nl), "String starts_with String is not the prefix relation");
    assert!(e == (nl <= hay_len && c15_matches_at(hay, hay_len, hay_len - if nl <= hay_len { nl } else { 0 }, needle, nl)), "String ends_with String is not the suffix relation");
    kani::cover!(e && !s && hay_len == 2 && nl == 1, "proper suffix");
    kani::cover!(s && e && nl == 0, "empty string is prefix and suffix");
    std::mem::forget(right);
    // value: a list of strings
    let rv = c15_any_val(C15_VEC_STRING);
    let (cat, cl) = c15_concat(&rv);
    let right = c15_build(&rv);
    let (s, right) = c15_compare_with(7, &left, right);
    let (e, right) = c15_compare_with(8, &left, right);
    assert!(s == c15_matches_at(hay, hay_len, 0, cat, cl), "String starts_with [strings] is not 'the concatenation is a prefix'");
    assert!(e == (cl <= hay_len && c15_matches_at(hay, hay_len, hay_len - if cl <= hay_len { cl } else { 0 }, cat, cl)), "String ends_with [strings] is not 'the concatenation is a suffix'");
    kani::cover!(s && rv.n == 2 && rv.sl[0] == 1 && rv.sl[1] == 1, "two one-byte strings concatenated equal the property");
    kani::cover!(!s && cl == 3, "concatenation longer than the property");
    kani::cover!(true, "end of harness reachable");
    std::mem::forget(right);
    std::mem::forget(left);
}

// Not registered: Contains with a String property (String / VecString value).
// `str::contains` (two-way / SIMD searcher) costs 190 s of symbolic execution for
// 2-byte strings; the assertion "contains == substring" was proved (0 of 4433
// checks failed, 230 s) but the solver then ran out of memory (10 GB) on the
// cover checks, so the harness cannot report a conclusive result and was dropped.
