// harnesses mounted as child module of agdb/src/query/query_condition.rs
#[allow(unused_imports)]
use super::*;
