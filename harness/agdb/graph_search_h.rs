// harnesses mounted as child module of agdb/src/graph_search.rs
#[allow(unused_imports)]
use super::*;

use crate::graph::verif_h::{
    ArrG, RefGraph, graph_slot_order, graph_step, new_arr_graph,
};
use crate::verif_support::{ArrStorage, GN, ok};

// ---------------------------------------------------------------------------
// Recording handlers
// ---------------------------------------------------------------------------

pub(crate) const RECN: usize = 2 * GN;

/// What the handler was asked, in order.
pub(crate) struct Rec {
    pub idx: [i64; RECN],
    pub dist: [u64; RECN],
    pub n: usize,
}

impl Rec {
    pub(crate) fn new() -> Self {
        Rec {
            idx: [0; RECN],
            dist: [0; RECN],
            n: 0,
        }
    }
}

/// Per-slot answer: `sel[slot]` = add, `ctl[slot]` = 0 Continue, 1 Stop, 2 Finish.
pub(crate) struct RecHandler<'r> {
    pub rec: &'r mut Rec,
    pub sel: [bool; GN],
    pub ctl: [u8; GN],
}

impl SearchHandler for RecHandler<'_> {
    fn process(&mut self, index: GraphIndex, distance: u64) -> Result<SearchControl, DbError> {
        let n = self.rec.n;
        assert!(n < RECN, "handler called more often than there are elements");
        self.rec.idx[n] = index.0;
        self.rec.dist[n] = distance;
        self.rec.n = n + 1;
        let sl = index.as_u64() as usize;
        assert!(sl >= 1 && sl < GN, "handler given an id outside the slots");
        let add = self.sel[sl];
        Ok(match self.ctl[sl] {
            0 => SearchControl::Continue(add),
            1 => SearchControl::Stop(add),
            _ => SearchControl::Finish(add),
        })
    }
}

// ---------------------------------------------------------------------------
// C18: elements search
// ---------------------------------------------------------------------------

/// Concrete history with a cascade removal and slot reuse: nodes 1,2,3; 1->2; 2->3;
/// remove node 2 (frees three slots); insert node; insert edge 1->3. One slot stays free.
fn c18_history_a(g: &mut ArrG, s: &mut crate::storage::Storage<ArrStorage>, m: &mut RefGraph) {
    graph_step(g, s, m, 0, 0, 0);
    graph_step(g, s, m, 0, 0, 0);
    graph_step(g, s, m, 0, 0, 0);
    graph_step(g, s, m, 1, 1, 2);
    graph_step(g, s, m, 1, 2, 3);
    graph_step(g, s, m, 2, 2, 0);
    graph_step(g, s, m, 0, 0, 0);
    graph_step(g, s, m, 1, 1, 3);
}

/// Concrete history where an edge slot is reused by a node: nodes 1,2; 1->1; remove
/// that edge; insert node (gets slot 3); insert edge 3->1; remove node 2 (slot 2 free).
fn c18_history_b(g: &mut ArrG, s: &mut crate::storage::Storage<ArrStorage>, m: &mut RefGraph) {
    graph_step(g, s, m, 0, 0, 0);
    graph_step(g, s, m, 0, 0, 0);
    graph_step(g, s, m, 1, 1, 1);
    graph_step(g, s, m, 3, -3, 0);
    graph_step(g, s, m, 0, 0, 0);
    graph_step(g, s, m, 1, 3, 1);
    graph_step(g, s, m, 2, 2, 0);
}

fn c18_all(g: &ArrG, s: &crate::storage::Storage<ArrStorage>, m: &RefGraph) -> usize {
    let mut exp = [0i64; GN];
    let n = graph_slot_order(m, &mut exp);
    let mut rec = Rec::new();
    let h = RecHandler {
        rec: &mut rec,
        sel: [true; GN],
        ctl: [0; GN],
    };
    let res = ok(GraphSearch::from((g, s)).elements(h));
    assert!(rec.n == n, "number of examined elements differs from the live elements");
    assert!(res.len() == n, "result length differs from the live elements");
    let mut k = 0;
    while k < m.lim {
        if k < n {
            assert!(rec.idx[k] == exp[k], "examined element differs from slot order");
            assert!(rec.dist[k] == k as u64, "distance is not the position");
            assert!(res[k].0 == exp[k], "result element differs from slot order");
        }
        k += 1;
    }
    std::mem::forget(res);
    n
}

//@ id=C18 tier=quick timeout=600 bounds="three concrete histories: (a) nodes 1,2,3, edges 1->2, 2->3, remove node 2 with its two edges, insert node, insert edge 1->3 (two freed slots reused, one stays free); (b) edge slot reused by a node, later node removal leaves a gap; (c) empty graph; handler always Continue(true)" desc="GraphSearch::elements examines every live element exactly once in increasing slot number (edges negative, removed slots absent) with distance = position, and returns exactly that sequence" kernel="ElementSearch::search,GraphSearch::elements,GraphIterator::next,GraphImpl::next_element" args="--no-assertion-reach-checks" cbmc="--unwindset _RINvNtCs8xvirJzNMvV_4core3ptr9drop_glueNtNtNtCsblifWy3Zr35_4agdb2db8db_error7DbErrorEBH_:1"
#[kani::proof]
#[kani::stub(std::fmt::format, crate::verif_support::fmt_stub)]
#[kani::stub(crate::DbError::new, crate::verif_support::dberror_new_stub)]
#[kani::unwind(8)]
fn c18_elements_all() {
    let mut s = crate::storage::verif_h::fresh_arr_storage();
    let mut g = new_arr_graph();
    let mut m = RefGraph::with_limit(6);
    c18_history_a(&mut g, &mut s, &mut m);
    let n = c18_all(&g, &s, &m);
    assert!(n == 4 && m.cap == 6, "history (a): four live elements in five slots");
    let mut g2 = new_arr_graph();
    let mut m2 = RefGraph::with_limit(6);
    c18_history_b(&mut g2, &mut s, &mut m2);
    let n2 = c18_all(&g2, &s, &m2);
    assert!(n2 == 3 && m2.is_node(3) && m2.is_edge(-4) && !m2.is_node(2), "history (b): node 1, node 3 in a former edge slot, edge -4");
    let g3 = new_arr_graph();
    let m3 = RefGraph::with_limit(6);
    let n3 = c18_all(&g3, &s, &m3);
    assert!(n3 == 0, "empty graph has no elements");
    kani::cover!(true, "end of harness reachable");
    std::mem::forget(s);
}

//@ id=C18 tier=quick timeout=900 bounds="concrete history (a) of c18_elements_all (live: node 1, node 3, one reused node slot, one reused edge slot, one free slot); handler answers per slot with a symbolic boolean and a symbolic control (Continue / Stop / Finish)" desc="GraphSearch::elements returns exactly the selected live elements in slot order; Stop does not end the scan; Finish ends it after the element at which it is returned (which is still included when selected); nothing after it is examined" kernel="ElementSearch::search,GraphSearch::elements,GraphIterator::next,GraphImpl::next_element" args="--no-assertion-reach-checks" cbmc="--unwindset _RINvNtCs8xvirJzNMvV_4core3ptr9drop_glueNtNtNtCsblifWy3Zr35_4agdb2db8db_error7DbErrorEBH_:1"
#[kani::proof]
#[kani::stub(std::fmt::format, crate::verif_support::fmt_stub)]
#[kani::stub(crate::DbError::new, crate::verif_support::dberror_new_stub)]
#[kani::unwind(8)]
fn c18_elements_filtered() {
    let mut s = crate::storage::verif_h::fresh_arr_storage();
    let mut g = new_arr_graph();
    let mut m = RefGraph::with_limit(6);
    c18_history_a(&mut g, &mut s, &mut m);
    let mut exp = [0i64; GN];
    let n = graph_slot_order(&m, &mut exp);
    let mut sel = [false; GN];
    let mut ctl = [0u8; GN];
    sel[1] = kani::any();
    sel[2] = kani::any();
    sel[3] = kani::any();
    sel[4] = kani::any();
    sel[5] = kani::any();
    ctl[1] = kani::any();
    ctl[2] = kani::any();
    ctl[3] = kani::any();
    ctl[4] = kani::any();
    ctl[5] = kani::any();
    let mut rec = Rec::new();
    let h = RecHandler {
        rec: &mut rec,
        sel,
        ctl,
    };
    let res = ok(GraphSearch::from((&g, &s)).elements(h));
    // reference: walk the slot order, stop after the first Finish
    let mut want = [0i64; GN];
    let mut wn = 0;
    let mut examined = 0;
    let mut finished = false;
    let mut k = 0;
    while k < m.lim {
        if k < n && !finished {
            let sl = exp[k].unsigned_abs() as usize;
            examined += 1;
            if sel[sl] {
                want[wn] = exp[k];
                wn += 1;
            }
            if ctl[sl] >= 2 {
                finished = true;
            }
        }
        k += 1;
    }
    assert!(rec.n == examined, "number of examined elements differs");
    assert!(res.len() == wn, "result length differs from the selected elements");
    let mut k = 0;
    while k < m.lim {
        if k < examined {
            assert!(rec.idx[k] == exp[k], "examined element differs from slot order");
        }
        if k < wn {
            assert!(res[k].0 == want[k], "result element differs from the selected elements");
        }
        k += 1;
    }
    kani::cover!(n == 4 && wn == 4, "everything selected");
    kani::cover!(wn == 2 && examined == n && !finished, "a strict subset selected, no Finish");
    kani::cover!(finished && examined == 2 && wn == 1, "Finish at the second element");
    kani::cover!(wn == 0 && examined == n, "nothing selected");
    kani::cover!(true, "end of harness reachable");
    std::mem::forget(res);
    std::mem::forget(s);
}

// ---------------------------------------------------------------------------
// C14: reference traversals (documented semantics, independent formulation)
// ---------------------------------------------------------------------------

/// Newest edge attached to `node` (outgoing, or incoming when `reverse`) that is
/// older than `below`; 0 if there is none.
fn c14_next_edge(m: &RefGraph, node: i64, reverse: bool, below: u32) -> usize {
    let mut best = 0usize;
    let mut best_seq = 0u32;
    let mut i = 1;
    while i < m.lim {
        let at = if reverse { m.et[i] } else { m.ef[i] };
        if m.kind[i] == 2 && at == node && m.seq[i] < below && m.seq[i] >= best_seq {
            best = i;
            best_seq = m.seq[i];
        }
        i += 1;
    }
    best
}

fn c14_push(out: &mut Rec, x: i64, d: u64) {
    out.idx[out.n] = x;
    out.dist[out.n] = d;
    out.n += 1;
}

/// Level-by-level breadth-first order: origin at distance 0; a node's edges
/// (newest first) one step further, an edge's far end one step further; within a
/// level, children follow the order of their parents.
fn c14_ref_bfs(m: &RefGraph, origin: i64, reverse: bool, out: &mut Rec) {
    let mut seen = [false; GN];
    let mut lvl = [0i64; GN];
    let mut nl = 1;
    lvl[0] = origin;
    seen[RefGraph::slot(origin)] = true;
    let mut d = 0u64;
    let mut rounds = 0;
    while rounds < m.lim && nl > 0 {
        let mut next = [0i64; GN];
        let mut nn = 0;
        let mut k = 0;
        while k < m.lim {
            if k < nl {
                let x = lvl[k];
                c14_push(out, x, d);
                if x > 0 {
                    let mut below = u32::MAX;
                    let mut j = 1;
                    while j < m.lim {
                        let e = c14_next_edge(m, x, reverse, below);
                        if e != 0 {
                            below = m.seq[e];
                            if !seen[e] {
                                seen[e] = true;
                                next[nn] = -(e as i64);
                                nn += 1;
                            }
                        }
                        j += 1;
                    }
                } else {
                    let e = RefGraph::slot(x);
                    let t = if reverse { m.ef[e] } else { m.et[e] };
                    let ts = RefGraph::slot(t);
                    if !seen[ts] {
                        seen[ts] = true;
                        next[nn] = t;
                        nn += 1;
                    }
                }
            }
            k += 1;
        }
        lvl = next;
        nl = nn;
        d += 1;
        rounds += 1;
    }
}

/// Depth-first pre-order: each branch is followed to its end before the next
/// (older) edge of the same node is examined.
fn c14_ref_dfs(m: &RefGraph, x: i64, d: u64, reverse: bool, seen: &mut [bool; GN], out: &mut Rec) {
    c14_push(out, x, d);
    seen[RefGraph::slot(x)] = true;
    if x > 0 {
        let mut below = u32::MAX;
        let mut j = 1;
        while j < m.lim {
            let e = c14_next_edge(m, x, reverse, below);
            if e != 0 {
                below = m.seq[e];
                if !seen[e] {
                    c14_ref_dfs(m, -(e as i64), d + 1, reverse, seen, out);
                }
            }
            j += 1;
        }
    } else {
        let e = RefGraph::slot(x);
        let t = if reverse { m.ef[e] } else { m.et[e] };
        if !seen[RefGraph::slot(t)] {
            c14_ref_dfs(m, t, d + 1, reverse, seen, out);
        }
    }
}

/// Reachability by fix-point over the reference edges (independent of any order).
fn c14_reach(m: &RefGraph, origin: i64, reverse: bool) -> [bool; GN] {
    let mut r = [false; GN];
    r[RefGraph::slot(origin)] = true;
    let mut round = 0;
    while round < m.lim {
        let mut e = 1;
        while e < m.lim {
            if m.kind[e] == 2 {
                let (a, b) = if reverse { (m.et[e], m.ef[e]) } else { (m.ef[e], m.et[e]) };
                if r[RefGraph::slot(a)] {
                    r[e] = true;
                }
                if r[e] {
                    r[RefGraph::slot(b)] = true;
                }
            }
            e += 1;
        }
        round += 1;
    }
    r
}

/// alg: 0 breadth_first_search, 1 depth_first_search, 2 breadth_first_search_reverse,
/// 3 depth_first_search_reverse. Runs the real search with the always-Continue(true)
/// handler and compares with the reference. Returns what the handler saw.
fn c14_run(g: &ArrG, s: &crate::storage::Storage<ArrStorage>, m: &RefGraph, alg: u8, origin: i64) -> Rec {
    let mut rec = Rec::new();
    let h = RecHandler {
        rec: &mut rec,
        sel: [true; GN],
        ctl: [0; GN],
    };
    let search = GraphSearch::from((g, s));
    let res = ok(match alg {
        0 => search.breadth_first_search(GraphIndex(origin), h),
        1 => search.depth_first_search(GraphIndex(origin), h),
        2 => search.breadth_first_search_reverse(GraphIndex(origin), h),
        _ => search.depth_first_search_reverse(GraphIndex(origin), h),
    });
    let reverse = alg >= 2;
    let mut exp = Rec::new();
    if alg == 0 || alg == 2 {
        c14_ref_bfs(m, origin, reverse, &mut exp);
    } else {
        let mut seen = [false; GN];
        c14_ref_dfs(m, origin, 0, reverse, &mut seen, &mut exp);
    }
    // set view: exactly the reachable elements, each once, origin first
    let reach = c14_reach(m, origin, reverse);
    let mut cnt = [0u8; GN];
    let mut k = 0;
    while k < m.lim {
        if k < res.len() {
            let sl = RefGraph::slot(res[k].0);
            assert!(sl != 0 && reach[sl], "result contains an element that is not reachable from the origin");
            assert!((res[k].0 < 0) == (m.kind[sl] == 2), "result id has the wrong sign");
            cnt[sl] += 1;
        }
        k += 1;
    }
    assert!(res.len() < m.lim, "result longer than the graph");
    let mut sl = 1;
    while sl < m.lim {
        assert!(cnt[sl] == if reach[sl] { 1 } else { 0 }, "a reachable element is missing or returned twice");
        sl += 1;
    }
    assert!(res.len() >= 1 && res[0].0 == origin && rec.dist[0] == 0, "origin is not first at distance 0");
    // order view
    assert!(rec.n == res.len(), "handler calls differ from the result");
    assert!(exp.n == res.len(), "result length differs from the reference traversal");
    let mut k = 0;
    while k < m.lim {
        if k < res.len() {
            assert!(rec.idx[k] == res[k].0, "result order differs from examination order");
            assert!(res[k].0 == exp.idx[k], "order differs from the reference traversal");
            assert!(rec.dist[k] == exp.dist[k], "distance differs from the reference traversal");
            if (alg == 0 || alg == 2) && k > 0 {
                assert!(rec.dist[k - 1] <= rec.dist[k], "breadth-first distances decrease");
            }
        }
        k += 1;
    }
    std::mem::forget(res);
    rec
}

fn c14_is(rec: &Rec, idx: &[i64], dist: &[u64]) -> bool {
    let mut same = rec.n == idx.len();
    let mut k = 0;
    while k < idx.len() {
        same = same && rec.idx[k] == idx[k] && rec.dist[k] == dist[k];
        k += 1;
    }
    same
}

//@ id=C14 tier=quick timeout=900 bounds="concrete graph: nodes 1,2,3; edges -4 = 1->2, -5 = 1->3, -6 = 2->3 (node 3 reachable over two branches of different length); every node as origin; breadth_first_search and depth_first_search; handler always Continue(true)" desc="origin first at distance 0, then exactly the reachable elements once each (fix-point reachability), in the order and with the distances of the documented traversal (BFS level by level in non-decreasing distance, DFS each branch to its end, a node's edges newest first, distance counts node and edge steps); hand-derived sequences asserted literally" kernel="GraphSearch::breadth_first_search,GraphSearch::depth_first_search,SearchImpl::search,SearchImpl::process_index,SearchImpl::visit_index,BreadthFirstSearch::expand,DepthFirstSearch::expand,BitSet::set,BitSet::value" args="--no-assertion-reach-checks" cbmc="--unwindset _RINvNtCs8xvirJzNMvV_4core3ptr9drop_glueNtNtNtCsblifWy3Zr35_4agdb2db8db_error7DbErrorEBH_:1"
#[kani::proof]
#[kani::stub(std::fmt::format, crate::verif_support::fmt_stub)]
#[kani::stub(crate::DbError::new, crate::verif_support::dberror_new_stub)]
#[kani::unwind(12)]
fn c14_triangle_forward() {
    let mut s = crate::storage::verif_h::fresh_arr_storage();
    let mut g = new_arr_graph();
    let mut m = RefGraph::with_limit(7);
    graph_step(&mut g, &mut s, &mut m, 0, 0, 0);
    graph_step(&mut g, &mut s, &mut m, 0, 0, 0);
    graph_step(&mut g, &mut s, &mut m, 0, 0, 0);
    graph_step(&mut g, &mut s, &mut m, 1, 1, 2);
    graph_step(&mut g, &mut s, &mut m, 1, 1, 3);
    graph_step(&mut g, &mut s, &mut m, 1, 2, 3);
    let r = c14_run(&g, &s, &m, 0, 1);
    assert!(c14_is(&r, &[1, -5, -4, 3, 2, -6], &[0, 1, 1, 2, 2, 3]), "BFS from 1: literal sequence");
    std::mem::forget(r);
    let r = c14_run(&g, &s, &m, 0, 2);
    assert!(c14_is(&r, &[2, -6, 3], &[0, 1, 2]), "BFS from 2: only the reachable part");
    std::mem::forget(r);
    let r = c14_run(&g, &s, &m, 0, 3);
    assert!(c14_is(&r, &[3], &[0]), "BFS from a sink: origin only");
    std::mem::forget(r);
    let r = c14_run(&g, &s, &m, 1, 1);
    assert!(c14_is(&r, &[1, -5, 3, -4, 2, -6], &[0, 1, 2, 1, 2, 3]), "DFS from 1: literal sequence");
    std::mem::forget(r);
    let r = c14_run(&g, &s, &m, 1, 2);
    assert!(c14_is(&r, &[2, -6, 3], &[0, 1, 2]), "DFS from 2");
    std::mem::forget(r);
    let r = c14_run(&g, &s, &m, 1, 3);
    std::mem::forget(r);
    kani::cover!(true, "end of harness reachable");
    std::mem::forget(s);
}

//@ id=C14 tier=quick timeout=900 bounds="concrete graph: nodes 1,2,3; edges -4 = 1->2, -5 = 1->3, -6 = 2->3; every node as origin; breadth_first_search_reverse and depth_first_search_reverse; handler always Continue(true)" desc="origin first at distance 0, then exactly the reachable elements once each (fix-point reachability), in the order and with the distances of the documented traversal (BFS level by level in non-decreasing distance, DFS each branch to its end, a node's edges newest first, distance counts node and edge steps); hand-derived sequences asserted literally" kernel="GraphSearch::breadth_first_search_reverse,GraphSearch::depth_first_search_reverse,SearchImpl::search,SearchImpl::process_index,SearchImpl::visit_index,BreadthFirstSearchReverse::expand,DepthFirstSearchReverse::expand,BitSet::set,BitSet::value" args="--no-assertion-reach-checks" cbmc="--unwindset _RINvNtCs8xvirJzNMvV_4core3ptr9drop_glueNtNtNtCsblifWy3Zr35_4agdb2db8db_error7DbErrorEBH_:1"
#[kani::proof]
#[kani::stub(std::fmt::format, crate::verif_support::fmt_stub)]
#[kani::stub(crate::DbError::new, crate::verif_support::dberror_new_stub)]
#[kani::unwind(12)]
fn c14_triangle_reverse() {
    let mut s = crate::storage::verif_h::fresh_arr_storage();
    let mut g = new_arr_graph();
    let mut m = RefGraph::with_limit(7);
    graph_step(&mut g, &mut s, &mut m, 0, 0, 0);
    graph_step(&mut g, &mut s, &mut m, 0, 0, 0);
    graph_step(&mut g, &mut s, &mut m, 0, 0, 0);
    graph_step(&mut g, &mut s, &mut m, 1, 1, 2);
    graph_step(&mut g, &mut s, &mut m, 1, 1, 3);
    graph_step(&mut g, &mut s, &mut m, 1, 2, 3);
    let r = c14_run(&g, &s, &m, 2, 3);
    assert!(c14_is(&r, &[3, -6, -5, 2, 1, -4], &[0, 1, 1, 2, 2, 3]), "reverse BFS from 3: literal sequence");
    std::mem::forget(r);
    let r = c14_run(&g, &s, &m, 2, 2);
    assert!(c14_is(&r, &[2, -4, 1], &[0, 1, 2]), "reverse BFS from 2");
    std::mem::forget(r);
    let r = c14_run(&g, &s, &m, 2, 1);
    assert!(c14_is(&r, &[1], &[0]), "reverse BFS from a source: origin only");
    std::mem::forget(r);
    let r = c14_run(&g, &s, &m, 3, 3);
    assert!(c14_is(&r, &[3, -6, 2, -4, 1, -5], &[0, 1, 2, 3, 4, 1]), "reverse DFS from 3: literal sequence");
    std::mem::forget(r);
    let r = c14_run(&g, &s, &m, 3, 2);
    std::mem::forget(r);
    let r = c14_run(&g, &s, &m, 3, 1);
    std::mem::forget(r);
    kani::cover!(true, "end of harness reachable");
    std::mem::forget(s);
}

//@ id=C14 tier=quick timeout=900 bounds="concrete graph: cycle 1->2 (-4), 2->3 (-5), 3->1 (-6); every node as origin; breadth_first_search and depth_first_search; handler always Continue(true)" desc="origin first at distance 0, then exactly the reachable elements once each (fix-point reachability), in the order and with the distances of the documented traversal (BFS level by level in non-decreasing distance, DFS each branch to its end, a node's edges newest first, distance counts node and edge steps); hand-derived sequences asserted literally; the search terminates on the cycle and does not return the origin twice" kernel="GraphSearch::breadth_first_search,GraphSearch::depth_first_search,SearchImpl::search,SearchImpl::process_index,SearchImpl::visit_index,BreadthFirstSearch::expand,DepthFirstSearch::expand,BitSet::set,BitSet::value" args="--no-assertion-reach-checks" cbmc="--unwindset _RINvNtCs8xvirJzNMvV_4core3ptr9drop_glueNtNtNtCsblifWy3Zr35_4agdb2db8db_error7DbErrorEBH_:1"
#[kani::proof]
#[kani::stub(std::fmt::format, crate::verif_support::fmt_stub)]
#[kani::stub(crate::DbError::new, crate::verif_support::dberror_new_stub)]
#[kani::unwind(12)]
fn c14_cycle_forward() {
    let mut s = crate::storage::verif_h::fresh_arr_storage();
    let mut g = new_arr_graph();
    let mut m = RefGraph::with_limit(7);
    graph_step(&mut g, &mut s, &mut m, 0, 0, 0);
    graph_step(&mut g, &mut s, &mut m, 0, 0, 0);
    graph_step(&mut g, &mut s, &mut m, 0, 0, 0);
    graph_step(&mut g, &mut s, &mut m, 1, 1, 2);
    graph_step(&mut g, &mut s, &mut m, 1, 2, 3);
    graph_step(&mut g, &mut s, &mut m, 1, 3, 1);
    let r = c14_run(&g, &s, &m, 0, 2);
    assert!(c14_is(&r, &[2, -5, 3, -6, 1, -4], &[0, 1, 2, 3, 4, 5]), "BFS from 2 round the cycle");
    std::mem::forget(r);
    let r = c14_run(&g, &s, &m, 0, 1);
    std::mem::forget(r);
    let r = c14_run(&g, &s, &m, 0, 3);
    std::mem::forget(r);
    let r = c14_run(&g, &s, &m, 1, 2);
    assert!(c14_is(&r, &[2, -5, 3, -6, 1, -4], &[0, 1, 2, 3, 4, 5]), "DFS from 2 round the cycle");
    std::mem::forget(r);
    let r = c14_run(&g, &s, &m, 1, 1);
    std::mem::forget(r);
    let r = c14_run(&g, &s, &m, 1, 3);
    std::mem::forget(r);
    kani::cover!(true, "end of harness reachable");
    std::mem::forget(s);
}

//@ id=C14 tier=quick timeout=900 bounds="concrete graph: cycle 1->2 (-4), 2->3 (-5), 3->1 (-6); every node as origin; breadth_first_search_reverse and depth_first_search_reverse; handler always Continue(true)" desc="origin first at distance 0, then exactly the reachable elements once each (fix-point reachability), in the order and with the distances of the documented traversal (BFS level by level in non-decreasing distance, DFS each branch to its end, a node's edges newest first, distance counts node and edge steps); hand-derived sequences asserted literally" kernel="GraphSearch::breadth_first_search_reverse,GraphSearch::depth_first_search_reverse,SearchImpl::search,SearchImpl::process_index,SearchImpl::visit_index,BreadthFirstSearchReverse::expand,DepthFirstSearchReverse::expand,BitSet::set,BitSet::value" args="--no-assertion-reach-checks" cbmc="--unwindset _RINvNtCs8xvirJzNMvV_4core3ptr9drop_glueNtNtNtCsblifWy3Zr35_4agdb2db8db_error7DbErrorEBH_:1"
#[kani::proof]
#[kani::stub(std::fmt::format, crate::verif_support::fmt_stub)]
#[kani::stub(crate::DbError::new, crate::verif_support::dberror_new_stub)]
#[kani::unwind(12)]
fn c14_cycle_reverse() {
    let mut s = crate::storage::verif_h::fresh_arr_storage();
    let mut g = new_arr_graph();
    let mut m = RefGraph::with_limit(7);
    graph_step(&mut g, &mut s, &mut m, 0, 0, 0);
    graph_step(&mut g, &mut s, &mut m, 0, 0, 0);
    graph_step(&mut g, &mut s, &mut m, 0, 0, 0);
    graph_step(&mut g, &mut s, &mut m, 1, 1, 2);
    graph_step(&mut g, &mut s, &mut m, 1, 2, 3);
    graph_step(&mut g, &mut s, &mut m, 1, 3, 1);
    let r = c14_run(&g, &s, &m, 2, 2);
    assert!(c14_is(&r, &[2, -4, 1, -6, 3, -5], &[0, 1, 2, 3, 4, 5]), "reverse BFS from 2 against the cycle");
    std::mem::forget(r);
    let r = c14_run(&g, &s, &m, 2, 1);
    std::mem::forget(r);
    let r = c14_run(&g, &s, &m, 2, 3);
    std::mem::forget(r);
    let r = c14_run(&g, &s, &m, 3, 2);
    assert!(c14_is(&r, &[2, -4, 1, -6, 3, -5], &[0, 1, 2, 3, 4, 5]), "reverse DFS from 2 against the cycle");
    std::mem::forget(r);
    let r = c14_run(&g, &s, &m, 3, 1);
    std::mem::forget(r);
    let r = c14_run(&g, &s, &m, 3, 3);
    std::mem::forget(r);
    kani::cover!(true, "end of harness reachable");
    std::mem::forget(s);
}

//@ id=C14 tier=quick timeout=900 bounds="concrete multigraph: nodes 1,2; edges -3 = 1->2, -4 = 1->2 (parallel), -5 = 1->1 (self-loop), -6 = 2->1; both nodes as origin; breadth_first_search and depth_first_search; handler always Continue(true)" desc="origin first at distance 0, then exactly the reachable elements once each (fix-point reachability), in the order and with the distances of the documented traversal (BFS level by level in non-decreasing distance, DFS each branch to its end, a node's edges newest first, distance counts node and edge steps); hand-derived sequences asserted literally; a node queued twice over parallel edges is returned once" kernel="GraphSearch::breadth_first_search,GraphSearch::depth_first_search,SearchImpl::search,SearchImpl::process_index,SearchImpl::visit_index,BreadthFirstSearch::expand,DepthFirstSearch::expand,BitSet::set,BitSet::value" args="--no-assertion-reach-checks" cbmc="--unwindset _RINvNtCs8xvirJzNMvV_4core3ptr9drop_glueNtNtNtCsblifWy3Zr35_4agdb2db8db_error7DbErrorEBH_:1"
#[kani::proof]
#[kani::stub(std::fmt::format, crate::verif_support::fmt_stub)]
#[kani::stub(crate::DbError::new, crate::verif_support::dberror_new_stub)]
#[kani::unwind(12)]
fn c14_parallel_selfloop_forward() {
    let mut s = crate::storage::verif_h::fresh_arr_storage();
    let mut g = new_arr_graph();
    let mut m = RefGraph::with_limit(7);
    graph_step(&mut g, &mut s, &mut m, 0, 0, 0);
    graph_step(&mut g, &mut s, &mut m, 0, 0, 0);
    graph_step(&mut g, &mut s, &mut m, 1, 1, 2);
    graph_step(&mut g, &mut s, &mut m, 1, 1, 2);
    graph_step(&mut g, &mut s, &mut m, 1, 1, 1);
    graph_step(&mut g, &mut s, &mut m, 1, 2, 1);
    let r = c14_run(&g, &s, &m, 0, 1);
    assert!(c14_is(&r, &[1, -5, -4, -3, 2, -6], &[0, 1, 1, 1, 2, 3]), "BFS from 1: self-loop, parallel edges newest first, node 2 once");
    std::mem::forget(r);
    let r = c14_run(&g, &s, &m, 0, 2);
    assert!(c14_is(&r, &[2, -6, 1, -5, -4, -3], &[0, 1, 2, 3, 3, 3]), "BFS from 2");
    std::mem::forget(r);
    let r = c14_run(&g, &s, &m, 1, 1);
    assert!(c14_is(&r, &[1, -5, -4, 2, -6, -3], &[0, 1, 1, 2, 3, 1]), "DFS from 1: branch over -4 finished before the older parallel edge -3");
    std::mem::forget(r);
    let r = c14_run(&g, &s, &m, 1, 2);
    assert!(c14_is(&r, &[2, -6, 1, -5, -4, -3], &[0, 1, 2, 3, 3, 3]), "DFS from 2");
    std::mem::forget(r);
    kani::cover!(true, "end of harness reachable");
    std::mem::forget(s);
}

//@ id=C14 tier=quick timeout=900 bounds="concrete multigraph: nodes 1,2; edges -3 = 1->2, -4 = 1->2, -5 = 1->1, -6 = 2->1; both nodes as origin; breadth_first_search_reverse and depth_first_search_reverse; handler always Continue(true)" desc="origin first at distance 0, then exactly the reachable elements once each (fix-point reachability), in the order and with the distances of the documented traversal (BFS level by level in non-decreasing distance, DFS each branch to its end, a node's edges newest first, distance counts node and edge steps); hand-derived sequences asserted literally" kernel="GraphSearch::breadth_first_search_reverse,GraphSearch::depth_first_search_reverse,SearchImpl::search,SearchImpl::process_index,SearchImpl::visit_index,BreadthFirstSearchReverse::expand,DepthFirstSearchReverse::expand,BitSet::set,BitSet::value" args="--no-assertion-reach-checks" cbmc="--unwindset _RINvNtCs8xvirJzNMvV_4core3ptr9drop_glueNtNtNtCsblifWy3Zr35_4agdb2db8db_error7DbErrorEBH_:1"
#[kani::proof]
#[kani::stub(std::fmt::format, crate::verif_support::fmt_stub)]
#[kani::stub(crate::DbError::new, crate::verif_support::dberror_new_stub)]
#[kani::unwind(12)]
fn c14_parallel_selfloop_reverse() {
    let mut s = crate::storage::verif_h::fresh_arr_storage();
    let mut g = new_arr_graph();
    let mut m = RefGraph::with_limit(7);
    graph_step(&mut g, &mut s, &mut m, 0, 0, 0);
    graph_step(&mut g, &mut s, &mut m, 0, 0, 0);
    graph_step(&mut g, &mut s, &mut m, 1, 1, 2);
    graph_step(&mut g, &mut s, &mut m, 1, 1, 2);
    graph_step(&mut g, &mut s, &mut m, 1, 1, 1);
    graph_step(&mut g, &mut s, &mut m, 1, 2, 1);
    let r = c14_run(&g, &s, &m, 2, 1);
    assert!(c14_is(&r, &[1, -6, -5, 2, -4, -3], &[0, 1, 1, 2, 3, 3]), "reverse BFS from 1");
    std::mem::forget(r);
    let r = c14_run(&g, &s, &m, 2, 2);
    assert!(c14_is(&r, &[2, -4, -3, 1, -6, -5], &[0, 1, 1, 2, 3, 3]), "reverse BFS from 2");
    std::mem::forget(r);
    let r = c14_run(&g, &s, &m, 3, 1);
    assert!(c14_is(&r, &[1, -6, 2, -4, -3, -5], &[0, 1, 2, 3, 3, 1]), "reverse DFS from 1");
    std::mem::forget(r);
    let r = c14_run(&g, &s, &m, 3, 2);
    assert!(c14_is(&r, &[2, -4, 1, -6, -5, -3], &[0, 1, 2, 3, 3, 1]), "reverse DFS from 2");
    std::mem::forget(r);
    kani::cover!(true, "end of harness reachable");
    std::mem::forget(s);
}

//@ id=C14 tier=quick timeout=900 bounds="concrete graph with a removed and re-inserted edge: nodes 1,2,3; -4 = 1->2, -5 = 1->3, -6 = 1->2, then remove -5 and insert 1->3 again (reuses id -5 but is the newest edge); origin 1 forward, origins 2 and 3 reverse; all four searches; handler always Continue(true)" desc="origin first at distance 0, then exactly the reachable elements once each (fix-point reachability), in the order and with the distances of the documented traversal (BFS level by level in non-decreasing distance, DFS each branch to its end, a node's edges newest first, distance counts node and edge steps); hand-derived sequences asserted literally; sibling order follows recency of connection, not the id" kernel="GraphSearch::breadth_first_search,GraphSearch::depth_first_search,SearchImpl::search,SearchImpl::process_index,SearchImpl::visit_index,BreadthFirstSearch::expand,DepthFirstSearch::expand,BitSet::set,BitSet::value,GraphSearch::breadth_first_search_reverse,GraphSearch::depth_first_search_reverse,SearchImpl::search,SearchImpl::process_index,SearchImpl::visit_index,BreadthFirstSearchReverse::expand,DepthFirstSearchReverse::expand,BitSet::set,BitSet::value" args="--no-assertion-reach-checks" cbmc="--unwindset _RINvNtCs8xvirJzNMvV_4core3ptr9drop_glueNtNtNtCsblifWy3Zr35_4agdb2db8db_error7DbErrorEBH_:1"
#[kani::proof]
#[kani::stub(std::fmt::format, crate::verif_support::fmt_stub)]
#[kani::stub(crate::DbError::new, crate::verif_support::dberror_new_stub)]
#[kani::unwind(12)]
fn c14_reused_slot_order() {
    let mut s = crate::storage::verif_h::fresh_arr_storage();
    let mut g = new_arr_graph();
    let mut m = RefGraph::with_limit(7);
    graph_step(&mut g, &mut s, &mut m, 0, 0, 0);
    graph_step(&mut g, &mut s, &mut m, 0, 0, 0);
    graph_step(&mut g, &mut s, &mut m, 0, 0, 0);
    graph_step(&mut g, &mut s, &mut m, 1, 1, 2);
    graph_step(&mut g, &mut s, &mut m, 1, 1, 3);
    graph_step(&mut g, &mut s, &mut m, 1, 1, 2);
    graph_step(&mut g, &mut s, &mut m, 3, -5, 0);
    graph_step(&mut g, &mut s, &mut m, 1, 1, 3);
    let r = c14_run(&g, &s, &m, 0, 1);
    assert!(c14_is(&r, &[1, -5, -6, -4, 3, 2], &[0, 1, 1, 1, 2, 2]), "BFS from 1: re-inserted edge first");
    std::mem::forget(r);
    let r = c14_run(&g, &s, &m, 1, 1);
    assert!(c14_is(&r, &[1, -5, 3, -6, 2, -4], &[0, 1, 2, 1, 2, 1]), "DFS from 1: re-inserted edge first");
    std::mem::forget(r);
    let r = c14_run(&g, &s, &m, 2, 2);
    assert!(c14_is(&r, &[2, -6, -4, 1], &[0, 1, 1, 2]), "reverse BFS from 2");
    std::mem::forget(r);
    let r = c14_run(&g, &s, &m, 3, 2);
    assert!(c14_is(&r, &[2, -6, 1, -4], &[0, 1, 2, 1]), "reverse DFS from 2");
    std::mem::forget(r);
    let r = c14_run(&g, &s, &m, 2, 3);
    assert!(c14_is(&r, &[3, -5, 1], &[0, 1, 2]), "reverse BFS from 3");
    std::mem::forget(r);
    let r = c14_run(&g, &s, &m, 3, 3);
    std::mem::forget(r);
    kani::cover!(true, "end of harness reachable");
    std::mem::forget(s);
}

//@ id=C14 tier=quick timeout=900 bounds="concrete graph: nodes 1,2,3; edges -4 = 1->2, -5 = 1->3, -6 = 2->3; origins = edges that are the oldest in the adjacency list the search walks (forward: -4, -6; reverse: -4, -5); all four searches; handler always Continue(true)" desc="a search started at an edge returns that edge first, then its far end (target forward, origin node in reverse) and everything reachable from there, once each, with the documented order and distances" kernel="GraphSearch::breadth_first_search,GraphSearch::depth_first_search,SearchImpl::search,SearchImpl::process_index,SearchImpl::visit_index,BreadthFirstSearch::expand,DepthFirstSearch::expand,BitSet::set,BitSet::value,GraphSearch::breadth_first_search_reverse,GraphSearch::depth_first_search_reverse,SearchImpl::search,SearchImpl::process_index,SearchImpl::visit_index,BreadthFirstSearchReverse::expand,DepthFirstSearchReverse::expand,BitSet::set,BitSet::value" args="--no-assertion-reach-checks" cbmc="--unwindset _RINvNtCs8xvirJzNMvV_4core3ptr9drop_glueNtNtNtCsblifWy3Zr35_4agdb2db8db_error7DbErrorEBH_:1"
#[kani::proof]
#[kani::stub(std::fmt::format, crate::verif_support::fmt_stub)]
#[kani::stub(crate::DbError::new, crate::verif_support::dberror_new_stub)]
#[kani::unwind(12)]
fn c14_edge_origin_oldest_sibling() {
    let mut s = crate::storage::verif_h::fresh_arr_storage();
    let mut g = new_arr_graph();
    let mut m = RefGraph::with_limit(7);
    graph_step(&mut g, &mut s, &mut m, 0, 0, 0);
    graph_step(&mut g, &mut s, &mut m, 0, 0, 0);
    graph_step(&mut g, &mut s, &mut m, 0, 0, 0);
    graph_step(&mut g, &mut s, &mut m, 1, 1, 2);
    graph_step(&mut g, &mut s, &mut m, 1, 1, 3);
    graph_step(&mut g, &mut s, &mut m, 1, 2, 3);
    let r = c14_run(&g, &s, &m, 0, -4);
    assert!(c14_is(&r, &[-4, 2, -6, 3], &[0, 1, 2, 3]), "BFS from edge -4");
    std::mem::forget(r);
    let r = c14_run(&g, &s, &m, 1, -4);
    assert!(c14_is(&r, &[-4, 2, -6, 3], &[0, 1, 2, 3]), "DFS from edge -4");
    std::mem::forget(r);
    let r = c14_run(&g, &s, &m, 0, -6);
    assert!(c14_is(&r, &[-6, 3], &[0, 1]), "BFS from edge -6");
    std::mem::forget(r);
    let r = c14_run(&g, &s, &m, 2, -5);
    assert!(c14_is(&r, &[-5, 1], &[0, 1]), "reverse BFS from edge -5");
    std::mem::forget(r);
    let r = c14_run(&g, &s, &m, 3, -4);
    assert!(c14_is(&r, &[-4, 1], &[0, 1]), "reverse DFS from edge -4");
    std::mem::forget(r);
    let r = c14_run(&g, &s, &m, 2, -4);
    std::mem::forget(r);
    kani::cover!(true, "end of harness reachable");
    std::mem::forget(s);
}

//@ id=C14 tier=quick timeout=900 bounds="concrete graph: nodes 1,2,3; edges -4 = 1->2, -5 = 1->3, -6 = 2->3; origins = edges that have an older sibling in the adjacency list the search walks (forward: -5, whose older sibling is -4; reverse: -6, whose older sibling is -5); all four searches; handler always Continue(true)" desc="a search started at an edge returns that edge first, then its far end (target forward, origin node in reverse) and everything reachable from there, once each, with the documented order and distances; the origin edge's sibling edges and their far ends are NOT reachable from it and must not be returned" kernel="GraphSearch::breadth_first_search,GraphSearch::depth_first_search,SearchImpl::search,SearchImpl::process_index,SearchImpl::visit_index,BreadthFirstSearch::expand,DepthFirstSearch::expand,BitSet::set,BitSet::value,GraphSearch::breadth_first_search_reverse,GraphSearch::depth_first_search_reverse,SearchImpl::search,SearchImpl::process_index,SearchImpl::visit_index,BreadthFirstSearchReverse::expand,DepthFirstSearchReverse::expand,BitSet::set,BitSet::value" args="--no-assertion-reach-checks" cbmc="--unwindset _RINvNtCs8xvirJzNMvV_4core3ptr9drop_glueNtNtNtCsblifWy3Zr35_4agdb2db8db_error7DbErrorEBH_:1"
#[kani::proof]
#[kani::stub(std::fmt::format, crate::verif_support::fmt_stub)]
#[kani::stub(crate::DbError::new, crate::verif_support::dberror_new_stub)]
#[kani::unwind(12)]
fn c14_edge_origin_with_older_sibling() {
    let mut s = crate::storage::verif_h::fresh_arr_storage();
    let mut g = new_arr_graph();
    let mut m = RefGraph::with_limit(7);
    graph_step(&mut g, &mut s, &mut m, 0, 0, 0);
    graph_step(&mut g, &mut s, &mut m, 0, 0, 0);
    graph_step(&mut g, &mut s, &mut m, 0, 0, 0);
    graph_step(&mut g, &mut s, &mut m, 1, 1, 2);
    graph_step(&mut g, &mut s, &mut m, 1, 1, 3);
    graph_step(&mut g, &mut s, &mut m, 1, 2, 3);
    let r = c14_run(&g, &s, &m, 0, -5);
    assert!(c14_is(&r, &[-5, 3], &[0, 1]), "BFS from edge -5: only the edge and node 3");
    std::mem::forget(r);
    let r = c14_run(&g, &s, &m, 1, -5);
    assert!(c14_is(&r, &[-5, 3], &[0, 1]), "DFS from edge -5");
    std::mem::forget(r);
    let r = c14_run(&g, &s, &m, 2, -6);
    assert!(c14_is(&r, &[-6, 2, -4, 1], &[0, 1, 2, 3]), "reverse BFS from edge -6");
    std::mem::forget(r);
    let r = c14_run(&g, &s, &m, 3, -6);
    assert!(c14_is(&r, &[-6, 2, -4, 1], &[0, 1, 2, 3]), "reverse DFS from edge -6");
    std::mem::forget(r);
    kani::cover!(true, "end of harness reachable");
    std::mem::forget(s);
}

//@ id=C14 tier=quick timeout=900 bounds="concrete history: nodes 1,2,3; 1->2, 2->3, 1->3 (-6), 3->1 (-7); remove node 2 with its two edges; insert node (reuses id 2); insert edge 2->1 (reuses id -4, newest); origins 1, 2, 3; all four searches; handler always Continue(true)" desc="after a cascade removal and slot reuse the searches return the origin first, then exactly the elements reachable in the current graph once each (removed elements never), in the documented order and with the documented distances; sibling order follows recency, not id; hand-derived sequences asserted literally" kernel="GraphSearch::breadth_first_search,GraphSearch::depth_first_search,GraphSearch::breadth_first_search_reverse,GraphSearch::depth_first_search_reverse,SearchImpl::search,SearchImpl::visit_index,BreadthFirstSearch::expand,DepthFirstSearch::expand,BreadthFirstSearchReverse::expand,DepthFirstSearchReverse::expand,GraphImpl::remove_node" args="--no-assertion-reach-checks" cbmc="--unwindset _RINvNtCs8xvirJzNMvV_4core3ptr9drop_glueNtNtNtCsblifWy3Zr35_4agdb2db8db_error7DbErrorEBH_:1"
#[kani::proof]
#[kani::stub(std::fmt::format, crate::verif_support::fmt_stub)]
#[kani::stub(crate::DbError::new, crate::verif_support::dberror_new_stub)]
#[kani::unwind(12)]
fn c14_after_node_removal() {
    let mut s = crate::storage::verif_h::fresh_arr_storage();
    let mut g = new_arr_graph();
    let mut m = RefGraph::with_limit(8);
    graph_step(&mut g, &mut s, &mut m, 0, 0, 0);
    graph_step(&mut g, &mut s, &mut m, 0, 0, 0);
    graph_step(&mut g, &mut s, &mut m, 0, 0, 0);
    graph_step(&mut g, &mut s, &mut m, 1, 1, 2);
    graph_step(&mut g, &mut s, &mut m, 1, 2, 3);
    graph_step(&mut g, &mut s, &mut m, 1, 1, 3);
    graph_step(&mut g, &mut s, &mut m, 1, 3, 1);
    graph_step(&mut g, &mut s, &mut m, 2, 2, 0);
    graph_step(&mut g, &mut s, &mut m, 0, 0, 0);
    assert!(m.is_node(2), "new node did not reuse id 2");
    graph_step(&mut g, &mut s, &mut m, 1, 2, 1);
    assert!(m.is_edge(-4) && !m.is_edge(-5), "new edge did not reuse id -4");
    let r = c14_run(&g, &s, &m, 0, 2);
    assert!(c14_is(&r, &[2, -4, 1, -6, 3, -7], &[0, 1, 2, 3, 4, 5]), "BFS from the re-inserted node");
    std::mem::forget(r);
    let r = c14_run(&g, &s, &m, 1, 1);
    assert!(c14_is(&r, &[1, -6, 3, -7], &[0, 1, 2, 3]), "DFS from 1: node 2 is not reachable any more");
    std::mem::forget(r);
    let r = c14_run(&g, &s, &m, 2, 1);
    assert!(c14_is(&r, &[1, -4, -7, 2, 3, -6], &[0, 1, 1, 2, 2, 3]), "reverse BFS from 1: reused edge id -4 is the newest incoming edge");
    std::mem::forget(r);
    let r = c14_run(&g, &s, &m, 3, 1);
    assert!(c14_is(&r, &[1, -4, 2, -7, 3, -6], &[0, 1, 2, 1, 2, 3]), "reverse DFS from 1");
    std::mem::forget(r);
    let r = c14_run(&g, &s, &m, 0, 3);
    std::mem::forget(r);
    let r = c14_run(&g, &s, &m, 3, 3);
    std::mem::forget(r);
    kani::cover!(true, "end of harness reachable");
    std::mem::forget(s);
}

//@ id=C14 tier=quick timeout=900 bounds="two concrete graphs on nodes 1,2,3. Forward: -4 = 1->3 (older sibling), -5 = 1->2 (origin), -6 = 1->2 (newer sibling), -7 = 2->1 (cycle back to the origin's source node); origin = edge -5; breadth_first_search and depth_first_search. Reverse (mirrored): -4 = 3->1, -5 = 2->1 (origin), -6 = 2->1, -7 = 1->2; origin = edge -5; breadth_first_search_reverse and depth_first_search_reverse. Handler always Continue(true)" desc="edge origin whose source node is reached again over a cycle and that has both a newer and an older sibling there: when the node's edges are examined (newest -> already visited origin -> older sibling) the older sibling and the node behind it are still returned, each exactly once, origin first, nothing unreachable, in the documented order and with the documented distances; hand-derived sequence asserted literally" kernel="GraphSearch::breadth_first_search,GraphSearch::depth_first_search,GraphSearch::breadth_first_search_reverse,GraphSearch::depth_first_search_reverse,SearchImpl::search,SearchImpl::process_index,SearchImpl::visit_index,BreadthFirstSearch::expand,DepthFirstSearch::expand,BreadthFirstSearchReverse::expand,DepthFirstSearchReverse::expand" args="--no-assertion-reach-checks" cbmc="--unwindset _RINvNtCs8xvirJzNMvV_4core3ptr9drop_glueNtNtNtCsblifWy3Zr35_4agdb2db8db_error7DbErrorEBH_:1"
#[kani::proof]
#[kani::stub(std::fmt::format, crate::verif_support::fmt_stub)]
#[kani::stub(crate::DbError::new, crate::verif_support::dberror_new_stub)]
#[kani::unwind(12)]
fn c14_edge_origin_cycle_older_sibling() {
    let mut s = crate::storage::verif_h::fresh_arr_storage();
    // forward graph
    let mut g = new_arr_graph();
    let mut m = RefGraph::with_limit(8);
    graph_step(&mut g, &mut s, &mut m, 0, 0, 0);
    graph_step(&mut g, &mut s, &mut m, 0, 0, 0);
    graph_step(&mut g, &mut s, &mut m, 0, 0, 0);
    graph_step(&mut g, &mut s, &mut m, 1, 1, 3);
    graph_step(&mut g, &mut s, &mut m, 1, 1, 2);
    graph_step(&mut g, &mut s, &mut m, 1, 1, 2);
    graph_step(&mut g, &mut s, &mut m, 1, 2, 1);
    assert!(m.is_edge(-4) && m.is_edge(-5) && m.is_edge(-6) && m.is_edge(-7), "edge ids are not -4..-7");
    let r = c14_run(&g, &s, &m, 0, -5);
    assert!(c14_is(&r, &[-5, 2, -7, 1, -6, -4, 3], &[0, 1, 2, 3, 4, 4, 5]), "BFS from edge -5: older sibling -4 and node 3 found after the cycle");
    std::mem::forget(r);
    let r = c14_run(&g, &s, &m, 1, -5);
    assert!(c14_is(&r, &[-5, 2, -7, 1, -6, -4, 3], &[0, 1, 2, 3, 4, 4, 5]), "DFS from edge -5: older sibling -4 and node 3 found after the cycle");
    std::mem::forget(r);
    // mirrored graph for the reverse searches
    let mut g2 = new_arr_graph();
    let mut m2 = RefGraph::with_limit(8);
    graph_step(&mut g2, &mut s, &mut m2, 0, 0, 0);
    graph_step(&mut g2, &mut s, &mut m2, 0, 0, 0);
    graph_step(&mut g2, &mut s, &mut m2, 0, 0, 0);
    graph_step(&mut g2, &mut s, &mut m2, 1, 3, 1);
    graph_step(&mut g2, &mut s, &mut m2, 1, 2, 1);
    graph_step(&mut g2, &mut s, &mut m2, 1, 2, 1);
    graph_step(&mut g2, &mut s, &mut m2, 1, 1, 2);
    let r = c14_run(&g2, &s, &m2, 2, -5);
    assert!(c14_is(&r, &[-5, 2, -7, 1, -6, -4, 3], &[0, 1, 2, 3, 4, 4, 5]), "reverse BFS from edge -5: older incoming sibling -4 and node 3 found after the cycle");
    std::mem::forget(r);
    let r = c14_run(&g2, &s, &m2, 3, -5);
    assert!(c14_is(&r, &[-5, 2, -7, 1, -6, -4, 3], &[0, 1, 2, 3, 4, 4, 5]), "reverse DFS from edge -5: older incoming sibling -4 and node 3 found after the cycle");
    std::mem::forget(r);
    kani::cover!(true, "end of harness reachable");
    std::mem::forget(s);
}
