// harnesses mounted as child module of agdb/src/graph_search.rs
#[allow(unused_imports)]
use super::*;
