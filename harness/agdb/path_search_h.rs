// harnesses mounted as child module of agdb/src/graph_search/path_search.rs
#[allow(unused_imports)]
use super::*;

use crate::graph::verif_h::{ArrG, RefGraph, graph_step, new_arr_graph};
use crate::graph_search::GraphSearch;
use crate::verif_support::{ArrStorage, GN, ok};

/// Cost class per slot: 0 = the conditions stop here (unusable), 1 = passes
/// (cost 1, listed), 2 = fails but usable (cost 2, not listed) -- what
/// `PathHandler::process` derives from Continue(true) / Continue(false) / Stop|Finish.
struct C17Handler {
    cls: [u8; GN],
}

impl PathSearchHandler for C17Handler {
    fn process(&self, index: GraphIndex, _distance: u64) -> Result<(u64, bool), DbError> {
        let sl = index.as_u64() as usize;
        assert!(sl >= 1 && sl < GN, "handler given an id outside the slots");
        Ok(match self.cls[sl] {
            0 => (0, false),
            1 => (1, true),
            _ => (2, false),
        })
    }
}

/// Replaces `std::mem::swap` (the byte-wise swap loses all constants): typed moves.
pub(crate) fn c17_swap<T>(a: &mut T, b: &mut T) {
    unsafe {
        let t = std::ptr::read(a);
        std::ptr::write(a, std::ptr::read(b));
        std::ptr::write(b, t);
    }
}

/// Replaces `<[T]>::sort_by` (std's driftsort/smallsort do not constant-fold and
/// dominate the run): a plain stable insertion sort driven by the real comparator.
pub(crate) struct C17Sort<T>(std::marker::PhantomData<T>);

impl<T> C17Sort<T> {
    pub(crate) fn sort_by<F>(v: &mut [T], mut compare: F)
    where
        F: FnMut(&T, &T) -> Ordering,
    {
        let n = v.len();
        let mut i = 1;
        while i < n {
            let mut j = i;
            while j > 0 && compare(&v[j - 1], &v[j]) == Ordering::Greater {
                v.swap(j - 1, j);
                j -= 1;
            }
            i += 1;
        }
    }
}

fn c17_cost(c: u8) -> u64 {
    if c == 1 { 1 } else { 2 }
}

fn c17_path(a: i64, na: usize, cost: u64) -> Path {
    // `na` elements (content irrelevant for ordering), given cost
    let mut elements = Vec::with_capacity(4);
    let mut k = 0;
    while k < na {
        elements.push((GraphIndex(a), true));
        k += 1;
    }
    Path { elements, cost }
}

//@ id=C17 tier=quick timeout=300 bounds="three partial paths with symbolic costs (any u64) and lengths 1,3,2 in the work list" desc="lemma (selection): after PathSearch::sort_paths the work list is a permutation of itself in non-increasing cost, so the path popped next (the last) has minimal cost" kernel="PathSearch::sort_paths" args="--no-assertion-reach-checks"
#[kani::proof]
#[kani::stub(<[Path]>::sort_by, C17Sort::sort_by)]
#[kani::stub(std::mem::swap, c17_swap)]
#[kani::stub(std::fmt::format, crate::verif_support::fmt_stub)]
#[kani::stub(crate::DbError::new, crate::verif_support::dberror_new_stub)]
#[kani::unwind(6)]
fn c17_sort_paths_cheapest_last() {
    let s = crate::storage::verif_h::fresh_arr_storage();
    let g = new_arr_graph();
    let h = C17Handler { cls: [1; GN] };
    let mut ps = PathSearch::new(&g, &s, GraphIndex(1), GraphIndex(2), h);
    let c: [u64; 3] = [kani::any(), kani::any(), kani::any()];
    let mut paths = Vec::with_capacity(4);
    paths.push(c17_path(1, 1, c[0]));
    paths.push(c17_path(2, 3, c[1]));
    paths.push(c17_path(3, 2, c[2]));
    let old = std::mem::replace(&mut ps.paths, paths);
    std::mem::forget(old);
    ps.sort_paths();
    assert!(ps.paths.len() == 3, "sort changed the number of paths");
    let n = [ps.paths[0].cost, ps.paths[1].cost, ps.paths[2].cost];
    assert!(n[0] >= n[1] && n[1] >= n[2], "work list not in non-increasing cost: cheapest path is not last");
    // permutation: every path is still there with its own cost (identified by its first element)
    let mut k = 0;
    while k < 3 {
        let id = ps.paths[k].elements[0].0.0;
        assert!(id >= 1 && id <= 3 && ps.paths[k].cost == c[(id - 1) as usize], "a path lost its cost");
        assert!(ps.paths[k].elements.len() == [1usize, 3, 2][(id - 1) as usize], "a path lost its elements");
        k += 1;
    }
    assert!(ps.paths[0].elements[0].0.0 + ps.paths[1].elements[0].0.0 + ps.paths[2].elements[0].0.0 == 6
        && ps.paths[0].elements[0].0.0 != ps.paths[1].elements[0].0.0
        && ps.paths[1].elements[0].0.0 != ps.paths[2].elements[0].0.0, "a path was duplicated");
    kani::cover!(c[0] == c[1] && c[1] == c[2], "all costs equal");
    kani::cover!(c[0] < c[1] && c[1] < c[2], "ascending input fully reversed");
    kani::cover!(true, "end of harness reachable");
    std::mem::forget(ps);
}

//@ id=C17 tier=quick timeout=600 bounds="concrete graph: nodes 1,2,3; edges -4 = 1->2, -5 = 1->3; current path [1] with symbolic cost < 100; node 1 visited; nodes 2 and 3 visited or not (symbolic); symbolic cost class (pass / fail / stop) for both edges and for nodes 2, 3" desc="lemma (expansion): PathSearch::expand pushes exactly one successor path per outgoing edge (newest first) whose edge and target are usable and whose target is not yet settled; each successor = current path + edge + target with cost increased by 1 per passing and 2 per failing element and the pass flags recorded; nothing else is pushed" kernel="PathSearch::expand,PathSearch::expand_edge,PathSearch::expand_node" args="--no-assertion-reach-checks" cbmc="--unwindset _RINvNtCs8xvirJzNMvV_4core3ptr9drop_glueNtNtNtCsblifWy3Zr35_4agdb2db8db_error7DbErrorEBH_:1"
#[kani::proof]
#[kani::stub(<[Path]>::sort_by, C17Sort::sort_by)]
#[kani::stub(std::mem::swap, c17_swap)]
#[kani::stub(std::fmt::format, crate::verif_support::fmt_stub)]
#[kani::stub(crate::DbError::new, crate::verif_support::dberror_new_stub)]
#[kani::unwind(7)]
fn c17_expand_successors() {
    let mut s = crate::storage::verif_h::fresh_arr_storage();
    let mut g = new_arr_graph();
    let mut m = RefGraph::with_limit(7);
    graph_step(&mut g, &mut s, &mut m, 0, 0, 0);
    graph_step(&mut g, &mut s, &mut m, 0, 0, 0);
    graph_step(&mut g, &mut s, &mut m, 0, 0, 0);
    graph_step(&mut g, &mut s, &mut m, 1, 1, 2);
    graph_step(&mut g, &mut s, &mut m, 1, 1, 3);
    let mut cls = [1u8; GN];
    cls[2] = kani::any();
    cls[3] = kani::any();
    cls[4] = kani::any();
    cls[5] = kani::any();
    kani::assume(cls[2] <= 2 && cls[3] <= 2 && cls[4] <= 2 && cls[5] <= 2);
    let h = C17Handler { cls };
    let mut ps = PathSearch::new(&g, &s, GraphIndex(1), GraphIndex(3), h);
    let old = std::mem::replace(&mut ps.paths, Vec::with_capacity(4));
    std::mem::forget(old);
    let c: u64 = kani::any();
    kani::assume(c < 100);
    let mut el = Vec::with_capacity(4);
    el.push((GraphIndex(1), true));
    let oldp = std::mem::replace(&mut ps.current_path, Path { elements: el, cost: c });
    std::mem::forget(oldp);
    ps.visited.set(1);
    ps.visited.set(2);
    ps.visited.set(3);
    let v2: bool = kani::any();
    let v3: bool = kani::any();
    if !v2 {
        ps.visited.unset(2);
    }
    if !v3 {
        ps.visited.unset(3);
    }
    let r = ps.expand(GraphIndex(1));
    assert!(crate::verif_support::is_ok(r), "expand failed");
    // outgoing edges of 1, newest first: -5 (to 3), -4 (to 2)
    let use5 = cls[5] != 0 && cls[3] != 0 && !v3;
    let use4 = cls[4] != 0 && cls[2] != 0 && !v2;
    assert!(ps.paths.len() == use5 as usize + use4 as usize, "number of successor paths differs");
    if use5 {
        let p = &ps.paths[0];
        assert!(p.elements.len() == 3 && p.elements[0].0.0 == 1 && p.elements[1].0.0 == -5 && p.elements[2].0.0 == 3, "successor over -5 is not [1,-5,3] or not first");
        assert!(p.cost == c + c17_cost(cls[5]) + c17_cost(cls[3]), "successor cost differs");
        assert!(p.elements[1].1 == (cls[5] == 1) && p.elements[2].1 == (cls[3] == 1), "pass flags differ");
    }
    if use4 {
        let p = &ps.paths[use5 as usize];
        assert!(p.elements.len() == 3 && p.elements[0].0.0 == 1 && p.elements[1].0.0 == -4 && p.elements[2].0.0 == 2, "successor over -4 is not [1,-4,2]");
        assert!(p.cost == c + c17_cost(cls[4]) + c17_cost(cls[2]), "successor cost differs");
        assert!(p.elements[1].1 == (cls[4] == 1) && p.elements[2].1 == (cls[2] == 1), "pass flags differ");
    }
    assert!(ps.current_path.elements.len() == 1 && ps.current_path.cost == c, "current path changed");
    kani::cover!(use5 && use4, "both successors");
    kani::cover!(cls[5] == 2 && cls[3] == 2 && use5, "failing edge and failing node cost 2 each");
    kani::cover!(!use5 && !use4 && cls[4] == 1 && cls[2] == 0, "target at which the conditions stop is unusable");
    kani::cover!(true, "end of harness reachable");
    std::mem::forget(ps);
    std::mem::forget(s);
}

//@ id=C17 tier=quick timeout=600 bounds="concrete graph: nodes 1,2,3; edges -4 = 1->2, -5 = 1->3, -6 = 1->1; current path [1] with symbolic cost < 100; node 1 visited; nodes 2 and 3 not visited; symbolic cost class (pass / fail / stop) for every edge and for nodes 2, 3" desc="lemma (expansion, self-loop): PathSearch::expand pushes exactly one successor path per outgoing edge (newest first) whose edge and target are usable and whose target is not yet settled; each successor = current path + edge + target with cost increased by 1 per passing and 2 per failing element and the pass flags recorded; nothing else is pushed" kernel="PathSearch::expand,PathSearch::expand_edge,PathSearch::expand_node" args="--no-assertion-reach-checks" cbmc="--unwindset _RINvNtCs8xvirJzNMvV_4core3ptr9drop_glueNtNtNtCsblifWy3Zr35_4agdb2db8db_error7DbErrorEBH_:1"
#[kani::proof]
#[kani::stub(<[Path]>::sort_by, C17Sort::sort_by)]
#[kani::stub(std::mem::swap, c17_swap)]
#[kani::stub(std::fmt::format, crate::verif_support::fmt_stub)]
#[kani::stub(crate::DbError::new, crate::verif_support::dberror_new_stub)]
#[kani::unwind(7)]
fn c17_expand_skips_selfloop() {
    let mut s = crate::storage::verif_h::fresh_arr_storage();
    let mut g = new_arr_graph();
    let mut m = RefGraph::with_limit(7);
    graph_step(&mut g, &mut s, &mut m, 0, 0, 0);
    graph_step(&mut g, &mut s, &mut m, 0, 0, 0);
    graph_step(&mut g, &mut s, &mut m, 0, 0, 0);
    graph_step(&mut g, &mut s, &mut m, 1, 1, 2);
    graph_step(&mut g, &mut s, &mut m, 1, 1, 3);
    graph_step(&mut g, &mut s, &mut m, 1, 1, 1);
    let mut cls = [1u8; GN];
    cls[2] = kani::any();
    cls[3] = kani::any();
    cls[4] = kani::any();
    cls[5] = kani::any();
    cls[6] = kani::any();
    kani::assume(cls[2] <= 2 && cls[3] <= 2 && cls[4] <= 2 && cls[5] <= 2 && cls[6] <= 2);
    let h = C17Handler { cls };
    let mut ps = PathSearch::new(&g, &s, GraphIndex(1), GraphIndex(3), h);
    let old = std::mem::replace(&mut ps.paths, Vec::with_capacity(4));
    std::mem::forget(old);
    let c: u64 = kani::any();
    kani::assume(c < 100);
    let mut el = Vec::with_capacity(4);
    el.push((GraphIndex(1), true));
    let oldp = std::mem::replace(&mut ps.current_path, Path { elements: el, cost: c });
    std::mem::forget(oldp);
    ps.visited.set(1);
    ps.visited.set(2);
    ps.visited.set(3);
    let v2 = false;
    let v3 = false;
    if !v2 {
        ps.visited.unset(2);
    }
    if !v3 {
        ps.visited.unset(3);
    }
    let r = ps.expand(GraphIndex(1));
    assert!(crate::verif_support::is_ok(r), "expand failed");
    // outgoing edges of 1, newest first: -6 (self-loop, target settled), -5 (to 3), -4 (to 2)
    let use5 = cls[5] != 0 && cls[3] != 0 && !v3;
    let use4 = cls[4] != 0 && cls[2] != 0 && !v2;
    assert!(ps.paths.len() == use5 as usize + use4 as usize, "number of successor paths differs");
    if use5 {
        let p = &ps.paths[0];
        assert!(p.elements.len() == 3 && p.elements[0].0.0 == 1 && p.elements[1].0.0 == -5 && p.elements[2].0.0 == 3, "successor over -5 is not [1,-5,3] or not first");
        assert!(p.cost == c + c17_cost(cls[5]) + c17_cost(cls[3]), "successor cost differs");
        assert!(p.elements[1].1 == (cls[5] == 1) && p.elements[2].1 == (cls[3] == 1), "pass flags differ");
    }
    if use4 {
        let p = &ps.paths[use5 as usize];
        assert!(p.elements.len() == 3 && p.elements[0].0.0 == 1 && p.elements[1].0.0 == -4 && p.elements[2].0.0 == 2, "successor over -4 is not [1,-4,2]");
        assert!(p.cost == c + c17_cost(cls[4]) + c17_cost(cls[2]), "successor cost differs");
        assert!(p.elements[1].1 == (cls[4] == 1) && p.elements[2].1 == (cls[2] == 1), "pass flags differ");
    }
    assert!(ps.current_path.elements.len() == 1 && ps.current_path.cost == c, "current path changed");
    kani::cover!(use5 && use4, "both successors");
    kani::cover!(cls[5] == 2 && cls[3] == 2 && use5, "failing edge and failing node cost 2 each");
    kani::cover!(!use5 && !use4 && cls[4] == 1 && cls[2] == 0, "target at which the conditions stop is unusable");
    kani::cover!(true, "end of harness reachable");
    std::mem::forget(ps);
    std::mem::forget(s);
}

//@ id=C17 tier=quick timeout=900 bounds="concrete graph: nodes 1,2, edge -3 = 1->2; from 1 to 2; four concrete cost assignments (all pass; edge fails; edge stops; destination stops)" desc="end to end on the smallest graph: GraphSearch::path lists exactly the passing elements of the only path, and returns an empty list when the edge or the destination is an element at which the conditions stop" kernel="GraphSearch::path,PathSearch::new,PathSearch::search,PathSearch::process_index,PathSearch::expand" args="--no-assertion-reach-checks" cbmc="--unwindset _RINvNtCs8xvirJzNMvV_4core3ptr9drop_glueNtNtNtCsblifWy3Zr35_4agdb2db8db_error7DbErrorEBH_:1"
#[kani::proof]
#[kani::stub(<[Path]>::sort_by, C17Sort::sort_by)]
#[kani::stub(std::mem::swap, c17_swap)]
#[kani::stub(std::fmt::format, crate::verif_support::fmt_stub)]
#[kani::stub(crate::DbError::new, crate::verif_support::dberror_new_stub)]
#[kani::unwind(6)]
fn c17_single_edge_end_to_end() {
    let mut s = crate::storage::verif_h::fresh_arr_storage();
    let mut g = new_arr_graph();
    let mut m = RefGraph::with_limit(4);
    graph_step(&mut g, &mut s, &mut m, 0, 0, 0);
    graph_step(&mut g, &mut s, &mut m, 0, 0, 0);
    graph_step(&mut g, &mut s, &mut m, 1, 1, 2);
    let res = ok(GraphSearch::from((&g, &s)).path(GraphIndex(1), GraphIndex(2), C17Handler { cls: [1; GN] }));
    assert!(res.len() == 3 && res[0].0 == 1 && res[1].0 == -3 && res[2].0 == 2, "all pass: [1,-3,2]");
    std::mem::forget(res);
    let mut cls = [1u8; GN];
    cls[3] = 2;
    let res = ok(GraphSearch::from((&g, &s)).path(GraphIndex(1), GraphIndex(2), C17Handler { cls }));
    assert!(res.len() == 2 && res[0].0 == 1 && res[1].0 == 2, "failing edge is used but not listed");
    std::mem::forget(res);
    cls[3] = 0;
    let res = ok(GraphSearch::from((&g, &s)).path(GraphIndex(1), GraphIndex(2), C17Handler { cls }));
    assert!(res.len() == 0, "edge at which the conditions stop cannot be used");
    std::mem::forget(res);
    cls[3] = 1;
    cls[2] = 0;
    let res = ok(GraphSearch::from((&g, &s)).path(GraphIndex(1), GraphIndex(2), C17Handler { cls }));
    assert!(res.len() == 0, "destination at which the conditions stop cannot be reached");
    std::mem::forget(res);
    let res = ok(GraphSearch::from((&g, &s)).path(GraphIndex(2), GraphIndex(1), C17Handler { cls: [1; GN] }));
    assert!(res.len() == 0, "no path against the edge direction");
    std::mem::forget(res);
    kani::cover!(true, "end of harness reachable");
    std::mem::forget(s);
}

//@ id=C17 tier=quick timeout=600 bounds="state: nodes 1,2 live, node 3 removed, edge -4 = 1->2; 12 concrete (from, to) pairs: from == to, removed node, edge id, zero, beyond the capacity, i64::MAX, i64::MIN + 1 on either side; plus the valid pair (1, 2)" desc="GraphSearch::path returns an empty list (and constructs no search) when origin equals destination or an endpoint is zero, out of range, a removed node, or an edge id" kernel="GraphSearch::path,GraphSearch::is_valid_node" args="--no-assertion-reach-checks" cbmc="--unwindset _RINvNtCs8xvirJzNMvV_4core3ptr9drop_glueNtNtNtCsblifWy3Zr35_4agdb2db8db_error7DbErrorEBH_:1"
#[kani::proof]
#[kani::stub(<[Path]>::sort_by, C17Sort::sort_by)]
#[kani::stub(std::mem::swap, c17_swap)]
#[kani::stub(std::fmt::format, crate::verif_support::fmt_stub)]
#[kani::stub(crate::DbError::new, crate::verif_support::dberror_new_stub)]
#[kani::unwind(14)]
fn c17_invalid_endpoints_empty() {
    let mut s = crate::storage::verif_h::fresh_arr_storage();
    let mut g = new_arr_graph();
    let mut m = RefGraph::with_limit(5);
    graph_step(&mut g, &mut s, &mut m, 0, 0, 0);
    graph_step(&mut g, &mut s, &mut m, 0, 0, 0);
    graph_step(&mut g, &mut s, &mut m, 0, 0, 0);
    graph_step(&mut g, &mut s, &mut m, 1, 1, 2);
    graph_step(&mut g, &mut s, &mut m, 2, 3, 0);
    let pairs: [(i64, i64); 12] = [
        (1, 1),
        (2, 2),
        (1, 3),
        (3, 1),
        (-4, 2),
        (1, -4),
        (0, 1),
        (1, 0),
        (5, 1),
        (1, 7),
        (i64::MAX, 1),
        (2, i64::MIN + 1),
    ];
    let mut k = 0;
    while k < 12 {
        let (from, to) = pairs[k];
        let res = ok(GraphSearch::from((&g, &s)).path(GraphIndex(from), GraphIndex(to), C17Handler { cls: [1; GN] }));
        assert!(res.len() == 0, "path with an invalid endpoint or origin == destination is not empty");
        std::mem::forget(res);
        k += 1;
    }
    let res = ok(GraphSearch::from((&g, &s)).path(GraphIndex(1), GraphIndex(2), C17Handler { cls: [1; GN] }));
    assert!(res.len() == 3 && res[1].0 == -4, "the valid pair of the same graph has the path [1,-4,2]");
    kani::cover!(true, "end of harness reachable");
    std::mem::forget(res);
    std::mem::forget(s);
}

//@ id=C17 tier=quick timeout=600 bounds="concrete graph: nodes 1,2,3; edge -4 = 2->3; destination 3; current path [1,?,x] with symbolic cost < 100 where x = destination; all elements pass" desc="lemma (settling): PathSearch::process_index turns the current path into the result when it ends at the destination (search finished); ignores it when its end node is already settled; otherwise settles the end node and pushes its successors" kernel="PathSearch::process_index,PathSearch::is_finished,PathSearch::expand" args="--no-assertion-reach-checks" cbmc="--unwindset _RINvNtCs8xvirJzNMvV_4core3ptr9drop_glueNtNtNtCsblifWy3Zr35_4agdb2db8db_error7DbErrorEBH_:1"
#[kani::proof]
#[kani::stub(<[Path]>::sort_by, C17Sort::sort_by)]
#[kani::stub(std::mem::swap, c17_swap)]
#[kani::stub(std::fmt::format, crate::verif_support::fmt_stub)]
#[kani::stub(crate::DbError::new, crate::verif_support::dberror_new_stub)]
#[kani::unwind(7)]
fn c17_process_index_destination() {
    let mut s = crate::storage::verif_h::fresh_arr_storage();
    let mut g = new_arr_graph();
    let mut m = RefGraph::with_limit(5);
    graph_step(&mut g, &mut s, &mut m, 0, 0, 0);
    graph_step(&mut g, &mut s, &mut m, 0, 0, 0);
    graph_step(&mut g, &mut s, &mut m, 0, 0, 0);
    graph_step(&mut g, &mut s, &mut m, 1, 2, 3);
    let mut ps = PathSearch::new(&g, &s, GraphIndex(1), GraphIndex(3), C17Handler { cls: [1; GN] });
    let old = std::mem::replace(&mut ps.paths, Vec::with_capacity(4));
    std::mem::forget(old);
    let c: u64 = kani::any();
    kani::assume(c < 100);
    let at_dest = true;
    let x: i64 = if at_dest { 3 } else { 2 };
    let mut el = Vec::with_capacity(8);
    el.push((GraphIndex(1), true));
    el.push((GraphIndex(-6), true));
    el.push((GraphIndex(x), true));
    let oldp = std::mem::replace(&mut ps.current_path, Path { elements: el, cost: c });
    std::mem::forget(oldp);
    ps.visited.set(1);
    ps.visited.set(2);
    let settled = false;
    if !settled {
        ps.visited.unset(2);
    }
    let r = ps.process_index(GraphIndex(x));
    assert!(crate::verif_support::is_ok(r), "process_index failed");
    if at_dest {
        assert!(ps.is_finished(), "destination reached but search not finished");
        assert!(ps.result.len() == 3 && ps.result[2].0.0 == 3 && ps.result[1].0.0 == -6, "result is not the current path");
        assert!(ps.paths.len() == 0, "destination was expanded");
    } else if settled {
        assert!(ps.result.is_empty() && ps.paths.len() == 0, "settled node processed again");
    } else {
        assert!(ps.result.is_empty(), "result without reaching the destination");
        assert!(ps.visited.value(2), "end node not settled");
        assert!(ps.paths.len() == 1, "successor missing");
        let p = &ps.paths[0];
        assert!(p.cost == c + 2 && p.elements.len() == 5 && p.elements[3].0.0 == -4 && p.elements[4].0.0 == 3, "successor is not [1,-6,2,-4,3] with cost + 2");
    }
    kani::cover!(true, "end of harness reachable");
    std::mem::forget(ps);
    std::mem::forget(s);
}

//@ id=C17 tier=quick timeout=600 bounds="concrete graph: nodes 1,2,3; edge -4 = 2->3; destination 3; current path [1,?,x] with symbolic cost < 100 where x = node 2, already settled; all elements pass" desc="lemma (settling): PathSearch::process_index turns the current path into the result when it ends at the destination (search finished); ignores it when its end node is already settled; otherwise settles the end node and pushes its successors" kernel="PathSearch::process_index,PathSearch::is_finished,PathSearch::expand" args="--no-assertion-reach-checks" cbmc="--unwindset _RINvNtCs8xvirJzNMvV_4core3ptr9drop_glueNtNtNtCsblifWy3Zr35_4agdb2db8db_error7DbErrorEBH_:1"
#[kani::proof]
#[kani::stub(<[Path]>::sort_by, C17Sort::sort_by)]
#[kani::stub(std::mem::swap, c17_swap)]
#[kani::stub(std::fmt::format, crate::verif_support::fmt_stub)]
#[kani::stub(crate::DbError::new, crate::verif_support::dberror_new_stub)]
#[kani::unwind(7)]
fn c17_process_index_settled() {
    let mut s = crate::storage::verif_h::fresh_arr_storage();
    let mut g = new_arr_graph();
    let mut m = RefGraph::with_limit(5);
    graph_step(&mut g, &mut s, &mut m, 0, 0, 0);
    graph_step(&mut g, &mut s, &mut m, 0, 0, 0);
    graph_step(&mut g, &mut s, &mut m, 0, 0, 0);
    graph_step(&mut g, &mut s, &mut m, 1, 2, 3);
    let mut ps = PathSearch::new(&g, &s, GraphIndex(1), GraphIndex(3), C17Handler { cls: [1; GN] });
    let old = std::mem::replace(&mut ps.paths, Vec::with_capacity(4));
    std::mem::forget(old);
    let c: u64 = kani::any();
    kani::assume(c < 100);
    let at_dest = false;
    let x: i64 = if at_dest { 3 } else { 2 };
    let mut el = Vec::with_capacity(8);
    el.push((GraphIndex(1), true));
    el.push((GraphIndex(-6), true));
    el.push((GraphIndex(x), true));
    let oldp = std::mem::replace(&mut ps.current_path, Path { elements: el, cost: c });
    std::mem::forget(oldp);
    ps.visited.set(1);
    ps.visited.set(2);
    let settled = true;
    if !settled {
        ps.visited.unset(2);
    }
    let r = ps.process_index(GraphIndex(x));
    assert!(crate::verif_support::is_ok(r), "process_index failed");
    if at_dest {
        assert!(ps.is_finished(), "destination reached but search not finished");
        assert!(ps.result.len() == 3 && ps.result[2].0.0 == 3 && ps.result[1].0.0 == -6, "result is not the current path");
        assert!(ps.paths.len() == 0, "destination was expanded");
    } else if settled {
        assert!(ps.result.is_empty() && ps.paths.len() == 0, "settled node processed again");
    } else {
        assert!(ps.result.is_empty(), "result without reaching the destination");
        assert!(ps.visited.value(2), "end node not settled");
        assert!(ps.paths.len() == 1, "successor missing");
        let p = &ps.paths[0];
        assert!(p.cost == c + 2 && p.elements.len() == 5 && p.elements[3].0.0 == -4 && p.elements[4].0.0 == 3, "successor is not [1,-6,2,-4,3] with cost + 2");
    }
    kani::cover!(true, "end of harness reachable");
    std::mem::forget(ps);
    std::mem::forget(s);
}

//@ id=C17 tier=quick timeout=600 bounds="concrete graph: nodes 1,2,3; edge -4 = 2->3; destination 3; current path [1,?,x] with symbolic cost < 100 where x = node 2, open; all elements pass" desc="lemma (settling): PathSearch::process_index turns the current path into the result when it ends at the destination (search finished); ignores it when its end node is already settled; otherwise settles the end node and pushes its successors" kernel="PathSearch::process_index,PathSearch::is_finished,PathSearch::expand" args="--no-assertion-reach-checks" cbmc="--unwindset _RINvNtCs8xvirJzNMvV_4core3ptr9drop_glueNtNtNtCsblifWy3Zr35_4agdb2db8db_error7DbErrorEBH_:1"
#[kani::proof]
#[kani::stub(<[Path]>::sort_by, C17Sort::sort_by)]
#[kani::stub(std::mem::swap, c17_swap)]
#[kani::stub(std::fmt::format, crate::verif_support::fmt_stub)]
#[kani::stub(crate::DbError::new, crate::verif_support::dberror_new_stub)]
#[kani::unwind(7)]
fn c17_process_index_open() {
    let mut s = crate::storage::verif_h::fresh_arr_storage();
    let mut g = new_arr_graph();
    let mut m = RefGraph::with_limit(5);
    graph_step(&mut g, &mut s, &mut m, 0, 0, 0);
    graph_step(&mut g, &mut s, &mut m, 0, 0, 0);
    graph_step(&mut g, &mut s, &mut m, 0, 0, 0);
    graph_step(&mut g, &mut s, &mut m, 1, 2, 3);
    let mut ps = PathSearch::new(&g, &s, GraphIndex(1), GraphIndex(3), C17Handler { cls: [1; GN] });
    let old = std::mem::replace(&mut ps.paths, Vec::with_capacity(4));
    std::mem::forget(old);
    let c: u64 = kani::any();
    kani::assume(c < 100);
    let at_dest = false;
    let x: i64 = if at_dest { 3 } else { 2 };
    let mut el = Vec::with_capacity(8);
    el.push((GraphIndex(1), true));
    el.push((GraphIndex(-6), true));
    el.push((GraphIndex(x), true));
    let oldp = std::mem::replace(&mut ps.current_path, Path { elements: el, cost: c });
    std::mem::forget(oldp);
    ps.visited.set(1);
    ps.visited.set(2);
    let settled = false;
    if !settled {
        ps.visited.unset(2);
    }
    let r = ps.process_index(GraphIndex(x));
    assert!(crate::verif_support::is_ok(r), "process_index failed");
    if at_dest {
        assert!(ps.is_finished(), "destination reached but search not finished");
        assert!(ps.result.len() == 3 && ps.result[2].0.0 == 3 && ps.result[1].0.0 == -6, "result is not the current path");
        assert!(ps.paths.len() == 0, "destination was expanded");
    } else if settled {
        assert!(ps.result.is_empty() && ps.paths.len() == 0, "settled node processed again");
    } else {
        assert!(ps.result.is_empty(), "result without reaching the destination");
        assert!(ps.visited.value(2), "end node not settled");
        assert!(ps.paths.len() == 1, "successor missing");
        let p = &ps.paths[0];
        assert!(p.cost == c + 2 && p.elements.len() == 5 && p.elements[3].0.0 == -4 && p.elements[4].0.0 == 3, "successor is not [1,-6,2,-4,3] with cost + 2");
    }
    kani::cover!(true, "end of harness reachable");
    std::mem::forget(ps);
    std::mem::forget(s);
}

