// harnesses mounted as child module of agdb/src/storage/any_storage.rs
#[allow(unused_imports)]
use super::*;
