// harnesses mounted as child module of agdb/src/storage/any_storage.rs
//
// C06: all storage variants behave identically. `DbImpl<Store>` is a
// deterministic function of the answers its `StorageData` gives, so the
// variants give identical query results iff they are observationally equal as
// `StorageData`. Each variant is compared, call by call, against ONE reference
// model (a byte array with a length): same Ok/Err, same `len()`, same bytes
// from `read` (owned vs borrowed compared by content), same `is_empty()`.
// The file-backed variants run over the model file system.
#[allow(unused_imports)]
use super::*;
use crate::verif_fs;
use crate::verif_support::ok;

const C06_INIT_MAX: usize = 3;

struct C06Ref {
    d: [u8; 12],
    n: usize,
}

impl C06Ref {
    fn write(&mut self, pos: usize, b: &[u8; 3], l: usize) {
        // gap [n, pos) cannot exist: pos <= n is the contract domain
        if l > 0 {
            self.d[pos] = b[0];
        }
        if l > 1 {
            self.d[pos + 1] = b[1];
        }
        if l > 2 {
            self.d[pos + 2] = b[2];
        }
        if pos + l > self.n {
            self.n = pos + l;
        }
    }
    fn resize(&mut self, new_len: usize) {
        macro_rules! z { ($($i:literal),*) => { $( if $i >= self.n && $i < new_len { self.d[$i] = 0; } )* }; }
        z!(0, 1, 2, 3, 4, 5, 6, 7, 8, 9, 10, 11);
        self.n = new_len;
    }
}

fn c06_init() -> (C06Ref, Vec<u8>) {
    let init: [u8; C06_INIT_MAX] = kani::any();
    let n0: usize = kani::any();
    kani::assume(n0 <= C06_INIT_MAX);
    verif_fs::reset(&init[..n0]);
    let mut r = C06Ref { d: [0; 12], n: n0 };
    let mut v: Vec<u8> = Vec::with_capacity(12);
    unsafe {
        let p = v.as_mut_ptr();
        if n0 > 0 {
            r.d[0] = init[0];
            p.add(0).write(init[0]);
        }
        if n0 > 1 {
            r.d[1] = init[1];
            p.add(1).write(init[1]);
        }
        if n0 > 2 {
            r.d[2] = init[2];
            p.add(2).write(init[2]);
        }
        v.set_len(n0);
    }
    (r, v)
}

/// `s` and the reference agree on everything a `StorageData` user can observe.
fn c06_same<S: StorageData>(s: &S, r: &C06Ref) {
    assert!(s.len() == r.n as u64, "C06: len() differs from the reference");
    assert!(s.is_empty() == (r.n == 0), "C06: is_empty() differs from the reference");
    // whole content
    let all = ok(s.read(0, r.n as u64));
    assert!(all.len() == r.n, "C06: read(0, len) returned a different number of bytes");
    macro_rules! cmp { ($($i:literal),*) => { $( if $i < r.n { assert!(all[$i] == r.d[$i], "C06: content differs from the reference"); } )* }; }
    cmp!(0, 1, 2, 3, 4, 5, 6, 7, 8, 9);
    std::mem::forget(all);
    // an arbitrary window inside the content
    let p: usize = kani::any();
    let l: usize = kani::any();
    kani::assume(l <= 3 && p <= r.n && l <= r.n - p);
    let w = ok(s.read(p as u64, l as u64));
    assert!(w.len() == l, "C06: read(pos, n) returned a different number of bytes");
    if l > 0 {
        assert!(w[0] == r.d[p], "C06: window content differs");
    }
    if l > 1 {
        assert!(w[1] == r.d[p + 1], "C06: window content differs");
    }
    if l > 2 {
        assert!(w[2] == r.d[p + 2], "C06: window content differs");
    }
    std::mem::forget(w);
}

/// One symbolic call applied to both; returns the kind for covers.
fn c06_step<S: StorageData>(s: &mut S, r: &mut C06Ref) -> u8 {
    let kind: u8 = kani::any();
    kani::assume(kind < 3);
    if kind == 0 {
        let pos: usize = kani::any();
        let l: usize = kani::any();
        let b: [u8; 3] = kani::any();
        // contract domain used by Storage: a write starts at or before the end
        kani::assume(l <= 2 && pos <= r.n);
        ok(s.write(pos as u64, &b[..l]));
        r.write(pos, &b, l);
    } else if kind == 1 {
        let new_len: usize = kani::any();
        kani::assume(new_len <= r.n + 2);
        ok(s.resize(new_len as u64));
        r.resize(new_len);
    } else {
        ok(s.flush());
    }
    kind
}

fn c06_run<S: StorageData>(s: &mut S, r: &mut C06Ref, steps: usize) {
    c06_same(s, r);
    let k1 = c06_step(s, r);
    c06_same(s, r);
    let mut k2 = 9;
    if steps > 1 {
        k2 = c06_step(s, r);
        c06_same(s, r);
    }
    kani::cover!(k1 == 0, "write");
    kani::cover!(k1 == 1, "resize");
    kani::cover!(steps < 2 || (k1 == 1 && k2 == 0), "resize then write");
    kani::cover!(true, "end of harness reachable");
}

//@ id=C06 tier=quick timeout=900 bounds="initial content 0..=3 symbolic bytes; 1 symbolic call (write of 0..=2 bytes at pos <= len incl. across the end, resize to <= len+2, flush); after each call len/is_empty/full content/an arbitrary window compared" desc="MemoryStorage is observationally equal to the reference byte-array model" kernel="MemoryStorage::write,MemoryStorage::resize,MemoryStorage::read,MemoryStorage::len"
#[kani::proof]
#[kani::stub(std::fmt::format, crate::verif_support::fmt_stub)]
#[kani::stub(crate::DbError::new, crate::verif_support::dberror_new_stub)]
#[kani::unwind(5)]
fn c06_memory_storage_one_call() {
    let (mut r, v) = c06_init();
    let mut s = MemoryStorage::from_buffer("m", v);
    c06_run(&mut s, &mut r, 1);
    std::mem::forget(s);
}

//@ id=C06 tier=thorough timeout=3600 bounds="initial content 0..=3 symbolic bytes; 2 symbolic calls (write of 0..=2 bytes at pos <= len incl. across the end, resize to <= len+2, flush); after each call len/is_empty/full content/an arbitrary window compared" desc="MemoryStorage is observationally equal to the reference byte-array model" kernel="MemoryStorage::write,MemoryStorage::resize,MemoryStorage::read,MemoryStorage::len"
#[kani::proof]
#[kani::stub(std::fmt::format, crate::verif_support::fmt_stub)]
#[kani::stub(crate::DbError::new, crate::verif_support::dberror_new_stub)]
#[kani::unwind(5)]
fn c06_memory_storage_matches_reference() {
    let (mut r, v) = c06_init();
    let mut s = MemoryStorage::from_buffer("m", v);
    c06_run(&mut s, &mut r, 2);
    std::mem::forget(s);
}

//@ id=C06 tier=quick timeout=1200 bounds="as the MemoryStorage harness, variant AnyStorage::Memory, 1 call" desc="AnyStorage::Memory delegates every call unchanged" kernel="AnyStorage::write,AnyStorage::resize,AnyStorage::read,AnyStorage::len,AnyStorage::is_empty,AnyStorage::flush"
#[kani::proof]
#[kani::stub(std::fmt::format, crate::verif_support::fmt_stub)]
#[kani::stub(crate::DbError::new, crate::verif_support::dberror_new_stub)]
#[kani::unwind(5)]
fn c06_any_memory_matches_reference() {
    let (mut r, v) = c06_init();
    let mut s = AnyStorage::Memory(MemoryStorage::from_buffer("m", v));
    c06_run(&mut s, &mut r, 1);
    std::mem::forget(s);
}

//@ id=C06 tier=quick timeout=1500 mem=16 bounds="initial file content 0..=3 symbolic bytes (model file system); 1 symbolic call; after each call len/is_empty/full content/an arbitrary window compared" desc="FileStorage is observationally equal to the reference byte-array model" kernel="FileStorage::new,FileStorage::write,FileStorage::resize,FileStorage::read,FileStorage::len,FileStorage::flush"
#[kani::proof]
#[kani::stub(std::fmt::format, crate::verif_support::fmt_stub)]
#[kani::stub(crate::DbError::new, crate::verif_support::dberror_new_stub)]
#[kani::stub(<crate::DbError as std::convert::From<std::io::Error>>::from, crate::verif_support::ioerr_stub)]
#[kani::stub(crate::storage::write_ahead_log::WriteAheadLog::wal_filename, crate::verif_support::wal_name_stub)]
#[kani::stub(std::vec::from_elem, crate::verif_support::from_elem_stub8)]
#[kani::unwind(3)]
fn c06_file_storage_one_call() {
    let (mut r, v) = c06_init();
    std::mem::forget(v);
    let mut s = ok(FileStorage::new("db"));
    c06_run(&mut s, &mut r, 1);
    std::mem::forget(s);
}

//@ id=C06 tier=thorough timeout=5400 mem=16 bounds="initial file content 0..=3 symbolic bytes (model file system); 2 symbolic calls; after each call len/is_empty/full content/an arbitrary window compared" desc="FileStorage is observationally equal to the reference byte-array model" kernel="FileStorage::new,FileStorage::write,FileStorage::resize,FileStorage::read,FileStorage::len,FileStorage::flush"
#[kani::proof]
#[kani::stub(std::fmt::format, crate::verif_support::fmt_stub)]
#[kani::stub(crate::DbError::new, crate::verif_support::dberror_new_stub)]
#[kani::stub(<crate::DbError as std::convert::From<std::io::Error>>::from, crate::verif_support::ioerr_stub)]
#[kani::stub(crate::storage::write_ahead_log::WriteAheadLog::wal_filename, crate::verif_support::wal_name_stub)]
#[kani::stub(std::vec::from_elem, crate::verif_support::from_elem_stub8)]
#[kani::unwind(3)]
fn c06_file_storage_matches_reference() {
    let (mut r, v) = c06_init();
    std::mem::forget(v);
    let mut s = ok(FileStorage::new("db"));
    c06_run(&mut s, &mut r, 2);
    std::mem::forget(s);
}

//@ id=C06 tier=quick timeout=1500 mem=16 bounds="as the FileStorage harness, variant AnyStorage::File, 1 call" desc="AnyStorage::File delegates every call unchanged" kernel="AnyStorage::write,AnyStorage::resize,AnyStorage::read,AnyStorage::len"
#[kani::proof]
#[kani::stub(std::fmt::format, crate::verif_support::fmt_stub)]
#[kani::stub(crate::DbError::new, crate::verif_support::dberror_new_stub)]
#[kani::stub(<crate::DbError as std::convert::From<std::io::Error>>::from, crate::verif_support::ioerr_stub)]
#[kani::stub(crate::storage::write_ahead_log::WriteAheadLog::wal_filename, crate::verif_support::wal_name_stub)]
#[kani::stub(std::vec::from_elem, crate::verif_support::from_elem_stub8)]
#[kani::unwind(3)]
fn c06_any_file_matches_reference() {
    let (mut r, v) = c06_init();
    std::mem::forget(v);
    let mut s = AnyStorage::File(ok(FileStorage::new("db")));
    c06_run(&mut s, &mut r, 1);
    std::mem::forget(s);
}

//@ id=C06 tier=quick timeout=1500 mem=16 bounds="initial file content 0..=3 symbolic bytes; 1 symbolic call" desc="FileStorageMemoryMapped (the default Db variant) is observationally equal to the reference model, and its file copy stays identical to its memory copy" kernel="FileStorageMemoryMapped::new,FileStorageMemoryMapped::write,FileStorageMemoryMapped::resize,FileStorageMemoryMapped::read,FileStorageMemoryMapped::len"
#[kani::proof]
#[kani::stub(std::fmt::format, crate::verif_support::fmt_stub)]
#[kani::stub(crate::DbError::new, crate::verif_support::dberror_new_stub)]
#[kani::stub(<crate::DbError as std::convert::From<std::io::Error>>::from, crate::verif_support::ioerr_stub)]
#[kani::stub(crate::storage::write_ahead_log::WriteAheadLog::wal_filename, crate::verif_support::wal_name_stub)]
#[kani::stub(std::vec::from_elem, crate::verif_support::from_elem_stub8)]
#[kani::unwind(3)]
fn c06_memory_mapped_one_call() {
    let (mut r, v) = c06_init();
    std::mem::forget(v);
    let mut s = ok(FileStorageMemoryMapped::new("db"));
    c06_run(&mut s, &mut r, 1);
    // the persistent copy equals what reads are served from
    assert!(verif_fs::data_len() == r.n, "C06: memory-mapped variant: file length differs from memory");
    macro_rules! cmp { ($($i:literal),*) => { $( if $i < r.n { assert!(verif_fs::data_byte($i) == r.d[$i], "C06: memory-mapped variant: file content differs from memory"); } )* }; }
    cmp!(0, 1, 2, 3, 4, 5, 6, 7, 8, 9);
    std::mem::forget(s);
}

//@ id=C06 tier=thorough timeout=5400 mem=16 bounds="initial file content 0..=3 symbolic bytes; 2 symbolic calls" desc="FileStorageMemoryMapped (the default Db variant) is observationally equal to the reference model, and its file copy stays identical to its memory copy" kernel="FileStorageMemoryMapped::new,FileStorageMemoryMapped::write,FileStorageMemoryMapped::resize,FileStorageMemoryMapped::read,FileStorageMemoryMapped::len"
#[kani::proof]
#[kani::stub(std::fmt::format, crate::verif_support::fmt_stub)]
#[kani::stub(crate::DbError::new, crate::verif_support::dberror_new_stub)]
#[kani::stub(<crate::DbError as std::convert::From<std::io::Error>>::from, crate::verif_support::ioerr_stub)]
#[kani::stub(crate::storage::write_ahead_log::WriteAheadLog::wal_filename, crate::verif_support::wal_name_stub)]
#[kani::stub(std::vec::from_elem, crate::verif_support::from_elem_stub8)]
#[kani::unwind(3)]
fn c06_memory_mapped_matches_reference() {
    let (mut r, v) = c06_init();
    std::mem::forget(v);
    let mut s = ok(FileStorageMemoryMapped::new("db"));
    c06_run(&mut s, &mut r, 2);
    // the persistent copy equals what reads are served from
    assert!(verif_fs::data_len() == r.n, "C06: memory-mapped variant: file length differs from memory");
    macro_rules! cmp { ($($i:literal),*) => { $( if $i < r.n { assert!(verif_fs::data_byte($i) == r.d[$i], "C06: memory-mapped variant: file content differs from memory"); } )* }; }
    cmp!(0, 1, 2, 3, 4, 5, 6, 7, 8, 9);
    std::mem::forget(s);
}

//@ id=C06 tier=thorough timeout=5400 mem=16 bounds="as the memory-mapped harness, variant AnyStorage::MemoryMapped (what AnyStorage::new builds), 1 call" desc="AnyStorage::new builds the memory-mapped variant and delegates unchanged" kernel="AnyStorage::new,AnyStorage::write,AnyStorage::resize,AnyStorage::read,AnyStorage::len"
#[kani::proof]
#[kani::stub(std::fmt::format, crate::verif_support::fmt_stub)]
#[kani::stub(crate::DbError::new, crate::verif_support::dberror_new_stub)]
#[kani::stub(<crate::DbError as std::convert::From<std::io::Error>>::from, crate::verif_support::ioerr_stub)]
#[kani::stub(crate::storage::write_ahead_log::WriteAheadLog::wal_filename, crate::verif_support::wal_name_stub)]
#[kani::stub(std::vec::from_elem, crate::verif_support::from_elem_stub8)]
#[kani::unwind(3)]
fn c06_any_new_matches_reference() {
    let (mut r, v) = c06_init();
    std::mem::forget(v);
    let mut s = ok(AnyStorage::new("db"));
    assert!(matches!(s, AnyStorage::MemoryMapped(_)), "C06: AnyStorage::new is documented to build the memory-mapped variant");
    c06_run(&mut s, &mut r, 1);
    std::mem::forget(s);
}

//@ id=C06 tier=quick timeout=900 mem=16 bounds="initial file content 0..=3 symbolic bytes; no mutating call" desc="AnyStorage::new builds the memory-mapped variant (as documented) and presents the file content unchanged" kernel="AnyStorage::new,AnyStorage::read,AnyStorage::len,AnyStorage::is_empty,FileStorageMemoryMapped::new"
#[kani::proof]
#[kani::stub(std::fmt::format, crate::verif_support::fmt_stub)]
#[kani::stub(crate::DbError::new, crate::verif_support::dberror_new_stub)]
#[kani::stub(<crate::DbError as std::convert::From<std::io::Error>>::from, crate::verif_support::ioerr_stub)]
#[kani::stub(crate::storage::write_ahead_log::WriteAheadLog::wal_filename, crate::verif_support::wal_name_stub)]
#[kani::stub(std::vec::from_elem, crate::verif_support::from_elem_stub8)]
#[kani::unwind(3)]
fn c06_any_new_is_memory_mapped_and_reads_the_file() {
    let (r, v) = c06_init();
    std::mem::forget(v);
    let s = ok(AnyStorage::new("db"));
    assert!(matches!(s, AnyStorage::MemoryMapped(_)), "C06: AnyStorage::new is documented to build the memory-mapped variant");
    c06_same(&s, &r);
    kani::cover!(r.n == 3, "three bytes");
    kani::cover!(true, "end of harness reachable");
    std::mem::forget(s);
}

// ---------------------------------------------------------------------------
// A shrink followed by a grow (two resize calls with symbolic lengths) and a
// straddling write followed by an append: the two-call shapes in which a variant
// that keeps a second copy (memory-mapped) or a cached length (file) can drift
// from the others. Cheaper than two fully symbolic calls, so they are in the
// quick tier.
// ---------------------------------------------------------------------------
fn c06_shrink_then_grow<S: StorageData>(s: &mut S, r: &mut C06Ref) {
    c06_same(s, r);
    let a: usize = kani::any();
    kani::assume(a <= r.n);
    ok(s.resize(a as u64));
    r.resize(a);
    c06_same(s, r);
    let b: usize = kani::any();
    kani::assume(b >= a && b <= a + 2);
    ok(s.resize(b as u64));
    r.resize(b);
    c06_same(s, r);
    kani::cover!(a < 3 && b > a, "shrunk and grown again");
    kani::cover!(true, "end of harness reachable");
}

//@ id=C06 tier=quick timeout=1500 mem=16 bounds="initial file content 0..=3 symbolic bytes; resize to a symbolic smaller-or-equal length, then to a symbolic length up to 2 larger; compared after each call" desc="memory-mapped variant: bytes re-exposed by growing after a shrink read as zeros in memory AND in the file copy, like every other variant" kernel="FileStorageMemoryMapped::resize,FileStorageMemoryMapped::read,FileStorageMemoryMapped::len,MemoryStorage::resize,FileStorage::resize"
#[kani::proof]
#[kani::stub(std::fmt::format, crate::verif_support::fmt_stub)]
#[kani::stub(crate::DbError::new, crate::verif_support::dberror_new_stub)]
#[kani::stub(<crate::DbError as std::convert::From<std::io::Error>>::from, crate::verif_support::ioerr_stub)]
#[kani::stub(crate::storage::write_ahead_log::WriteAheadLog::wal_filename, crate::verif_support::wal_name_stub)]
#[kani::stub(std::vec::from_elem, crate::verif_support::from_elem_stub8)]
#[kani::unwind(3)]
fn c06_memory_mapped_shrink_then_grow() {
    let (mut r, v) = c06_init();
    std::mem::forget(v);
    let mut s = ok(FileStorageMemoryMapped::new("db"));
    c06_shrink_then_grow(&mut s, &mut r);
    assert!(verif_fs::data_len() == r.n, "C06: memory-mapped variant: file length differs from memory");
    macro_rules! cmp { ($($i:literal),*) => { $( if $i < r.n { assert!(verif_fs::data_byte($i) == r.d[$i], "C06: memory-mapped variant: file content differs from memory"); } )* }; }
    cmp!(0, 1, 2, 3, 4, 5);
    std::mem::forget(s);
}

//@ id=C06 tier=quick timeout=1500 mem=16 bounds="as above, variant FileStorage" desc="file variant: shrink then grow re-exposes zeros" kernel="FileStorage::resize,FileStorage::read,FileStorage::len"
#[kani::proof]
#[kani::stub(std::fmt::format, crate::verif_support::fmt_stub)]
#[kani::stub(crate::DbError::new, crate::verif_support::dberror_new_stub)]
#[kani::stub(<crate::DbError as std::convert::From<std::io::Error>>::from, crate::verif_support::ioerr_stub)]
#[kani::stub(crate::storage::write_ahead_log::WriteAheadLog::wal_filename, crate::verif_support::wal_name_stub)]
#[kani::stub(std::vec::from_elem, crate::verif_support::from_elem_stub8)]
#[kani::unwind(3)]
fn c06_file_storage_shrink_then_grow() {
    let (mut r, v) = c06_init();
    std::mem::forget(v);
    let mut s = ok(FileStorage::new("db"));
    c06_shrink_then_grow(&mut s, &mut r);
    std::mem::forget(s);
}

//@ id=C06 tier=quick timeout=900 bounds="as above, variant MemoryStorage" desc="memory variant: shrink then grow re-exposes zeros" kernel="MemoryStorage::resize,MemoryStorage::read,MemoryStorage::len"
#[kani::proof]
#[kani::stub(std::fmt::format, crate::verif_support::fmt_stub)]
#[kani::stub(crate::DbError::new, crate::verif_support::dberror_new_stub)]
#[kani::unwind(5)]
fn c06_memory_storage_shrink_then_grow() {
    let (mut r, v) = c06_init();
    let mut s = MemoryStorage::from_buffer("m", v);
    c06_shrink_then_grow(&mut s, &mut r);
    std::mem::forget(s);
}
