// harnesses mounted as child module of agdb/src/graph.rs
#[allow(unused_imports)]
use super::*;

use crate::verif_support::{ArrGraph, ArrStorage, GN, ok};

// ---------------------------------------------------------------------------
// Shared by graph_h.rs, graph_search_h.rs, search_impl_h.rs, path_search_h.rs
// ---------------------------------------------------------------------------

pub(crate) type ArrG = GraphImpl<ArrStorage, ArrGraph>;

/// The real `GraphImpl` over the array-backed `GraphData` (same initial
/// content as `DbGraph::new`).
pub(crate) fn new_arr_graph() -> ArrG {
    GraphImpl {
        data: ArrGraph::new(),
        storage: PhantomData,
    }
}

pub(crate) fn arr_data(g: &ArrG) -> &ArrGraph {
    &g.data
}

/// Reference multigraph in plain arrays, indexed by slot number (= |id|).
#[derive(Clone, Copy)]
pub(crate) struct RefGraph {
    /// 0 = free / never used, 1 = node, 2 = edge
    pub kind: [u8; GN],
    /// origin node id of the edge in this slot
    pub ef: [i64; GN],
    /// destination node id of the edge in this slot
    pub et: [i64; GN],
    /// insertion sequence number of the edge in this slot (larger = newer)
    pub seq: [u32; GN],
    pub next_seq: u32,
    /// number of slots handed out so far + 1 (slot 0 is the header)
    pub cap: usize,
    /// concrete loop limit of the harness: slots >= lim are never used (lim <= GN)
    pub lim: usize,
    /// concrete bound on the length of any adjacency list in the harness
    pub maxl: usize,
}

impl RefGraph {
    pub(crate) fn new() -> Self {
        Self::with_limit(GN)
    }

    pub(crate) fn with_limit(lim: usize) -> Self {
        RefGraph {
            kind: [0; GN],
            ef: [0; GN],
            et: [0; GN],
            seq: [0; GN],
            next_seq: 1,
            cap: 1,
            lim,
            maxl: lim,
        }
    }

    pub(crate) fn slot(a: i64) -> usize {
        // 0 = "no such slot"
        if a == i64::MIN {
            return 0;
        }
        let m = a.unsigned_abs();
        if m >= GN as u64 { 0 } else { m as usize }
    }

    pub(crate) fn is_node(&self, a: i64) -> bool {
        let s = Self::slot(a);
        a > 0 && s != 0 && self.kind[s] == 1
    }

    pub(crate) fn is_edge(&self, a: i64) -> bool {
        let s = Self::slot(a);
        a < 0 && s != 0 && self.kind[s] == 2
    }

    /// An id whose sign contradicts the kind of the live element in its slot
    /// (`-n` for a live node `n`, `+e` for a live edge `-e`). `DbImpl::graph_index`
    /// never lets such an id reach `GraphImpl`; the harnesses exclude it too.
    pub(crate) fn wrong_sign(&self, a: i64) -> bool {
        let s = Self::slot(a);
        s != 0 && ((a < 0 && self.kind[s] == 1) || (a > 0 && self.kind[s] == 2))
    }

    pub(crate) fn node_count(&self) -> u64 {
        let mut c = 0;
        let mut i = 1;
        while i < self.lim {
            if self.kind[i] == 1 {
                c += 1;
            }
            i += 1;
        }
        c
    }

    pub(crate) fn has_free_below_cap(&self) -> bool {
        let mut i = 1;
        while i < self.lim {
            if i < self.cap && self.kind[i] == 0 {
                return true;
            }
            i += 1;
        }
        false
    }

    pub(crate) fn count_from(&self, n: i64) -> u64 {
        let mut c = 0;
        let mut i = 1;
        while i < self.lim {
            if self.kind[i] == 2 && self.ef[i] == n {
                c += 1;
            }
            i += 1;
        }
        c
    }

    pub(crate) fn count_to(&self, n: i64) -> u64 {
        let mut c = 0;
        let mut i = 1;
        while i < self.lim {
            if self.kind[i] == 2 && self.et[i] == n {
                c += 1;
            }
            i += 1;
        }
        c
    }
}

fn c08_same_arrays(a: &ArrGraph, b: &ArrGraph, lim: usize) -> bool {
    let mut same = a.cap == b.cap
        && a.from[0] == b.from[0]
        && a.to[0] == b.to[0]
        && a.from_meta[0] == b.from_meta[0]
        && a.to_meta[0] == b.to_meta[0];
    let mut i = 1;
    while i < lim {
        same = same
            && a.from[i] == b.from[i]
            && a.to[i] == b.to[i]
            && a.from_meta[i] == b.from_meta[i]
            && a.to_meta[i] == b.to_meta[i];
        i += 1;
    }
    same
}

/// Records a newly returned slot in the model after checking that it was not
/// live and that a free slot is reused when there is one.
fn c08_new_slot(m: &mut RefGraph, slot: i64) -> usize {
    assert!(slot > 0 && (slot as usize) < GN, "new id magnitude outside the slots handed out");
    let sl = slot as usize;
    assert!(m.kind[sl] == 0, "new element received an id that is in use");
    if m.has_free_below_cap() {
        assert!(sl < m.cap, "free slot exists but the structure grew");
    } else {
        assert!(sl == m.cap, "fresh slot is not the next one");
        m.cap += 1;
    }
    sl
}

/// One real operation mirrored in the model. kind: 0 insert_node, 1 insert_edge(a, b),
/// 2 remove_node(a), 3 remove_edge(a).
pub(crate) fn graph_step(
    g: &mut ArrG,
    s: &mut Storage<ArrStorage>,
    m: &mut RefGraph,
    kind: u8,
    a: i64,
    b: i64,
) {
    let before = g.data;
    match kind {
        0 => {
            let id = ok(g.insert_node(s));
            assert!(id.0 > 0, "node id not positive");
            let sl = c08_new_slot(m, id.0);
            m.kind[sl] = 1;
        }
        1 => {
            let valid = m.is_node(a) && m.is_node(b);
            match g.insert_edge(s, GraphIndex(a), GraphIndex(b)) {
                Ok(id) => {
                    assert!(valid, "insert_edge with a missing endpoint succeeded");
                    assert!(id.0 < 0, "edge id not negative");
                    let sl = c08_new_slot(m, -id.0);
                    m.kind[sl] = 2;
                    m.ef[sl] = a;
                    m.et[sl] = b;
                    m.seq[sl] = m.next_seq;
                    m.next_seq += 1;
                }
                Err(e) => {
                    std::mem::forget(e);
                    assert!(!valid, "insert_edge between existing nodes failed");
                    assert!(c08_same_arrays(&before, &g.data, m.lim), "failed insert_edge changed the graph");
                }
            }
        }
        2 => {
            ok(g.remove_node(s, GraphIndex(a)));
            if m.is_node(a) {
                m.kind[RefGraph::slot(a)] = 0;
                let mut i = 1;
                while i < m.lim {
                    if m.kind[i] == 2 && (m.ef[i] == a || m.et[i] == a) {
                        m.kind[i] = 0;
                    }
                    i += 1;
                }
            } else {
                assert!(c08_same_arrays(&before, &g.data, m.lim), "remove_node of a missing node changed the graph");
            }
        }
        _ => {
            ok(g.remove_edge(s, GraphIndex(a)));
            if m.is_edge(a) {
                m.kind[RefGraph::slot(a)] = 0;
            } else {
                assert!(c08_same_arrays(&before, &g.data, m.lim), "remove_edge of a missing edge changed the graph");
            }
        }
    }
}

/// Arguments the public API can hand to `GraphImpl` (see `RefGraph::wrong_sign`).
pub(crate) fn graph_step_pre(m: &RefGraph, kind: u8, a: i64, b: i64) -> bool {
    kind <= 3 && a != i64::MIN && b != i64::MIN && !m.wrong_sign(a) && (kind != 1 || !m.wrong_sign(b))
}

/// Everything observable about slot `sl` agrees with the model.
fn c08_check_slot(g: &ArrG, s: &Storage<ArrStorage>, m: &RefGraph, sl: usize) {
    let nid = GraphIndex(sl as i64);
    let eid = GraphIndex(-(sl as i64));
    let n = g.node(s, nid);
    let e = g.edge(s, eid);
    if m.kind[sl] == 1 {
        assert!(e.is_none(), "node slot visible as edge");
        assert!(n.is_some(), "live node not found");
        let n = n.unwrap();
        assert!(n.edge_count_from() == m.count_from(nid.0), "outgoing count differs");
        assert!(n.edge_count_to() == m.count_to(nid.0), "incoming count differs");
        assert!(n.edge_count() == m.count_from(nid.0) + m.count_to(nid.0), "edge_count differs");
        // outgoing list: exactly the model's edges, newest first
        let mut it = n.edge_iter_from();
        let mut cnt = 0u64;
        let mut last = u32::MAX;
        let mut k = 0;
        while k < m.maxl {
            match it.next() {
                Some(e) => {
                    let i = e.index();
                    assert!(m.is_edge(i.0), "outgoing list yields a non-edge");
                    let es = RefGraph::slot(i.0);
                    assert!(m.ef[es] == nid.0, "outgoing list yields an edge of another node");
                    assert!(m.seq[es] < last, "outgoing list not newest-first / repeats");
                    assert!(e.index_from() == nid && e.index_to().0 == m.et[es], "edge endpoints differ (iterator)");
                    last = m.seq[es];
                    cnt += 1;
                }
                None => break,
            }
            k += 1;
        }
        assert!(it.next().is_none(), "outgoing list too long");
        assert!(cnt == m.count_from(nid.0), "outgoing list misses edges");
        // incoming list
        let mut it = n.edge_iter_to();
        let mut cnt = 0u64;
        let mut last = u32::MAX;
        let mut k = 0;
        while k < m.maxl {
            match it.next() {
                Some(e) => {
                    let i = e.index();
                    assert!(m.is_edge(i.0), "incoming list yields a non-edge");
                    let es = RefGraph::slot(i.0);
                    assert!(m.et[es] == nid.0, "incoming list yields an edge of another node");
                    assert!(m.seq[es] < last, "incoming list not newest-first / repeats");
                    last = m.seq[es];
                    cnt += 1;
                }
                None => break,
            }
            k += 1;
        }
        assert!(it.next().is_none(), "incoming list too long");
        assert!(cnt == m.count_to(nid.0), "incoming list misses edges");
    } else if m.kind[sl] == 2 {
        assert!(n.is_none(), "edge slot visible as node");
        assert!(e.is_some(), "live edge not found");
        let e = e.unwrap();
        assert!(e.index() == eid, "edge index differs");
        assert!(e.index_from().0 == m.ef[sl], "edge origin differs");
        assert!(e.index_to().0 == m.et[sl], "edge destination differs");
        assert!(g.edge_from(s, eid).0 == m.ef[sl] && g.edge_to(s, eid).0 == m.et[sl], "edge_from/edge_to differ");
    } else {
        assert!(n.is_none(), "free slot visible as node");
        assert!(e.is_none(), "free slot visible as edge");
    }
}

/// The free-slot stack threaded through `from_meta` holds exactly the free
/// slots below the capacity, each once.
fn c08_check_free_list(g: &ArrG, m: &RefGraph) {
    let d = &g.data;
    assert!(d.cap as usize == m.cap, "capacity differs from the number of slots handed out");
    let mut seen = [false; GN];
    let mut cur = d.from_meta[0];
    let mut n = 0;
    let mut k = 0;
    while k < m.lim {
        if cur == i64::MIN {
            break;
        }
        assert!(cur < 0 && -cur < m.cap as i64, "free list entry out of range");
        let sl = (-cur) as usize;
        assert!(m.kind[sl] == 0, "free list contains a live slot");
        assert!(!seen[sl], "free list has a cycle");
        seen[sl] = true;
        n += 1;
        cur = d.from_meta[sl];
        k += 1;
    }
    assert!(cur == i64::MIN, "free list not terminated");
    let mut free = 0;
    let mut i = 1;
    while i < m.lim {
        if i < m.cap && m.kind[i] == 0 {
            free += 1;
            assert!(d.from[i] == 0 && d.to[i] == 0 && d.to_meta[i] == 0, "freed slot not cleared");
        }
        i += 1;
    }
    assert!(n == free, "free list lost a slot");
}

/// Full comparison of the real graph with the model: `sl` is a symbolic slot,
/// so the solver checks every slot.
pub(crate) fn graph_check(g: &ArrG, s: &Storage<ArrStorage>, m: &RefGraph) {
    assert!(ok(g.node_count(s)) == m.node_count(), "node_count differs");
    let sl: usize = kani::any();
    kani::assume(sl >= 1 && sl < m.lim);
    c08_check_slot(g, s, m, sl);
    c08_check_free_list(g, m);
}

fn c08_any_in(lo: i64, hi: i64) -> i64 {
    let a: i64 = kani::any();
    kani::assume(a >= lo && a <= hi);
    a
}

fn c08_any_arg(m: &RefGraph, kind: u8) -> i64 {
    let a: i64 = kani::any();
    kani::assume(graph_step_pre(m, kind, a, 0));
    a
}

//@ id=C08 tier=quick timeout=900 bounds="nodes 1,2; three edges with symbolic endpoints in {1,2} (self-loops, parallel edges); remove_edge(any i64 id except sign-contradicting ones); <= 5 slots" desc="unlinking an edge from the first/middle/last position of the outgoing and incoming lists keeps endpoints, per-node counts (self-loop on both sides), newest-first adjacency lists, node_count and the free list equal to the reference multigraph; a missing id changes nothing" kernel="GraphImpl::insert_edge,GraphImpl::remove_edge,GraphImpl::remove_from_edge,GraphImpl::remove_to_edge,GraphImpl::free_index,GraphNode::edge_iter_from,GraphNode::edge_iter_to" args="--no-assertion-reach-checks" cbmc="--unwindset _RINvNtCs8xvirJzNMvV_4core3ptr9drop_glueNtNtNtCsblifWy3Zr35_4agdb2db8db_error7DbErrorEBH_:1,_RNvMsb_NtCsblifWy3Zr35_4agdb5graphINtB5_9GraphImplNtNtB7_13verif_support10ArrStorageNtBO_8ArrGraphE16remove_from_edgeB7_.0:4,_RNvMsb_NtCsblifWy3Zr35_4agdb5graphINtB5_9GraphImplNtNtB7_13verif_support10ArrStorageNtBO_8ArrGraphE14remove_to_edgeB7_.0:4,_RNvMsb_NtCsblifWy3Zr35_4agdb5graphINtB5_9GraphImplNtNtB7_13verif_support10ArrStorageNtBO_8ArrGraphE17remove_from_edgesB7_.0:4,_RNvMsb_NtCsblifWy3Zr35_4agdb5graphINtB5_9GraphImplNtNtB7_13verif_support10ArrStorageNtBO_8ArrGraphE15remove_to_edgesB7_.0:4"
#[kani::proof]
#[kani::stub(std::fmt::format, crate::verif_support::fmt_stub)]
#[kani::stub(crate::DbError::new, crate::verif_support::dberror_new_stub)]
#[kani::unwind(6)]
fn c08_edge_unlink_positions() {
    let mut s = crate::storage::verif_h::fresh_arr_storage();
    let mut g = new_arr_graph();
    let mut m = RefGraph::with_limit(6);
    m.maxl = 3;
    graph_step(&mut g, &mut s, &mut m, 0, 0, 0);
    graph_step(&mut g, &mut s, &mut m, 0, 0, 0);
    let (a1, b1) = (c08_any_in(1, 2), c08_any_in(1, 2));
    let (a2, b2) = (c08_any_in(1, 2), c08_any_in(1, 2));
    let (a3, b3) = (c08_any_in(1, 2), c08_any_in(1, 2));
    graph_step(&mut g, &mut s, &mut m, 1, a1, b1);
    graph_step(&mut g, &mut s, &mut m, 1, a2, b2);
    graph_step(&mut g, &mut s, &mut m, 1, a3, b3);
    assert!(m.is_edge(-3) && m.is_edge(-4) && m.is_edge(-5), "edges did not get ids -3,-4,-5");
    let x = c08_any_arg(&m, 3);
    graph_step(&mut g, &mut s, &mut m, 3, x, 0);
    graph_check(&g, &s, &m);
    let same_from = a1 == a2 && a2 == a3;
    let same_to = b1 == b2 && b2 == b3;
    kani::cover!(same_from && !same_to && x == -5, "removed the first (newest) edge of an outgoing list of 3");
    kani::cover!(same_from && !same_to && x == -4, "removed the middle edge of an outgoing list of 3");
    kani::cover!(same_from && !same_to && x == -3, "removed the last (oldest) edge of an outgoing list of 3");
    kani::cover!(same_to && !same_from && x == -4, "removed the middle edge of an incoming list of 3");
    kani::cover!(x == -4 && same_from && same_to && a1 == b1, "removed the middle one of three self-loops");
    kani::cover!(true, "end of harness reachable");
    std::mem::forget(s);
}

//@ id=C08 tier=quick timeout=900 bounds="nodes 1,2; edges -3 = 1->2 and two edges with symbolic endpoints in {1,2}; remove_edge(x) with x in {-3,-4,-5}; one more edge with symbolic endpoints; <= 5 slots" desc="after an unlink the freed slot is reused by the next edge, which gets an id that was not live, is listed first (newest) in both adjacency lists, and the whole graph equals the reference multigraph" kernel="GraphImpl::insert_edge,GraphImpl::remove_edge,GraphImpl::get_free_index,GraphImpl::free_index,GraphImpl::set_edge,GraphImpl::update_from_edge,GraphImpl::update_to_edge" args="--no-assertion-reach-checks" cbmc="--unwindset _RINvNtCs8xvirJzNMvV_4core3ptr9drop_glueNtNtNtCsblifWy3Zr35_4agdb2db8db_error7DbErrorEBH_:1,_RNvMsb_NtCsblifWy3Zr35_4agdb5graphINtB5_9GraphImplNtNtB7_13verif_support10ArrStorageNtBO_8ArrGraphE16remove_from_edgeB7_.0:4,_RNvMsb_NtCsblifWy3Zr35_4agdb5graphINtB5_9GraphImplNtNtB7_13verif_support10ArrStorageNtBO_8ArrGraphE14remove_to_edgeB7_.0:4,_RNvMsb_NtCsblifWy3Zr35_4agdb5graphINtB5_9GraphImplNtNtB7_13verif_support10ArrStorageNtBO_8ArrGraphE17remove_from_edgesB7_.0:4,_RNvMsb_NtCsblifWy3Zr35_4agdb5graphINtB5_9GraphImplNtNtB7_13verif_support10ArrStorageNtBO_8ArrGraphE15remove_to_edgesB7_.0:4"
#[kani::proof]
#[kani::stub(std::fmt::format, crate::verif_support::fmt_stub)]
#[kani::stub(crate::DbError::new, crate::verif_support::dberror_new_stub)]
#[kani::unwind(6)]
fn c08_edge_slot_reuse_after_unlink() {
    let mut s = crate::storage::verif_h::fresh_arr_storage();
    let mut g = new_arr_graph();
    let mut m = RefGraph::with_limit(6);
    m.maxl = 3;
    graph_step(&mut g, &mut s, &mut m, 0, 0, 0);
    graph_step(&mut g, &mut s, &mut m, 0, 0, 0);
    graph_step(&mut g, &mut s, &mut m, 1, 1, 2);
    let (a2, b2) = (c08_any_in(1, 2), c08_any_in(1, 2));
    let (a3, b3) = (c08_any_in(1, 2), c08_any_in(1, 2));
    graph_step(&mut g, &mut s, &mut m, 1, a2, b2);
    graph_step(&mut g, &mut s, &mut m, 1, a3, b3);
    let x = c08_any_in(-5, -3);
    graph_step(&mut g, &mut s, &mut m, 3, x, 0);
    let (a4, b4) = (c08_any_in(1, 2), c08_any_in(1, 2));
    graph_step(&mut g, &mut s, &mut m, 1, a4, b4);
    assert!(m.cap == 6 && m.is_edge(x), "freed slot not reused");
    graph_check(&g, &s, &m);
    kani::cover!(x == -4 && a2 == 1 && a3 == 1 && a4 == 1, "middle slot of an outgoing list reused as its new head");
    kani::cover!(x == -3 && a4 == 2 && b4 == 2, "slot of the oldest edge reused by a self-loop");
    kani::cover!(true, "end of harness reachable");
    std::mem::forget(s);
}

//@ id=C08 tier=quick timeout=1500 bounds="nodes 1,2,3; edge -4 = 2->3 and two edges with symbolic endpoints in {1,2,3}; remove_node(any i64 id except sign-contradicting ones); <= 6 slots" desc="remove_node removes the node and every incident edge (incoming, outgoing, self-loops, parallel edges) and nothing else: remaining endpoints, counts, newest-first lists, node_count and free list equal the reference; a missing id changes nothing" kernel="GraphImpl::remove_node,GraphImpl::remove_from_edges,GraphImpl::remove_to_edges,GraphImpl::remove_from_edge,GraphImpl::remove_to_edge,GraphImpl::free_index" args="--no-assertion-reach-checks" cbmc="--unwindset _RINvNtCs8xvirJzNMvV_4core3ptr9drop_glueNtNtNtCsblifWy3Zr35_4agdb2db8db_error7DbErrorEBH_:1,_RNvMsb_NtCsblifWy3Zr35_4agdb5graphINtB5_9GraphImplNtNtB7_13verif_support10ArrStorageNtBO_8ArrGraphE16remove_from_edgeB7_.0:4,_RNvMsb_NtCsblifWy3Zr35_4agdb5graphINtB5_9GraphImplNtNtB7_13verif_support10ArrStorageNtBO_8ArrGraphE14remove_to_edgeB7_.0:4,_RNvMsb_NtCsblifWy3Zr35_4agdb5graphINtB5_9GraphImplNtNtB7_13verif_support10ArrStorageNtBO_8ArrGraphE17remove_from_edgesB7_.0:4,_RNvMsb_NtCsblifWy3Zr35_4agdb5graphINtB5_9GraphImplNtNtB7_13verif_support10ArrStorageNtBO_8ArrGraphE15remove_to_edgesB7_.0:4"
#[kani::proof]
#[kani::stub(std::fmt::format, crate::verif_support::fmt_stub)]
#[kani::stub(crate::DbError::new, crate::verif_support::dberror_new_stub)]
#[kani::unwind(7)]
fn c08_remove_node_cascade() {
    let mut s = crate::storage::verif_h::fresh_arr_storage();
    let mut g = new_arr_graph();
    let mut m = RefGraph::with_limit(7);
    m.maxl = 3;
    graph_step(&mut g, &mut s, &mut m, 0, 0, 0);
    graph_step(&mut g, &mut s, &mut m, 0, 0, 0);
    graph_step(&mut g, &mut s, &mut m, 0, 0, 0);
    graph_step(&mut g, &mut s, &mut m, 1, 2, 3);
    let (a2, b2) = (c08_any_in(1, 3), c08_any_in(1, 3));
    let (a3, b3) = (c08_any_in(1, 3), c08_any_in(1, 3));
    graph_step(&mut g, &mut s, &mut m, 1, a2, b2);
    graph_step(&mut g, &mut s, &mut m, 1, a3, b3);
    let x = c08_any_arg(&m, 2);
    graph_step(&mut g, &mut s, &mut m, 2, x, 0);
    graph_check(&g, &s, &m);
    let live_edges = m.count_from(1) + m.count_from(2) + m.count_from(3);
    kani::cover!(x == 2 && a2 == 2 && b2 == 2 && a3 == 1 && b3 == 2 && live_edges == 0, "outgoing edge, self-loop and incoming edge removed with the node");
    kani::cover!(x == 1 && a2 == 1 && b2 == 3 && a3 == 1 && b3 == 3 && live_edges == 1, "parallel edges removed out of the middle of another node's incoming list, unrelated edge kept");
    kani::cover!(x == 3 && a2 == 1 && b2 == 3 && a3 == 2 && b3 == 1 && live_edges == 1, "cascade unlinks the last and the first edge of other nodes' outgoing lists");
    kani::cover!(x == -4 && live_edges == 3, "edge id given to remove_node is a no-op");
    kani::cover!(true, "end of harness reachable");
    std::mem::forget(s);
}

//@ id=C08 tier=quick timeout=1500 bounds="nodes 1,2,3; edges -4 = 1->2, -5 = symbolic endpoints in {1,2,3}, -6 = 3->3; remove_node(x), x in {1,2,3}; then insert_node, insert_edge(symbolic endpoints in {1,2,3}), insert_node; <= 7 slots" desc="slots freed by a remove_node cascade (node and incident edges) are handed out again one by one: every new id was not live, freed slots are reused before the structure grows, the free stack holds exactly the free slots after every insert, an edge to the removed-and-not-yet-reinserted node is rejected without effect, node_count follows" kernel="GraphImpl::remove_node,GraphImpl::free_index,GraphImpl::get_free_index,GraphImpl::insert_node,GraphImpl::insert_edge" args="--no-assertion-reach-checks" cbmc="--unwindset _RINvNtCs8xvirJzNMvV_4core3ptr9drop_glueNtNtNtCsblifWy3Zr35_4agdb2db8db_error7DbErrorEBH_:1,_RNvMsb_NtCsblifWy3Zr35_4agdb5graphINtB5_9GraphImplNtNtB7_13verif_support10ArrStorageNtBO_8ArrGraphE16remove_from_edgeB7_.0:4,_RNvMsb_NtCsblifWy3Zr35_4agdb5graphINtB5_9GraphImplNtNtB7_13verif_support10ArrStorageNtBO_8ArrGraphE14remove_to_edgeB7_.0:4,_RNvMsb_NtCsblifWy3Zr35_4agdb5graphINtB5_9GraphImplNtNtB7_13verif_support10ArrStorageNtBO_8ArrGraphE17remove_from_edgesB7_.0:4,_RNvMsb_NtCsblifWy3Zr35_4agdb5graphINtB5_9GraphImplNtNtB7_13verif_support10ArrStorageNtBO_8ArrGraphE15remove_to_edgesB7_.0:4"
#[kani::proof]
#[kani::stub(std::fmt::format, crate::verif_support::fmt_stub)]
#[kani::stub(crate::DbError::new, crate::verif_support::dberror_new_stub)]
#[kani::unwind(8)]
fn c08_reuse_after_remove_node() {
    let mut s = crate::storage::verif_h::fresh_arr_storage();
    let mut g = new_arr_graph();
    let mut m = RefGraph::with_limit(8);
    m.maxl = 3;
    graph_step(&mut g, &mut s, &mut m, 0, 0, 0);
    graph_step(&mut g, &mut s, &mut m, 0, 0, 0);
    graph_step(&mut g, &mut s, &mut m, 0, 0, 0);
    graph_step(&mut g, &mut s, &mut m, 1, 1, 2);
    let (a2, b2) = (c08_any_in(1, 3), c08_any_in(1, 3));
    graph_step(&mut g, &mut s, &mut m, 1, a2, b2);
    graph_step(&mut g, &mut s, &mut m, 1, 3, 3);
    let x = c08_any_in(1, 3);
    graph_step(&mut g, &mut s, &mut m, 2, x, 0);
    c08_check_free_list(&g, &m);
    let freed = 4 - (m.count_from(1) + m.count_from(2) + m.count_from(3));
    let (a4, b4) = (c08_any_in(1, 3), c08_any_in(1, 3));
    graph_step(&mut g, &mut s, &mut m, 1, a4, b4);
    c08_check_free_list(&g, &m);
    graph_step(&mut g, &mut s, &mut m, 0, 0, 0);
    c08_check_free_list(&g, &m);
    graph_step(&mut g, &mut s, &mut m, 0, 0, 0);
    c08_check_free_list(&g, &m);
    assert!(ok(g.node_count(&s)) == m.node_count() && m.node_count() == 4, "node_count differs");
    kani::cover!(a4 == x, "edge from the removed node rejected");
    kani::cover!(freed == 3 && x == 3 && a2 == 1 && b2 == 3 && a4 != 3 && b4 != 3 && m.cap == 7, "node, incoming edge and self-loop freed; all three slots reused, no growth");
    kani::cover!(freed == 2 && m.cap == 8, "fewer slots freed than inserted: structure grew");
    kani::cover!(true, "end of harness reachable");
    std::mem::forget(s);
}

//@ id=C08 tier=quick timeout=600 bounds="state: nodes 1,2 live, node 3 removed (free slot), edge -4 = 1->2; insert_edge(a, b) with a, b any i64 except i64::MIN and -1,-2,4 (ids whose sign contradicts the live element, never produced by DbImpl::graph_index)" desc="insert_edge succeeds exactly when both endpoints are live nodes; with a missing, removed, zero, out-of-range or edge-id endpoint it returns Err and from/to/from_meta/to_meta are bit-identical; on success the id is negative, was not live, reuses the free slot, and the whole graph equals the reference" kernel="GraphImpl::insert_edge,GraphImpl::validate_node,GraphImpl::is_valid_index,GraphImpl::get_free_index,GraphImpl::set_edge" args="--no-assertion-reach-checks" cbmc="--unwindset _RINvNtCs8xvirJzNMvV_4core3ptr9drop_glueNtNtNtCsblifWy3Zr35_4agdb2db8db_error7DbErrorEBH_:1,_RNvMsb_NtCsblifWy3Zr35_4agdb5graphINtB5_9GraphImplNtNtB7_13verif_support10ArrStorageNtBO_8ArrGraphE16remove_from_edgeB7_.0:4,_RNvMsb_NtCsblifWy3Zr35_4agdb5graphINtB5_9GraphImplNtNtB7_13verif_support10ArrStorageNtBO_8ArrGraphE14remove_to_edgeB7_.0:4,_RNvMsb_NtCsblifWy3Zr35_4agdb5graphINtB5_9GraphImplNtNtB7_13verif_support10ArrStorageNtBO_8ArrGraphE17remove_from_edgesB7_.0:4,_RNvMsb_NtCsblifWy3Zr35_4agdb5graphINtB5_9GraphImplNtNtB7_13verif_support10ArrStorageNtBO_8ArrGraphE15remove_to_edgesB7_.0:4"
#[kani::proof]
#[kani::stub(std::fmt::format, crate::verif_support::fmt_stub)]
#[kani::stub(crate::DbError::new, crate::verif_support::dberror_new_stub)]
#[kani::unwind(6)]
fn c08_insert_edge_invalid_endpoint() {
    let mut s = crate::storage::verif_h::fresh_arr_storage();
    let mut g = new_arr_graph();
    let mut m = RefGraph::with_limit(5);
    m.maxl = 2;
    graph_step(&mut g, &mut s, &mut m, 0, 0, 0);
    graph_step(&mut g, &mut s, &mut m, 0, 0, 0);
    graph_step(&mut g, &mut s, &mut m, 0, 0, 0);
    graph_step(&mut g, &mut s, &mut m, 1, 1, 2);
    graph_step(&mut g, &mut s, &mut m, 2, 3, 0);
    let a: i64 = kani::any();
    let b: i64 = kani::any();
    kani::assume(graph_step_pre(&m, 1, a, b));
    graph_step(&mut g, &mut s, &mut m, 1, a, b);
    graph_check(&g, &s, &m);
    kani::cover!(a == 3 && b == 1, "removed node as origin");
    kani::cover!(a == 2 && b == -4, "edge id as destination");
    kani::cover!(a == 0 || b == 0, "zero id");
    kani::cover!(a == 5 && b == 1, "id just beyond the capacity");
    kani::cover!(a == 2 && b == 2 && m.is_edge(-3), "valid self-loop reuses the freed slot");
    kani::cover!(true, "end of harness reachable");
    std::mem::forget(s);
}

//@ id=C08 tier=quick timeout=900 bounds="state: nodes 1,2; edges -3 = 1->2, -4 = 1->1; remove_edge(x), remove_edge(y) with x, y any i64 id; then insert_node, insert_edge(symbolic endpoints in {1,2}), insert_node; <= 6 slots" desc="free-slot stack: after two removals every new node/edge gets an id that is not live, freed slots are reused before the structure grows, the stack threaded through from_meta holds exactly the free slots, and the final graph equals the reference" kernel="GraphImpl::free_index,GraphImpl::get_free_index,GraphImpl::remove_edge,GraphImpl::insert_node,GraphImpl::insert_edge" args="--no-assertion-reach-checks" cbmc="--unwindset _RINvNtCs8xvirJzNMvV_4core3ptr9drop_glueNtNtNtCsblifWy3Zr35_4agdb2db8db_error7DbErrorEBH_:1,_RNvMsb_NtCsblifWy3Zr35_4agdb5graphINtB5_9GraphImplNtNtB7_13verif_support10ArrStorageNtBO_8ArrGraphE16remove_from_edgeB7_.0:4,_RNvMsb_NtCsblifWy3Zr35_4agdb5graphINtB5_9GraphImplNtNtB7_13verif_support10ArrStorageNtBO_8ArrGraphE14remove_to_edgeB7_.0:4,_RNvMsb_NtCsblifWy3Zr35_4agdb5graphINtB5_9GraphImplNtNtB7_13verif_support10ArrStorageNtBO_8ArrGraphE17remove_from_edgesB7_.0:4,_RNvMsb_NtCsblifWy3Zr35_4agdb5graphINtB5_9GraphImplNtNtB7_13verif_support10ArrStorageNtBO_8ArrGraphE15remove_to_edgesB7_.0:4"
#[kani::proof]
#[kani::stub(std::fmt::format, crate::verif_support::fmt_stub)]
#[kani::stub(crate::DbError::new, crate::verif_support::dberror_new_stub)]
#[kani::unwind(7)]
fn c08_free_slot_reuse() {
    let mut s = crate::storage::verif_h::fresh_arr_storage();
    let mut g = new_arr_graph();
    let mut m = RefGraph::with_limit(7);
    m.maxl = 3;
    graph_step(&mut g, &mut s, &mut m, 0, 0, 0);
    graph_step(&mut g, &mut s, &mut m, 0, 0, 0);
    graph_step(&mut g, &mut s, &mut m, 1, 1, 2);
    graph_step(&mut g, &mut s, &mut m, 1, 1, 1);
    let x = c08_any_arg(&m, 3);
    graph_step(&mut g, &mut s, &mut m, 3, x, 0);
    let y = c08_any_arg(&m, 3);
    graph_step(&mut g, &mut s, &mut m, 3, y, 0);
    c08_check_free_list(&g, &m);
    let freed = 2 - (m.count_from(1) + m.count_from(2));
    graph_step(&mut g, &mut s, &mut m, 0, 0, 0);
    c08_check_free_list(&g, &m);
    let (a, b) = (c08_any_in(1, 2), c08_any_in(1, 2));
    graph_step(&mut g, &mut s, &mut m, 1, a, b);
    c08_check_free_list(&g, &m);
    graph_step(&mut g, &mut s, &mut m, 0, 0, 0);
    kani::assume(m.cap <= m.lim);
    graph_check(&g, &s, &m);
    kani::cover!(freed == 2 && x == -3 && y == -4 && m.cap == 6, "older then newer edge removed, both slots reused, third insert grew");
    kani::cover!(freed == 2 && x == -4 && y == -3, "newer then older edge removed");
    kani::cover!(freed == 1 && x == y && m.cap == 7, "second removal of the same id is a no-op; one reuse, two fresh slots");
    kani::cover!(true, "end of harness reachable");
    std::mem::forget(s);
}

fn c08_sym_op(g: &mut ArrG, s: &mut Storage<ArrStorage>, m: &mut RefGraph) -> (u8, i64, i64) {
    let kind: u8 = kani::any();
    let a: i64 = kani::any();
    let b: i64 = kani::any();
    kani::assume(graph_step_pre(m, kind, a, b));
    graph_step(g, s, m, kind, a, b);
    graph_check(g, s, m);
    (kind, a, b)
}

//@ id=C08 tier=thorough timeout=7200 bounds="4 operations, each with symbolic kind (insert_node / insert_edge / remove_node / remove_edge) and symbolic arguments (any i64 except i64::MIN and sign-contradicting ids), from the empty graph; <= 4 slots" desc="after every step the real graph equals the reference multigraph (id signs, freshness, slot reuse, node_count, endpoints, per-node counts, newest-first adjacency lists, free list); failed insert_edge and removals of missing ids leave the four arrays bit-identical" kernel="GraphImpl::insert_node,GraphImpl::insert_edge,GraphImpl::remove_node,GraphImpl::remove_edge,GraphImpl::node,GraphImpl::edge,GraphImpl::get_free_index,GraphImpl::free_index" args="--no-assertion-reach-checks" cbmc="--unwindset _RINvNtCs8xvirJzNMvV_4core3ptr9drop_glueNtNtNtCsblifWy3Zr35_4agdb2db8db_error7DbErrorEBH_:1,_RNvMsb_NtCsblifWy3Zr35_4agdb5graphINtB5_9GraphImplNtNtB7_13verif_support10ArrStorageNtBO_8ArrGraphE16remove_from_edgeB7_.0:4,_RNvMsb_NtCsblifWy3Zr35_4agdb5graphINtB5_9GraphImplNtNtB7_13verif_support10ArrStorageNtBO_8ArrGraphE14remove_to_edgeB7_.0:4,_RNvMsb_NtCsblifWy3Zr35_4agdb5graphINtB5_9GraphImplNtNtB7_13verif_support10ArrStorageNtBO_8ArrGraphE17remove_from_edgesB7_.0:4,_RNvMsb_NtCsblifWy3Zr35_4agdb5graphINtB5_9GraphImplNtNtB7_13verif_support10ArrStorageNtBO_8ArrGraphE15remove_to_edgesB7_.0:4"
#[kani::proof]
#[kani::stub(std::fmt::format, crate::verif_support::fmt_stub)]
#[kani::stub(crate::DbError::new, crate::verif_support::dberror_new_stub)]
#[kani::unwind(5)]
fn c08_ops_from_empty_k4() {
    let mut s = crate::storage::verif_h::fresh_arr_storage();
    let mut g = new_arr_graph();
    let mut m = RefGraph::with_limit(5);
    m.maxl = 3;
    let o1 = c08_sym_op(&mut g, &mut s, &mut m);
    let o2 = c08_sym_op(&mut g, &mut s, &mut m);
    let o3 = c08_sym_op(&mut g, &mut s, &mut m);
    let o4 = c08_sym_op(&mut g, &mut s, &mut m);
    kani::cover!(o1.0 == 0 && o2.0 == 1 && o3.0 == 2 && o4.0 == 0 && m.cap == 3, "node, self-loop, remove node, slot reused");
    kani::cover!(o1.0 == 0 && o2.0 == 1 && o3.0 == 3 && o4.0 == 1 && m.is_edge(-2), "edge removed and its slot reused by an edge");
    kani::cover!(o4.0 == 1 && !m.is_node(o4.1) && m.node_count() == 2, "insert_edge with a missing origin rejected");
    kani::cover!(true, "end of harness reachable");
    std::mem::forget(s);
}

// ---------------------------------------------------------------------------
// C18: slot-order iteration
// ---------------------------------------------------------------------------

/// Symbolic insert: a node, or an edge between two live nodes (symbolic endpoints).
pub(crate) fn graph_sym_insert(g: &mut ArrG, s: &mut Storage<ArrStorage>, m: &mut RefGraph) {
    let edge: bool = kani::any();
    if edge {
        let a: i64 = kani::any();
        let b: i64 = kani::any();
        kani::assume(m.is_node(a) && m.is_node(b));
        graph_step(g, s, m, 1, a, b);
    } else {
        graph_step(g, s, m, 0, 0, 0);
    }
}

/// Symbolic removal of a live element (node with its cascade, or edge).
pub(crate) fn graph_sym_remove(g: &mut ArrG, s: &mut Storage<ArrStorage>, m: &mut RefGraph) -> i64 {
    let a: i64 = kani::any();
    kani::assume(m.is_node(a) || m.is_edge(a));
    if a > 0 {
        graph_step(g, s, m, 2, a, 0);
    } else {
        graph_step(g, s, m, 3, a, 0);
    }
    a
}

/// A graph after a short symbolic history with removals and slot reuse:
/// nodes 1,2; insert; insert; remove; remove; insert  (<= 4 slots + header).
pub(crate) fn graph_sym_history(g: &mut ArrG, s: &mut Storage<ArrStorage>, m: &mut RefGraph) {
    graph_step(g, s, m, 0, 0, 0);
    graph_step(g, s, m, 0, 0, 0);
    graph_sym_insert(g, s, m);
    graph_sym_insert(g, s, m);
    graph_sym_remove(g, s, m);
    graph_sym_remove(g, s, m);
    graph_sym_insert(g, s, m);
}

/// The live elements in increasing slot order, edges negative.
pub(crate) fn graph_slot_order(m: &RefGraph, out: &mut [i64; GN]) -> usize {
    let mut n = 0;
    let mut i = 1;
    while i < m.lim {
        if m.kind[i] == 1 {
            out[n] = i as i64;
            n += 1;
        } else if m.kind[i] == 2 {
            out[n] = -(i as i64);
            n += 1;
        }
        i += 1;
    }
    n
}

//@ id=C18 tier=quick timeout=1500 bounds="graph after: nodes 1,2; 2 symbolic inserts (node or edge with symbolic live endpoints); 2 symbolic removals of live elements (node cascade or edge); 1 symbolic insert (slot reuse); <= 4 slots" desc="GraphImpl::iter yields exactly the live elements in increasing slot number, edges as negative ids, removed slots absent, each once, then None forever; next_element from any start index (either sign, also beyond the capacity) returns the next live slot above it" kernel="GraphImpl::next_element,GraphIterator::next,GraphImpl::iter,GraphImpl::is_removed_index,GraphImpl::is_valid_edge" args="--no-assertion-reach-checks" cbmc="--unwindset _RINvNtCs8xvirJzNMvV_4core3ptr9drop_glueNtNtNtCsblifWy3Zr35_4agdb2db8db_error7DbErrorEBH_:1,_RNvMsb_NtCsblifWy3Zr35_4agdb5graphINtB5_9GraphImplNtNtB7_13verif_support10ArrStorageNtBO_8ArrGraphE16remove_from_edgeB7_.0:4,_RNvMsb_NtCsblifWy3Zr35_4agdb5graphINtB5_9GraphImplNtNtB7_13verif_support10ArrStorageNtBO_8ArrGraphE14remove_to_edgeB7_.0:4,_RNvMsb_NtCsblifWy3Zr35_4agdb5graphINtB5_9GraphImplNtNtB7_13verif_support10ArrStorageNtBO_8ArrGraphE17remove_from_edgesB7_.0:4,_RNvMsb_NtCsblifWy3Zr35_4agdb5graphINtB5_9GraphImplNtNtB7_13verif_support10ArrStorageNtBO_8ArrGraphE15remove_to_edgesB7_.0:4"
#[kani::proof]
#[kani::stub(std::fmt::format, crate::verif_support::fmt_stub)]
#[kani::stub(crate::DbError::new, crate::verif_support::dberror_new_stub)]
#[kani::unwind(6)]
fn c18_iter_slot_order() {
    let mut s = crate::storage::verif_h::fresh_arr_storage();
    let mut g = new_arr_graph();
    let mut m = RefGraph::with_limit(5);
    m.maxl = 3;
    graph_sym_history(&mut g, &mut s, &mut m);
    let mut exp = [0i64; GN];
    let n = graph_slot_order(&m, &mut exp);
    // whole iteration
    let mut it = g.iter(&s);
    let mut k = 0;
    while k < m.lim {
        match it.next() {
            Some(i) => {
                assert!(k < n, "iterator yields more than the live elements");
                assert!(i.0 == exp[k], "iterator element differs from slot order");
            }
            None => break,
        }
        k += 1;
    }
    assert!(k == n, "iterator stopped before all live elements");
    assert!(it.next().is_none() && it.next().is_none(), "iterator restarts after the end");
    // single step from an arbitrary index
    let start: i64 = kani::any();
    kani::assume(start > -(GN as i64) && start < GN as i64);
    let mag = start.unsigned_abs() as usize;
    let mut want = 0i64;
    let mut j = m.lim - 1;
    while j >= 1 {
        if j > mag && m.kind[j] != 0 {
            want = if m.kind[j] == 2 { -(j as i64) } else { j as i64 };
        }
        j -= 1;
    }
    match g.next_element(&s, GraphIndex(start)) {
        Some(i) => assert!(i.0 == want, "next_element differs from the next live slot"),
        None => assert!(want == 0, "next_element missed a live slot"),
    }
    kani::cover!(n == 3 && exp[0] == -1, "slot 1 reused by an edge: sequence starts with an edge");
    kani::cover!(n == 1, "a single live element left");
    kani::cover!(n == 2 && exp[0] == 1 && exp[1] == -4, "gap of two freed slots skipped");
    kani::cover!(start < 0 && want > 0, "next_element from a negative index");
    kani::cover!(true, "end of harness reachable");
    std::mem::forget(s);
}

//@ id=C08 tier=thorough timeout=6000 bounds="nodes 1,2,3; three edges with symbolic endpoints in {1,2,3}; remove_node(any i64 id except sign-contradicting ones); then insert_node and one edge with symbolic endpoints; <= 6 slots" desc="remove_node removes the node and every incident edge (incoming, outgoing, self-loops, parallel edges) and nothing else; afterwards a new node and a new edge get ids that were not live and reuse freed slots; after both phases the whole graph (endpoints, counts, newest-first lists, node_count, free list) equals the reference" kernel="GraphImpl::remove_node,GraphImpl::remove_from_edges,GraphImpl::remove_to_edges,GraphImpl::remove_from_edge,GraphImpl::remove_to_edge,GraphImpl::free_index,GraphImpl::get_free_index,GraphImpl::insert_node,GraphImpl::insert_edge" args="--no-assertion-reach-checks" cbmc="--unwindset _RINvNtCs8xvirJzNMvV_4core3ptr9drop_glueNtNtNtCsblifWy3Zr35_4agdb2db8db_error7DbErrorEBH_:1,_RNvMsb_NtCsblifWy3Zr35_4agdb5graphINtB5_9GraphImplNtNtB7_13verif_support10ArrStorageNtBO_8ArrGraphE16remove_from_edgeB7_.0:4,_RNvMsb_NtCsblifWy3Zr35_4agdb5graphINtB5_9GraphImplNtNtB7_13verif_support10ArrStorageNtBO_8ArrGraphE14remove_to_edgeB7_.0:4,_RNvMsb_NtCsblifWy3Zr35_4agdb5graphINtB5_9GraphImplNtNtB7_13verif_support10ArrStorageNtBO_8ArrGraphE17remove_from_edgesB7_.0:4,_RNvMsb_NtCsblifWy3Zr35_4agdb5graphINtB5_9GraphImplNtNtB7_13verif_support10ArrStorageNtBO_8ArrGraphE15remove_to_edgesB7_.0:4"
#[kani::proof]
#[kani::stub(std::fmt::format, crate::verif_support::fmt_stub)]
#[kani::stub(crate::DbError::new, crate::verif_support::dberror_new_stub)]
#[kani::unwind(8)]
fn c08_remove_node_cascade_deep() {
    let mut s = crate::storage::verif_h::fresh_arr_storage();
    let mut g = new_arr_graph();
    let mut m = RefGraph::with_limit(8);
    m.maxl = 4;
    graph_step(&mut g, &mut s, &mut m, 0, 0, 0);
    graph_step(&mut g, &mut s, &mut m, 0, 0, 0);
    graph_step(&mut g, &mut s, &mut m, 0, 0, 0);
    let (a1, b1) = (c08_any_in(1, 3), c08_any_in(1, 3));
    let (a2, b2) = (c08_any_in(1, 3), c08_any_in(1, 3));
    let (a3, b3) = (c08_any_in(1, 3), c08_any_in(1, 3));
    graph_step(&mut g, &mut s, &mut m, 1, a1, b1);
    graph_step(&mut g, &mut s, &mut m, 1, a2, b2);
    graph_step(&mut g, &mut s, &mut m, 1, a3, b3);
    let x = c08_any_arg(&m, 2);
    graph_step(&mut g, &mut s, &mut m, 2, x, 0);
    graph_check(&g, &s, &m);
    let live_edges = m.count_from(1) + m.count_from(2) + m.count_from(3);
    graph_step(&mut g, &mut s, &mut m, 0, 0, 0);
    let (a4, b4) = (c08_any_in(1, 3), c08_any_in(1, 3));
    graph_step(&mut g, &mut s, &mut m, 1, a4, b4);
    graph_check(&g, &s, &m);
    kani::cover!(x == 2 && live_edges == 0 && a1 == 2 && b1 == 2, "all three edges incident to the removed node, one a self-loop");
    kani::cover!(x == 1 && a1 == 2 && a2 == 1 && a3 == 2 && b1 == 3 && b2 == 3 && b3 == 3 && live_edges == 2, "middle of another node's incoming list unlinked by the cascade");
    kani::cover!(x == 3 && m.is_node(3) && m.cap == 7, "removed node's id reused, no growth");
    kani::cover!(true, "end of harness reachable");
    std::mem::forget(s);
}
