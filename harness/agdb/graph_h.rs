// harnesses mounted as child module of agdb/src/graph.rs
#[allow(unused_imports)]
use super::*;
