// harnesses mounted as child module of agdb/src/db/db_key_value.rs
#[allow(unused_imports)]
use super::*;
