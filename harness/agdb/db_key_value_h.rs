// harnesses mounted as child module of agdb/src/db/db_key_value.rs
#[allow(unused_imports)]
use super::*;

use crate::db::db_f64::DbF64;
use crate::db::db_value::verif_h::all_ascii;
use crate::db::db_value::verif_h::ascii_string_of;
use crate::db::db_value::verif_h::backend_calls;
use crate::db::db_value::verif_h::c07_small_storage;
use crate::db::db_value::verif_h::reopen;
use crate::db::db_value::verif_h::same_bytes;
use crate::db::db_value::verif_h::vec_of;
use crate::storage::verif_h::fresh_arr_storage;
use crate::verif_support::ArrStorage;
use crate::verif_support::is_ok;
use crate::verif_support::ok;

type Kv = DbKeyValue;

fn kv_store(kv: &Kv, s: &mut Storage<ArrStorage>) -> Result<Vec<u8>, DbError> {
    <Kv as VecValue<ArrStorage>>::store(kv, s)
}

fn kv_load(s: &Storage<ArrStorage>, bytes: &[u8]) -> Result<Kv, DbError> {
    <Kv as VecValue<ArrStorage>>::load(s, bytes)
}

fn kv_remove(s: &mut Storage<ArrStorage>, bytes: &[u8]) -> Result<(), DbError> {
    <Kv as VecValue<ArrStorage>>::remove(s, bytes)
}

// ---------------------------------------------------------------------------
// C12: DbKeyValue as VecValue: store / load / reopen+load / remove
// ---------------------------------------------------------------------------

const SENTINEL: [u8; 3] = [0xAA, 0xBB, 0xCC];

fn c12_sentinel_intact(s: &Storage<ArrStorage>) -> bool {
    match s.value_as_bytes(StorageIndex(1)) {
        Ok(b) => {
            let same = same_bytes(&b, &SENTINEL, 3);
            std::mem::forget(b);
            same
        }
        Err(e) => {
            std::mem::forget(e);
            false
        }
    }
}

/// Checks one half (16 bytes) of a stored pair: inline (`rec == None`) or
/// naming exactly record `rec` of `size` bytes.
fn c12_check_half(s: &Storage<ArrStorage>, half: &[u8], ty: u8, rec: Option<(u64, u64)>) {
    let idx = ok(DbValueIndex::deserialize(half));
    assert!(idx.get_type() == ty, "type tag in the stored pair");
    match rec {
        None => assert!(idx.is_value(), "small value is inline in the pair"),
        Some((index, size)) => {
            assert!(!idx.is_value() && idx.size() == 0, "large value is out of line");
            assert!(idx.index() == index, "names the record just allocated");
            assert!(ok(s.value_size(StorageIndex(index))) == size, "record size");
        }
    }
}

/// The whole life of one pair in a storage that already holds an unrelated
/// record (index 1): store -> 32 bytes; load; reopen + load; remove.
/// `key_rec` / `val_rec`: expected (record index, record size) when the half
/// is out of line. `check` compares a loaded pair with the original data.
fn c12_kv_life(
    kv: Kv,
    key_ty: u8,
    key_rec: Option<(u64, u64)>,
    val_ty: u8,
    val_rec: Option<(u64, u64)>,
    with_reopen: bool,
    with_remove: bool,
    check: impl Fn(&Kv),
) {
    let mut s = fresh_arr_storage();
    let sentinel = ok(s.insert_bytes(&SENTINEL));
    assert!(sentinel.0 == 1);
    let calls0 = backend_calls(&s);
    let len0 = s.len();
    assert!(<Kv as VecValue<ArrStorage>>::storage_len() == 32, "a pair occupies 32 bytes in its vector");

    let bytes = ok(kv_store(&kv, &mut s));
    assert!(bytes.len() == 32, "stored pair is two 16-byte indexes");
    c12_check_half(&s, &bytes[0..16], key_ty, key_rec);
    c12_check_half(&s, &bytes[16..32], val_ty, val_rec);
    let records = (key_rec.is_some() as u64) + (val_rec.is_some() as u64);
    if records == 0 {
        assert!(backend_calls(&s) == calls0 && s.len() == len0, "inline pair must not touch the storage");
    }
    assert!(!is_ok(s.value_size(StorageIndex(2 + records))), "no extra record allocated");

    let back = ok(kv_load(&s, &bytes));
    check(&back);

    if with_reopen {
        let s2 = reopen(&s);
        let back2 = ok(kv_load(&s2, &bytes));
        check(&back2);
        assert!(c12_sentinel_intact(&s2), "unrelated record survives reopen");
        std::mem::forget(back2);
        std::mem::forget(s2);
    }

    if with_remove {
        let calls1 = backend_calls(&s);
        ok(kv_remove(&mut s, &bytes));
        if let Some((index, _)) = key_rec {
            assert!(!is_ok(s.value_size(StorageIndex(index))), "key record is gone after remove");
        }
        if let Some((index, _)) = val_rec {
            assert!(!is_ok(s.value_size(StorageIndex(index))), "value record is gone after remove");
        }
        if records == 0 {
            assert!(backend_calls(&s) == calls1 && s.len() == len0, "removing an inline pair must not touch the storage");
        }
        assert!(c12_sentinel_intact(&s), "remove must not touch an unrelated record");
    }
    kani::cover!(true, "end of harness reachable");
    std::mem::forget((kv, bytes, back));
    std::mem::forget(s);
}

//@ id=C12 tier=quick timeout=900 bounds="key I64 (all values), value F64 (all 2^64 bit patterns); storage with one unrelated record" desc="a pair of inline scalars is stored as 32 bytes without any back-end write, loads back identical (f64 by to_bits) before and after reopen, and remove touches nothing" cbmc="--max-field-sensitivity-array-size 200" kernel="DbKeyValue::store,DbKeyValue::load,DbKeyValue::remove,DbKeyValue::storage_len,DbValue::store_db_value,DbValue::load_db_value,DbValueIndex::deserialize,DbValueIndex::data,DbValueIndex::is_value"
#[kani::proof]
#[kani::stub(std::fmt::format, crate::verif_support::fmt_stub)]
#[kani::stub(crate::DbError::new, crate::verif_support::dberror_new_stub)]
#[kani::unwind(5)]
fn c12_kv_i64_f64() {
    let k: i64 = kani::any();
    let bits: u64 = kani::any();
    let kv = Kv {
        key: DbValue::I64(k),
        value: DbValue::F64(DbF64::from(f64::from_bits(bits))),
    };
    c12_kv_life(kv, 2, None, 4, None, true, true, |b: &Kv| match (&b.key, &b.value) {
        (DbValue::I64(x), DbValue::F64(y)) => {
            assert!(*x == k, "key reads back identical");
            assert!(y.to_f64().to_bits() == bits, "value reads back bit for bit");
        }
        _ => panic!("loaded pair has different types"),
    });
    kani::cover!(f64::from_bits(bits).is_nan(), "NaN value");
}

//@ id=C12 tier=quick timeout=900 bounds="key String of 16 symbolic ASCII bytes (out of line), value Bytes of 15 symbolic bytes (largest inline); storage with one unrelated record" desc="key goes to record 2 (8+16 bytes), value stays inline; pair loads back identical before and after reopen; remove deletes exactly the key record and leaves the unrelated record intact" cbmc="--max-field-sensitivity-array-size 200" kernel="DbKeyValue::store,DbKeyValue::load,DbKeyValue::remove,DbValue::store_db_value,DbValue::load_db_value,DbValueIndex::deserialize,DbValueIndex::is_value,DbValueIndex::index,Storage::remove,Storage::with_data"
#[kani::proof]
#[kani::stub(std::fmt::format, crate::verif_support::fmt_stub)]
#[kani::stub(crate::DbError::new, crate::verif_support::dberror_new_stub)]
#[kani::stub(<crate::DbError as std::convert::From<std::string::FromUtf8Error>>::from, crate::verif_support::utf8err_stub)]
#[kani::unwind(5)]
fn c12_kv_string16_bytes15() {
    let kd: [u8; 16] = kani::any();
    let vd: [u8; 15] = kani::any();
    kani::assume(all_ascii(&kd));
    let kv = Kv {
        key: DbValue::String(ascii_string_of(&kd, 16)),
        value: DbValue::Bytes(vec_of(&vd, 15)),
    };
    c12_kv_life(kv, 5, Some((2, 24)), 1, None, true, true, |b: &Kv| match (&b.key, &b.value) {
        (DbValue::String(x), DbValue::Bytes(y)) => {
            assert!(same_bytes(x.as_bytes(), &kd, 16), "key reads back identical");
            assert!(same_bytes(y.as_slice(), &vd, 15), "value reads back identical");
        }
        _ => panic!("loaded pair has different types"),
    });
}

fn c12_kv_bytes17_string16_life(with_reopen: bool, with_remove: bool) {
    let kd: [u8; 17] = kani::any();
    let vd: [u8; 16] = kani::any();
    kani::assume(all_ascii(&vd));
    let kv = Kv {
        key: DbValue::Bytes(vec_of(&kd, 17)),
        value: DbValue::String(ascii_string_of(&vd, 16)),
    };
    c12_kv_life(kv, 1, Some((2, 17)), 5, Some((3, 24)), with_reopen, with_remove, |b: &Kv| match (&b.key, &b.value) {
        (DbValue::Bytes(x), DbValue::String(y)) => {
            assert!(same_bytes(x.as_slice(), &kd, 17), "key reads back identical");
            assert!(same_bytes(y.as_bytes(), &vd, 16), "value reads back identical");
        }
        _ => panic!("loaded pair has different types"),
    });
}

//@ id=C12 tier=quick timeout=1200 bounds="key Bytes of 17 symbolic bytes, value String of 16 symbolic ASCII bytes (both out of line); storage with one unrelated record" desc="key and value go to records 2 and 3 (sizes 17 and 8+16); the pair loads back identical from the storage and from a storage reopened via Storage::with_data; the unrelated record survives" cbmc="--max-field-sensitivity-array-size 200" kernel="DbKeyValue::store,DbKeyValue::load,DbKeyValue::remove,DbValue::store_db_value,DbValue::load_db_value,DbValueIndex::deserialize,DbValueIndex::is_value,DbValueIndex::index,Storage::remove,Storage::with_data"
#[kani::proof]
#[kani::stub(std::fmt::format, crate::verif_support::fmt_stub)]
#[kani::stub(crate::DbError::new, crate::verif_support::dberror_new_stub)]
#[kani::stub(<crate::DbError as std::convert::From<std::string::FromUtf8Error>>::from, crate::verif_support::utf8err_stub)]
#[kani::unwind(6)]
fn c12_kv_bytes17_string16_reopen() {
    c12_kv_bytes17_string16_life(true, false);
}

//@ id=C12 tier=quick timeout=1200 bounds="key U64 (all values, inline), value VecI64 of 2 symbolic elements (out of line); storage with one unrelated record" desc="vector value goes to record 2 (8+16 bytes); pair loads back identical before and after reopen; remove deletes exactly that record" cbmc="--max-field-sensitivity-array-size 200" kernel="DbKeyValue::store,DbKeyValue::load,DbKeyValue::remove,DbValue::store_db_value,DbValue::load_db_value,DbValueIndex::deserialize,DbValueIndex::is_value,DbValueIndex::index,Storage::remove,Storage::with_data,Vec<i64>::serialize,Vec<i64>::deserialize"
#[kani::proof]
#[kani::stub(std::fmt::format, crate::verif_support::fmt_stub)]
#[kani::stub(crate::DbError::new, crate::verif_support::dberror_new_stub)]
#[kani::unwind(6)]
fn c12_kv_u64_veci64() {
    let k: u64 = kani::any();
    let e: [i64; 2] = kani::any();
    let mut v = Vec::with_capacity(2);
    v.push(e[0]);
    v.push(e[1]);
    let kv = Kv {
        key: DbValue::U64(k),
        value: DbValue::VecI64(v),
    };
    c12_kv_life(kv, 3, None, 6, Some((2, 24)), true, true, |b: &Kv| match (&b.key, &b.value) {
        (DbValue::U64(x), DbValue::VecI64(y)) => {
            assert!(*x == k, "key reads back identical");
            assert!(y.len() == 2 && y[0] == e[0] && y[1] == e[1], "vector reads back identical");
        }
        _ => panic!("loaded pair has different types"),
    });
}

fn c12_kv_vecstring_vecf64_life(with_reopen: bool, with_remove: bool) {
    let kd: [u8; 2] = kani::any();
    kani::assume(all_ascii(&kd));
    let bits: u64 = kani::any();
    let mut ks = Vec::with_capacity(1);
    ks.push(ascii_string_of(&kd, 2));
    let mut vf = Vec::with_capacity(1);
    vf.push(DbF64::from(f64::from_bits(bits)));
    let kv = Kv {
        key: DbValue::VecString(ks),
        value: DbValue::VecF64(vf),
    };
    c12_kv_life(kv, 9, Some((2, 8 + 8 + 2)), 8, Some((3, 16)), with_reopen, with_remove, |b: &Kv| match (&b.key, &b.value) {
        (DbValue::VecString(x), DbValue::VecF64(y)) => {
            assert!(x.len() == 1 && same_bytes(x[0].as_bytes(), &kd, 2), "key reads back identical");
            assert!(y.len() == 1 && y[0].to_f64().to_bits() == bits, "value reads back bit for bit");
        }
        _ => panic!("loaded pair has different types"),
    });
}

//@ id=C12 tier=quick timeout=1200 bounds="key VecString [one string of 2 symbolic ASCII bytes], value VecF64 [one element, all bit patterns] (both out of line); storage with one unrelated record" desc="both vectors go to their own records (2 and 3); the pair loads back identical (f64 by to_bits) from the storage and from a storage reopened via Storage::with_data" cbmc="--max-field-sensitivity-array-size 200" kernel="DbKeyValue::store,DbKeyValue::load,DbKeyValue::remove,DbValue::store_db_value,DbValue::load_db_value,DbValueIndex::deserialize,DbValueIndex::is_value,DbValueIndex::index,Storage::remove,Storage::with_data,Vec<String>::serialize,Vec<String>::deserialize,Vec<DbF64>::serialize,Vec<DbF64>::deserialize"
#[kani::proof]
#[kani::stub(std::fmt::format, crate::verif_support::fmt_stub)]
#[kani::stub(crate::DbError::new, crate::verif_support::dberror_new_stub)]
#[kani::stub(<crate::DbError as std::convert::From<std::string::FromUtf8Error>>::from, crate::verif_support::utf8err_stub)]
#[kani::unwind(6)]
fn c12_kv_vecstring_vecf64_reopen() {
    c12_kv_vecstring_vecf64_life(true, false);
}

// Not covered (measured): `remove` of a pair whose record is NOT the last one
// in the file goes through Storage's free list (BTreeMap<u64, BTreeSet<u64>>);
// a single such remove did not finish in 900 s, two of them ran the solver out
// of memory (10 GB). The passing harnesses above remove the key record
// (c12_kv_string16_bytes15) and the value record (c12_kv_u64_veci64) through
// the truncate path; the free-list path is C04's subject.

// ---------------------------------------------------------------------------
// C07: DbKeyValue::{load, remove} on damaged bytes
// ---------------------------------------------------------------------------

// Encoding note: CBMC does not keep the type/size byte constant through
// `DbValueIndex::deserialize(&bytes[16..])` (memcpy out of the middle of a
// larger object), so `load_db_value` is explored for all nine types in these
// harnesses; to keep that affordable the storage here has NO records (every
// storage read ends in "record not found").

/// `N` symbolic bytes shaped like (a prefix of) a pair: byte 15 = I64 with 8
/// inline bytes, byte 31 = Bytes with 3 inline bytes - where those offsets exist.
fn c07_pair_prefix<const N: usize>() -> [u8; N] {
    let mut b: [u8; N] = kani::any();
    if N > 15 {
        b[15] = (2 << 4) | 8;
    }
    if N > 31 {
        b[31] = (1 << 4) | 3;
    }
    b
}

//@ id=C07 tier=quick timeout=900 bounds="buffers of 0, 1, 15 bytes (enumerated), content symbolic; storage without records. Lengths 16..31 (second index truncated) did not finish: CBMC explores the whole value decoding after the empty tail slice" desc="DbKeyValue::load and ::remove on a truncated pair return Err - never a slice index out of bounds - and do not touch the storage" kernel="DbKeyValue::load,DbKeyValue::remove,DbValueIndex::deserialize,DbValue::load_db_value"
#[kani::proof]
#[kani::stub(std::fmt::format, crate::verif_support::fmt_stub)]
#[kani::stub(crate::DbError::new, crate::verif_support::dberror_new_stub)]
#[kani::stub(<crate::DbError as std::convert::From<std::string::FromUtf8Error>>::from, crate::verif_support::utf8err_stub)]
#[kani::stub(<crate::DbError as std::convert::From<std::array::TryFromSliceError>>::from, crate::verif_support::sliceerr_stub)]
#[kani::stub(<crate::DbError as std::convert::From<std::num::TryFromIntError>>::from, crate::verif_support::interr_stub)]
#[kani::unwind(4)]
fn c07_kv_truncated_pair() {
    let mut s = fresh_arr_storage();
    macro_rules! short {
        ($($n:literal)*) => { $(
            let b = c07_pair_prefix::<$n>();
            assert!(!is_ok(kv_load(&s, &b)), "truncated pair must be an error for load");
            assert!(!is_ok(kv_remove(&mut s, &b)), "truncated pair must be an error for remove");
        )* };
    }
    short!(0 1 15);
    assert!(backend_calls(&s) == 0, "storage untouched");
    kani::cover!(true, "end of harness reachable");
    std::mem::forget(s);
}

//@ id=C07 tier=quick timeout=900 bounds="32 bytes: key = well-formed inline I64 (payload symbolic), value = index with type nibble 12 (no such DbValue variant) and size nibble 0, other bytes symbolic; storage without records" desc="DbKeyValue::load on a pair whose value index carries an unknown type tag returns Err (or Ok) and never panics" kernel="DbKeyValue::load,DbValueIndex::deserialize,DbValue::load_db_value"
#[kani::proof]
#[kani::stub(std::fmt::format, crate::verif_support::fmt_stub)]
#[kani::stub(crate::DbError::new, crate::verif_support::dberror_new_stub)]
#[kani::stub(<crate::DbError as std::convert::From<std::string::FromUtf8Error>>::from, crate::verif_support::utf8err_stub)]
#[kani::stub(<crate::DbError as std::convert::From<std::array::TryFromSliceError>>::from, crate::verif_support::sliceerr_stub)]
#[kani::stub(<crate::DbError as std::convert::From<std::num::TryFromIntError>>::from, crate::verif_support::interr_stub)]
#[kani::unwind(4)]
fn c07_kv_load_unknown_value_tag() {
    let s = fresh_arr_storage();
    let mut b: [u8; 32] = kani::any();
    b[15] = (2 << 4) | 8;
    b[31] = 12 << 4;
    let r = kv_load(&s, &b);
    kani::cover!(true, "end of harness reachable");
    std::mem::forget(r);
    std::mem::forget(s);
}

// Not covered here (measured): `DbKeyValue::remove` with storage indexes that
// name missing records - `DbValueIndex::index()` copies 8 of the 16 bytes, after
// which CBMC no longer treats the index as a constant and explores the whole
// `Storage::remove` success path (free-list BTreeMap); 16 enumerated cases did
// not finish in 900 s. `Storage::remove` on arbitrary indexes belongs to the
// storage harnesses (C04/C07 open path).

// ---------------------------------------------------------------------------
// C09: DbKeyValues behaves as a per-element ordered key-value map
// ---------------------------------------------------------------------------
//
// Storage: ArrStorage (192 bytes) cannot hold two elements with pairs - the
// element table (16+8+8*3) plus one pair vector per element (16+8+32*cap) plus
// the regions freed when vectors move to the end need 224+ bytes already for
// "element 1: one pair, element 2: one pair" (computed from Storage's
// allocation rules). `KvArr` is the same array-backed StorageData with 448
// bytes, local to these harnesses.
//
// Encoding: element index, key and operation are ENUMERATED (concrete in every
// call, so CBMC executes the storage layer with concrete offsets); the values
// are symbolic i64.

const KV_CAP: usize = 448;

pub(crate) struct KvArr {
    buf: [u8; KV_CAP],
    len: usize,
}

impl StorageData for KvArr {
    fn backup(&self, _name: &str) -> Result<(), DbError> {
        Ok(())
    }
    fn copy(&self, _name: &str) -> Result<Self, DbError> {
        Ok(Self { buf: self.buf, len: self.len })
    }
    fn len(&self) -> u64 {
        self.len as u64
    }
    fn name(&self) -> &str {
        "kvarr"
    }
    fn new(_name: &str) -> Result<Self, DbError> {
        Ok(Self { buf: [0; KV_CAP], len: 0 })
    }
    fn read(&'_ self, pos: u64, value_len: u64) -> Result<crate::storage::StorageSlice<'_>, DbError> {
        let end = pos + value_len;
        Ok(crate::storage::StorageSlice::from(&self.buf[pos as usize..end as usize]))
    }
    fn rename(&mut self, _new_name: &str) -> Result<(), DbError> {
        Ok(())
    }
    fn resize(&mut self, new_len: u64) -> Result<(), DbError> {
        kani::assume(new_len as usize <= KV_CAP);
        let new_len = new_len as usize;
        if new_len < self.len {
            self.buf[new_len..self.len].fill(0);
        }
        self.len = new_len;
        Ok(())
    }
    fn write(&mut self, pos: u64, bytes: &[u8]) -> Result<(), DbError> {
        let pos = pos as usize;
        let end = pos + bytes.len();
        kani::assume(end <= KV_CAP);
        self.buf[pos..end].copy_from_slice(bytes);
        if end > self.len {
            self.len = end;
        }
        Ok(())
    }
}

/// Reference model: per element (1, 2) an ordered list of at most 4 (key, value)
/// pairs. Written without loops so the global unwind bound can stay small.
#[derive(Clone, Copy)]
struct C09Model {
    k: [[i64; 4]; 3],
    v: [[i64; 4]; 3],
    n: [usize; 3],
}

impl C09Model {
    fn new() -> Self {
        Self { k: [[0; 4]; 3], v: [[0; 4]; 3], n: [0; 3] }
    }
    /// position of the first pair with this key
    fn find(&self, e: usize, key: i64) -> Option<usize> {
        let n = self.n[e];
        if n > 0 && self.k[e][0] == key {
            return Some(0);
        }
        if n > 1 && self.k[e][1] == key {
            return Some(1);
        }
        if n > 2 && self.k[e][2] == key {
            return Some(2);
        }
        if n > 3 && self.k[e][3] == key {
            return Some(3);
        }
        None
    }
    /// append at the end
    fn insert(&mut self, e: usize, key: i64, val: i64) {
        let n = self.n[e];
        assert!(n < 4, "model capacity");
        self.k[e][n] = key;
        self.v[e][n] = val;
        self.n[e] = n + 1;
    }
    /// replace in place (position kept) or append; returns the old value
    fn insert_or_replace(&mut self, e: usize, key: i64, val: i64) -> Option<i64> {
        match self.find(e, key) {
            Some(i) => {
                let old = self.v[e][i];
                self.v[e][i] = val;
                Some(old)
            }
            None => {
                self.insert(e, key, val);
                None
            }
        }
    }
    /// delete exactly that key, keep the order of the others
    fn remove_value(&mut self, e: usize, key: i64) {
        if let Some(i) = self.find(e, key) {
            if i <= 0 {
                self.k[e][0] = self.k[e][1];
                self.v[e][0] = self.v[e][1];
            }
            if i <= 1 {
                self.k[e][1] = self.k[e][2];
                self.v[e][1] = self.v[e][2];
            }
            if i <= 2 {
                self.k[e][2] = self.k[e][3];
                self.v[e][2] = self.v[e][3];
            }
            self.n[e] -= 1;
        }
    }
    /// removing an element removes all its pairs
    fn remove(&mut self, e: usize) {
        self.n[e] = 0;
    }
}

fn c09_kv(key: i64, val: i64) -> Kv {
    Kv { key: DbValue::I64(key), value: DbValue::I64(val) }
}

fn c09_i64(v: &DbValue) -> i64 {
    match v {
        DbValue::I64(x) => *x,
        _ => panic!("value of another type"),
    }
}

fn c09_check_lookup(kvs: &DbKeyValues<KvArr>, s: &Storage<KvArr>, m: &C09Model, e: usize, key: i64) {
    let got = ok(kvs.value(s, e as u64, &DbValue::I64(key)));
    match (m.find(e, key), &got) {
        (Some(i), Some(v)) => assert!(c09_i64(v) == m.v[e][i], "value() of a present key"),
        (None, None) => {}
        _ => panic!("value() presence differs from the model"),
    }
    std::mem::forget(got);
}

/// Compares everything observable about element `e` with the model.
fn c09_observe(kvs: &DbKeyValues<KvArr>, s: &Storage<KvArr>, m: &C09Model, e: usize) {
    let n = m.n[e];
    assert!(ok(kvs.key_count(s, e as u64)) == n as u64, "key_count");
    let keys = ok(kvs.keys(s, e as u64));
    let values = ok(kvs.values(s, e as u64));
    assert!(keys.len() == n && values.len() == n, "number of keys / pairs");
    macro_rules! at {
        ($($i:literal)*) => { $(
            if $i < n {
                assert!(c09_i64(&keys[$i]) == m.k[e][$i], "keys() in map order");
                assert!(c09_i64(&values[$i].key) == m.k[e][$i], "values() keys in map order");
                assert!(c09_i64(&values[$i].value) == m.v[e][$i], "values() current values");
            }
        )* };
    }
    at!(0 1 2 3);
    // single lookups for every key of the universe
    c09_check_lookup(kvs, s, m, e, 1);
    c09_check_lookup(kvs, s, m, e, 2);
    c09_check_lookup(kvs, s, m, e, 3);
    // selection by keys: requested order [3, 1], missing keys skipped
    let req = [DbValue::I64(3), DbValue::I64(1)];
    let sel = ok(kvs.values_by_keys(s, e as u64, &req));
    let mut expect_k = [0i64; 2];
    let mut expect_v = [0i64; 2];
    let mut en = 0;
    if let Some(i) = m.find(e, 3) {
        expect_k[en] = 3;
        expect_v[en] = m.v[e][i];
        en += 1;
    }
    if let Some(i) = m.find(e, 1) {
        expect_k[en] = 1;
        expect_v[en] = m.v[e][i];
        en += 1;
    }
    assert!(sel.len() == en, "values_by_keys returns exactly the requested present keys");
    if en > 0 {
        assert!(c09_i64(&sel[0].key) == expect_k[0] && c09_i64(&sel[0].value) == expect_v[0], "values_by_keys first, requested order");
    }
    if en > 1 {
        assert!(c09_i64(&sel[1].key) == expect_k[1] && c09_i64(&sel[1].value) == expect_v[1], "values_by_keys second, requested order");
    }
    std::mem::forget((keys, values, sel, req));
}

/// Common prefix, built through the real API and mirrored in the model:
/// capacity for 3 pairs reserved on element 2 (sizes the element table for
/// indexes 0..=2 once; element 2 becomes a valid element without pairs), then
/// element 1 = [(1,a), (2,b)]. Element 1's pair vector is the last record of the
/// file, so growing it never moves a record - this keeps the storage's free
/// list (a BTreeMap, very expensive in CBMC) out of the prefix.
fn c09_prefix(s: &mut Storage<KvArr>, val: &[i64; 2]) -> (DbKeyValues<KvArr>, C09Model) {
    let mut kvs = ok(DbKeyValues::new(s));
    let mut m = C09Model::new();
    ok(kvs.reserve_capacity(s, 2, 3));
    ok(kvs.insert_value(s, 1, &c09_kv(1, val[0])));
    m.insert(1, 1, val[0]);
    let r = ok(kvs.insert_or_replace(s, 1, &c09_kv(2, val[1])));
    assert!(r.is_none(), "new key: nothing replaced");
    m.insert_or_replace(1, 2, val[1]);
    (kvs, m)
}

/// values() + key_count() of element `e` against the model.
fn c09_observe_pairs(kvs: &DbKeyValues<KvArr>, s: &Storage<KvArr>, m: &C09Model, e: usize) {
    let n = m.n[e];
    assert!(ok(kvs.key_count(s, e as u64)) == n as u64, "key_count");
    let values = ok(kvs.values(s, e as u64));
    assert!(values.len() == n, "number of pairs");
    macro_rules! at {
        ($($i:literal)*) => { $(
            if $i < n {
                assert!(c09_i64(&values[$i].key) == m.k[e][$i], "values() keys in map order");
                assert!(c09_i64(&values[$i].value) == m.v[e][$i], "values() current values");
            }
        )* };
    }
    at!(0 1 2 3);
    std::mem::forget(values);
}

fn c09_fresh() -> Storage<KvArr> {
    let mut b = [0u8; KV_CAP];
    b[8] = 8;
    b[16] = 1;
    crate::storage::verif_h::raw_storage(KvArr { buf: b, len: 24 })
}

/// op: 0 insert_or_replace, 1 remove_value, 2 remove (element), 3 insert_value
fn c09_step(kvs: &mut DbKeyValues<KvArr>, s: &mut Storage<KvArr>, m: &mut C09Model, op: u8, e: usize, key: i64, val: i64) {
    match op {
        0 => {
            let old = ok(kvs.insert_or_replace(s, e as u64, &c09_kv(key, val)));
            let expect = m.insert_or_replace(e, key, val);
            match (&old, expect) {
                (Some(o), Some(x)) => assert!(c09_i64(&o.key) == key && c09_i64(&o.value) == x, "insert_or_replace returns the replaced pair"),
                (None, None) => {}
                _ => panic!("insert_or_replace replaced/append decision differs from the model"),
            }
            std::mem::forget(old);
        }
        1 => {
            ok(kvs.remove_value(s, e as u64, &DbValue::I64(key)));
            m.remove_value(e, key);
        }
        2 => {
            ok(kvs.remove(s, e as u64));
            m.remove(e);
        }
        _ => {
            ok(kvs.insert_value(s, e as u64, &c09_kv(key, val)));
            m.insert(e, key, val);
        }
    }
}

//@ id=C09 tier=quick timeout=1500 bounds="prefix through the real API: reserve_capacity(2,3), element 1 = [(1,a),(2,b)], a,b symbolic i64; storage = 448-byte array back end; then insert_or_replace(1,(1,w)) and insert_or_replace(1,(3,x)), w,x symbolic" desc="replacing an existing key keeps its position and returns the old pair; a new key is appended at the end; the other element is unaffected" cbmc="--max-field-sensitivity-array-size 460" kernel="DbKeyValues::new,DbKeyValues::reserve_capacity,DbKeyValues::insert_value,DbKeyValues::insert_or_replace,DbKeyValues::values,DbKeyValues::key_count,DbVec::push,DbVec::replace,DbVec::from_storage"
#[kani::proof]
#[kani::stub(std::fmt::format, crate::verif_support::fmt_stub)]
#[kani::stub(crate::DbError::new, crate::verif_support::dberror_new_stub)]
#[kani::unwind(5)]
fn c09_replace_in_place_then_append() {
    let mut s = c09_fresh();
    let val: [i64; 2] = kani::any();
    let (mut kvs, mut m) = c09_prefix(&mut s, &val);
    let w: i64 = kani::any();
    let x: i64 = kani::any();
    c09_step(&mut kvs, &mut s, &mut m, 0, 1, 1, w);
    assert!(m.n[1] == 2 && m.k[1][0] == 1 && m.v[1][0] == w, "model: replaced in place");
    c09_observe_pairs(&kvs, &s, &m, 1);
    c09_step(&mut kvs, &mut s, &mut m, 0, 1, 3, x);
    assert!(m.n[1] == 3 && m.k[1][2] == 3, "model: appended");
    c09_observe_pairs(&kvs, &s, &m, 1);
    c09_observe_pairs(&kvs, &s, &m, 2);
    kani::cover!(w != val[0], "value really changed");
    kani::cover!(true, "end of harness reachable");
    std::mem::forget(kvs);
    std::mem::forget(s);
}

//@ id=C09 tier=quick timeout=1500 bounds="prefix through the real API: reserve_capacity(2,3), element 1 = [(1,a),(2,b)], a,b symbolic i64; storage = 448-byte array back end; then remove_value(1, 3) (absent key), remove_value(1, 1), insert_or_replace(1,(1,w))" desc="removing an absent key changes nothing; removing a key deletes exactly that pair and keeps the order of the rest; re-inserting the key appends it at the end" cbmc="--max-field-sensitivity-array-size 460" kernel="DbKeyValues::remove_value,DbKeyValues::insert_or_replace,DbKeyValues::values,DbKeyValues::key_count,DbVec::remove,DbVec::push"
#[kani::proof]
#[kani::stub(std::fmt::format, crate::verif_support::fmt_stub)]
#[kani::stub(crate::DbError::new, crate::verif_support::dberror_new_stub)]
#[kani::unwind(5)]
fn c09_remove_value_exact() {
    let mut s = c09_fresh();
    let val: [i64; 2] = kani::any();
    let (mut kvs, mut m) = c09_prefix(&mut s, &val);
    c09_step(&mut kvs, &mut s, &mut m, 1, 1, 3, 0);
    c09_observe_pairs(&kvs, &s, &m, 1);
    c09_step(&mut kvs, &mut s, &mut m, 1, 1, 1, 0);
    assert!(m.n[1] == 1 && m.k[1][0] == 2, "model: only key 2 left");
    c09_observe_pairs(&kvs, &s, &m, 1);
    let w: i64 = kani::any();
    c09_step(&mut kvs, &mut s, &mut m, 0, 1, 1, w);
    assert!(m.n[1] == 2 && m.k[1][1] == 1, "model: key 1 now last");
    c09_observe_pairs(&kvs, &s, &m, 1);
    kani::cover!(true, "end of harness reachable");
    std::mem::forget(kvs);
    std::mem::forget(s);
}

//@ id=C09 tier=quick timeout=2400 bounds="prefix through the real API: reserve_capacity(2,3), element 1 = [(1,a),(2,b)], a,b symbolic i64; storage = 448-byte array back end; then insert_value(1,(3,x)), x symbolic, and remove_value(1, 1) (the FIRST of three keys, two pairs behind it)" desc="removing a key that has two or more pairs behind it deletes exactly that pair and keeps the relative order of all the others (no swap-with-last)" cbmc="--max-field-sensitivity-array-size 460" kernel="DbKeyValues::remove_value,DbKeyValues::insert_value,DbKeyValues::values,DbKeyValues::key_count,DbVec::remove,DbVec::push"
#[kani::proof]
#[kani::stub(std::fmt::format, crate::verif_support::fmt_stub)]
#[kani::stub(crate::DbError::new, crate::verif_support::dberror_new_stub)]
#[kani::unwind(5)]
fn c09_remove_first_of_three_keeps_order() {
    let mut s = c09_fresh();
    let val: [i64; 2] = kani::any();
    let (mut kvs, mut m) = c09_prefix(&mut s, &val);
    let x: i64 = kani::any();
    c09_step(&mut kvs, &mut s, &mut m, 3, 1, 3, x);
    assert!(m.n[1] == 3, "model: three pairs");
    c09_step(&mut kvs, &mut s, &mut m, 1, 1, 1, 0);
    assert!(m.n[1] == 2 && m.k[1][0] == 2 && m.k[1][1] == 3, "model: keys 2, 3 left in that order");
    c09_observe_pairs(&kvs, &s, &m, 1);
    c09_observe_pairs(&kvs, &s, &m, 2);
    kani::cover!(x != val[1], "the two remaining values differ");
    kani::cover!(true, "end of harness reachable");
    std::mem::forget(kvs);
    std::mem::forget(s);
}

//@ id=C09 tier=quick timeout=1500 bounds="prefix through the real API: reserve_capacity(2,3), element 1 = [(1,a),(2,b)], a,b symbolic i64; storage = 448-byte array back end; then insert_or_replace(2,(1,c)), remove(1), insert_or_replace(1,(2,w)) (element index reused)" desc="removing an element removes all its pairs and nothing of the other element; the index can be reused and starts empty" cbmc="--max-field-sensitivity-array-size 460" kernel="DbKeyValues::remove,DbKeyValues::insert_or_replace,DbKeyValues::insert_value,DbKeyValues::values,DbKeyValues::key_count,DbVec::remove_from_storage,DbVec::new"
#[kani::proof]
#[kani::stub(std::fmt::format, crate::verif_support::fmt_stub)]
#[kani::stub(crate::DbError::new, crate::verif_support::dberror_new_stub)]
#[kani::unwind(5)]
fn c09_remove_element_and_reuse() {
    let mut s = c09_fresh();
    let val: [i64; 2] = kani::any();
    let (mut kvs, mut m) = c09_prefix(&mut s, &val);
    let c: i64 = kani::any();
    c09_step(&mut kvs, &mut s, &mut m, 0, 2, 1, c);
    c09_observe_pairs(&kvs, &s, &m, 2);
    c09_step(&mut kvs, &mut s, &mut m, 2, 1, 0, 0);
    assert!(m.n[1] == 0 && m.n[2] == 1, "model: element 1 empty, element 2 kept");
    c09_observe_pairs(&kvs, &s, &m, 1);
    c09_observe_pairs(&kvs, &s, &m, 2);
    let w: i64 = kani::any();
    c09_step(&mut kvs, &mut s, &mut m, 0, 1, 2, w);
    assert!(m.n[1] == 1 && m.k[1][0] == 2, "model: reused element holds only the new pair");
    c09_observe_pairs(&kvs, &s, &m, 1);
    c09_observe_pairs(&kvs, &s, &m, 2);
    kani::cover!(true, "end of harness reachable");
    std::mem::forget(kvs);
    std::mem::forget(s);
}

//@ id=C09 tier=thorough timeout=3600 bounds="prefix through the real API: reserve_capacity(2,3), element 1 = [(1,a),(2,b)], a,b symbolic i64; storage = 448-byte array back end; then insert_value(1,(3,x)); observers on element 1 (3 pairs), element 2 (valid, no pairs) and element 7 (never touched)" desc="keys(), value() for keys 1..=3, values_by_keys([3,1]) (requested order, missing keys skipped), values(), key_count() agree with the reference list; an element without pairs or beyond the table yields empty results, not errors" cbmc="--max-field-sensitivity-array-size 460" kernel="DbKeyValues::keys,DbKeyValues::value,DbKeyValues::values_by_keys,DbKeyValues::values,DbKeyValues::key_count,DbKeyValues::insert_value"
#[kani::proof]
#[kani::stub(std::fmt::format, crate::verif_support::fmt_stub)]
#[kani::stub(crate::DbError::new, crate::verif_support::dberror_new_stub)]
#[kani::unwind(5)]
fn c09_observers_match_model() {
    let mut s = c09_fresh();
    let val: [i64; 2] = kani::any();
    let (mut kvs, mut m) = c09_prefix(&mut s, &val);
    let x: i64 = kani::any();
    c09_step(&mut kvs, &mut s, &mut m, 3, 1, 3, x);
    c09_observe(&kvs, &s, &m, 1);
    c09_observe(&kvs, &s, &m, 2);
    // an element index beyond the table
    assert!(ok(kvs.key_count(&s, 7)) == 0, "unknown element has no keys");
    let v = ok(kvs.values(&s, 7));
    let k = ok(kvs.keys(&s, 7));
    let one = ok(kvs.value(&s, 7, &DbValue::I64(1)));
    assert!(v.len() == 0 && k.len() == 0 && one.is_none(), "unknown element yields empty results");
    kani::cover!(true, "end of harness reachable");
    std::mem::forget((v, k, one));
    std::mem::forget(kvs);
    std::mem::forget(s);
}
