// harnesses mounted as child module of agdb/src/query/search_query.rs
use super::*;

// Reference: ids[min(o,n) .. min(o+l,n)] with saturating arithmetic; l == 0 = no limit.
fn c16_reference(n: usize, limit: u64, offset: u64) -> (usize, usize) {
    let n64 = n as u64;
    let start = std::cmp::min(offset, n64);
    let end = if limit == 0 {
        n64
    } else {
        std::cmp::min(offset.saturating_add(limit), n64)
    };
    (start as usize, end as usize)
}

//@ id=C16 tier=quick timeout=300 bounds="limit, offset: all u64; result length 0..=4; ids symbolic" desc="SearchQuery::slice returns exactly ids[min(o,n)..min(o+l,n)] and never panics/overflows"
#[kani::proof]
#[kani::unwind(6)]
fn c16_slice_matches_reference() {
    let mut q = SearchQuery::new();
    q.limit = kani::any();
    q.offset = kani::any();
    let n: usize = kani::any();
    kani::assume(n <= 4);
    let raw: [i64; 4] = kani::any();
    let mut ids = Vec::with_capacity(4);
    let mut i = 0;
    while i < n {
        ids.push(DbId(raw[i]));
        i += 1;
    }
    let (start, end) = c16_reference(n, q.limit, q.offset);
    let r = q.slice(ids);
    let out = match r {
        Ok(v) => v,
        Err(e) => {
            std::mem::forget(e);
            panic!("slice returned Err");
        }
    };
    assert!(out.len() == end - start, "slice length differs from reference");
    let mut i = 0;
    while i < out.len() {
        assert!(out[i].0 == raw[start + i], "slice element differs from reference");
        i += 1;
    }
    kani::cover!(q.offset > n as u64, "offset beyond end explored");
    kani::cover!(q.limit > 0 && q.offset > 0 && q.offset.checked_add(q.limit).is_none(), "offset+limit overflow explored");
    kani::cover!(out.len() == 2 && start == 1, "inner window explored");
    kani::cover!(true, "end of harness reachable");
    std::mem::forget(out);
}
