// Shared helpers for all Kani harnesses (mounted as `crate::verif_support`).
//
// Everything here is harness-side code: stubs that replace formatting /
// error-construction (DESIGN.md §3.1), array-backed implementations of the
// storage-boundary traits the code base itself defines (`StorageData`,
// `GraphData`, `MapData`) and small utilities.

use crate::DbError;
use crate::DbErrorType;
use crate::StorageData;
use crate::collections::map::MapData;
use crate::collections::map::MapValueState;
use crate::db::db_error::DbErrorCategory;
use crate::graph::GraphData;
use crate::graph::GraphIndex;
use crate::storage::Storage;
use crate::storage::StorageSlice;

// ---------------------------------------------------------------------------
// Stubs (each one is part of every claim that uses it; see DESIGN.md §3.1)
// ---------------------------------------------------------------------------

/// Replaces `std::fmt::format`: error messages are outside every claim.
pub fn fmt_stub(_args: std::fmt::Arguments<'_>) -> String {
    String::new()
}

pub const STUB_LOC: &std::panic::Location<'static> = std::panic::Location::caller();

/// Replaces `DbError::new`: same category and type, empty description, constant
/// location (Kani does not support the `caller_location` intrinsic).
pub fn dberror_new_stub(
    category: DbErrorCategory,
    ty: DbErrorType,
    _description: impl Into<String>,
) -> DbError {
    DbError {
        description: String::new(),
        category,
        ty,
        cause: None,
        source_location: *STUB_LOC,
    }
}

pub fn const_err(ty: DbErrorType) -> DbError {
    DbError {
        description: String::new(),
        category: DbErrorCategory::Db,
        ty,
        cause: None,
        source_location: *STUB_LOC,
    }
}

/// Replaces `<DbError as From<std::io::Error>>::from` (no `to_string()`).
pub fn ioerr_stub(e: std::io::Error) -> DbError {
    std::mem::forget(e);
    const_err(DbErrorType::TypeError)
}

/// Replaces `<DbError as From<FromUtf8Error>>::from`.
pub fn utf8err_stub(e: std::string::FromUtf8Error) -> DbError {
    std::mem::forget(e);
    const_err(DbErrorType::TypeError)
}

/// Replaces `<DbError as From<TryFromSliceError>>::from`.
pub fn sliceerr_stub(_e: std::array::TryFromSliceError) -> DbError {
    const_err(DbErrorType::NotEnoughData)
}

/// Replaces `<DbError as From<TryFromIntError>>::from`.
pub fn interr_stub(_e: std::num::TryFromIntError) -> DbError {
    const_err(DbErrorType::TypeError)
}

/// Replaces `WriteAheadLog::wal_filename` (its `rfind` pulls in `memrchr`).
pub fn wal_name_stub(_f: &str) -> String {
    String::from(".w")
}

/// Replaces `std::vec::from_elem` (what `vec![x; n]` expands to): same content,
/// but the heap object has the fixed capacity 8 instead of a symbolic size
/// (symbolic-size objects force CBMC into its array theory and exhausted memory
/// in the recovery harnesses). Bound, part of the claim: n <= 8.
pub fn from_elem_stub8<T: Clone>(elem: T, n: usize) -> Vec<T> {
    kani::assume(n <= 8);
    let mut v: Vec<T> = Vec::with_capacity(8);
    unsafe {
        let p = v.as_mut_ptr();
        if 0 < n { p.add(0).write(elem.clone()); }
        if 1 < n { p.add(1).write(elem.clone()); }
        if 2 < n { p.add(2).write(elem.clone()); }
        if 3 < n { p.add(3).write(elem.clone()); }
        if 4 < n { p.add(4).write(elem.clone()); }
        if 5 < n { p.add(5).write(elem.clone()); }
        if 6 < n { p.add(6).write(elem.clone()); }
        if 7 < n { p.add(7).write(elem.clone()); }
        v.set_len(n);
    }
    v
}

/// `unwrap` without Debug-formatting the error.
pub fn ok<T>(r: Result<T, DbError>) -> T {
    match r {
        Ok(v) => v,
        Err(e) => {
            std::mem::forget(e);
            panic!("unexpected Err")
        }
    }
}

/// Discards a result without running `DbError`'s recursive drop glue.
pub fn is_ok<T>(r: Result<T, DbError>) -> bool {
    let ok = r.is_ok();
    std::mem::forget(r);
    ok
}

// ---------------------------------------------------------------------------
// Array-backed StorageData
// ---------------------------------------------------------------------------

pub const ARR_CAP: usize = 192;

/// A `StorageData` whose buffer is a fixed array. It follows the documented
/// contract of the trait (write may extend, resize zero-fills) and is used
/// where the *algorithm above* `StorageData` is the subject. A write or resize
/// beyond `ARR_CAP` is outside the bound of the harness (`kani::assume`).
pub struct ArrStorage {
    pub buf: [u8; ARR_CAP],
    pub len: usize,
    /// number of `flush` calls (commits of an outermost transaction)
    pub flushes: u32,
    /// number of mutating calls so far (`write`/`resize`)
    pub calls: u32,
    /// the mutating call with this ordinal fails (u32::MAX: never)
    pub fail_at: u32,
    /// set if any write started beyond the current end or straddled the end
    pub bad_write: bool,
    /// the next `fail_flushes` calls of `flush` fail (0: never)
    pub fail_flushes: u32,
    /// number of `flush` calls that failed
    pub failed_flushes: u32,
}

impl ArrStorage {
    pub fn empty() -> Self {
        Self {
            buf: [0; ARR_CAP],
            len: 0,
            flushes: 0,
            calls: 0,
            fail_at: u32::MAX,
            bad_write: false,
            fail_flushes: 0,
            failed_flushes: 0,
        }
    }

    pub fn from_slice(bytes: &[u8]) -> Self {
        let mut s = Self::empty();
        s.buf[..bytes.len()].copy_from_slice(bytes);
        s.len = bytes.len();
        s
    }
}

impl StorageData for ArrStorage {
    fn backup(&self, _name: &str) -> Result<(), DbError> {
        Ok(())
    }

    fn copy(&self, _name: &str) -> Result<Self, DbError> {
        Ok(Self {
            buf: self.buf,
            len: self.len,
            flushes: 0,
            calls: 0,
            fail_at: u32::MAX,
            bad_write: false,
            fail_flushes: 0,
            failed_flushes: 0,
        })
    }

    fn flush(&mut self) -> Result<(), DbError> {
        if self.fail_flushes > 0 {
            self.fail_flushes -= 1;
            self.failed_flushes += 1;
            return Err(const_err(DbErrorType::NotAllowed));
        }
        self.flushes += 1;
        Ok(())
    }

    fn len(&self) -> u64 {
        self.len as u64
    }

    fn name(&self) -> &str {
        "arr"
    }

    fn new(_name: &str) -> Result<Self, DbError> {
        Ok(Self::empty())
    }

    fn read(&'_ self, pos: u64, value_len: u64) -> Result<StorageSlice<'_>, DbError> {
        let end = pos + value_len;
        Ok(StorageSlice::from(&self.buf[pos as usize..end as usize]))
    }

    fn rename(&mut self, _new_name: &str) -> Result<(), DbError> {
        Ok(())
    }

    fn resize(&mut self, new_len: u64) -> Result<(), DbError> {
        let call = self.calls;
        self.calls += 1;
        if call == self.fail_at {
            return Err(const_err(DbErrorType::NotAllowed));
        }
        kani::assume(new_len as usize <= ARR_CAP);
        let new_len = new_len as usize;
        // invariant: bytes at offsets >= len are zero (so growth needs no fill)
        if new_len < self.len {
            self.buf[new_len..self.len].fill(0);
        }
        self.len = new_len;
        Ok(())
    }

    fn write(&mut self, pos: u64, bytes: &[u8]) -> Result<(), DbError> {
        let call = self.calls;
        self.calls += 1;
        if call == self.fail_at {
            return Err(const_err(DbErrorType::NotAllowed));
        }
        let pos = pos as usize;
        let end = pos + bytes.len();
        if pos > self.len || (pos < self.len && end > self.len) {
            self.bad_write = true;
        }
        kani::assume(end <= ARR_CAP);
        // the gap [len, pos) is already zero by the invariant
        self.buf[pos..end].copy_from_slice(bytes);
        if end > self.len {
            self.len = end;
        }
        Ok(())
    }
}

/// A storage holding only the version record; used where a `&mut Storage` is
/// required by a signature but never touched (array-backed graph / map data).
pub fn null_storage() -> Storage<ArrStorage> {
    let mut b = [0u8; 24];
    b[8] = 8;
    b[16] = 1;
    ok(Storage::<ArrStorage>::with_data(ArrStorage::from_slice(&b)))
}

// ---------------------------------------------------------------------------
// Array-backed GraphData
// ---------------------------------------------------------------------------

pub const GN: usize = 8;

#[derive(Clone, Copy, PartialEq, Eq)]
pub struct ArrGraph {
    pub from: [i64; GN],
    pub to: [i64; GN],
    pub from_meta: [i64; GN],
    pub to_meta: [i64; GN],
    pub cap: u64,
}

impl ArrGraph {
    /// Same initial content as `GraphDataStorage::new`.
    pub fn new() -> Self {
        let mut g = ArrGraph {
            from: [0; GN],
            to: [0; GN],
            from_meta: [0; GN],
            to_meta: [0; GN],
            cap: 1,
        };
        g.from_meta[0] = i64::MIN;
        g
    }
}

impl<D: StorageData> GraphData<D> for ArrGraph {
    fn capacity(&self) -> Result<u64, DbError> {
        Ok(self.cap)
    }
    fn commit(&mut self, _s: &mut Storage<D>, _id: u64) -> Result<(), DbError> {
        Ok(())
    }
    fn free_index(&self, _s: &Storage<D>) -> Result<i64, DbError> {
        Ok(self.from_meta[0])
    }
    fn from(&self, _s: &Storage<D>, i: GraphIndex) -> Result<i64, DbError> {
        Ok(self.from[i.as_u64() as usize])
    }
    fn from_meta(&self, _s: &Storage<D>, i: GraphIndex) -> Result<i64, DbError> {
        Ok(self.from_meta[i.as_u64() as usize])
    }
    fn grow(&mut self, _s: &mut Storage<D>) -> Result<(), DbError> {
        kani::assume((self.cap as usize) < GN);
        self.cap += 1;
        Ok(())
    }
    fn node_count(&self, _s: &Storage<D>) -> Result<u64, DbError> {
        Ok(self.to_meta[0] as u64)
    }
    fn set_from(&mut self, _s: &mut Storage<D>, i: GraphIndex, v: i64) -> Result<(), DbError> {
        self.from[i.as_u64() as usize] = v;
        Ok(())
    }
    fn set_from_meta(&mut self, _s: &mut Storage<D>, i: GraphIndex, v: i64) -> Result<(), DbError> {
        self.from_meta[i.as_u64() as usize] = v;
        Ok(())
    }
    fn set_node_count(&mut self, _s: &mut Storage<D>, c: u64) -> Result<(), DbError> {
        self.to_meta[0] = c as i64;
        Ok(())
    }
    fn set_to(&mut self, _s: &mut Storage<D>, i: GraphIndex, v: i64) -> Result<(), DbError> {
        self.to[i.as_u64() as usize] = v;
        Ok(())
    }
    fn set_to_meta(&mut self, _s: &mut Storage<D>, i: GraphIndex, v: i64) -> Result<(), DbError> {
        self.to_meta[i.as_u64() as usize] = v;
        Ok(())
    }
    fn shrink_to_fit(&mut self, _s: &mut Storage<D>) -> Result<(), DbError> {
        Ok(())
    }
    fn to(&self, _s: &Storage<D>, i: GraphIndex) -> Result<i64, DbError> {
        Ok(self.to[i.as_u64() as usize])
    }
    fn to_meta(&self, _s: &Storage<D>, i: GraphIndex) -> Result<i64, DbError> {
        Ok(self.to_meta[i.as_u64() as usize])
    }
    fn transaction(&mut self, _s: &mut Storage<D>) -> u64 {
        0
    }
}

// ---------------------------------------------------------------------------
// Array-backed MapData<u64, u64>
// ---------------------------------------------------------------------------

pub struct ArrMap<const C: usize> {
    pub states: [u8; C], // 0 empty, 1 valid, 2 deleted
    pub keys: [u64; C],
    pub values: [u64; C],
    pub len: u64,
    pub cap: u64,
}

impl<const C: usize> ArrMap<C> {
    pub fn empty(cap: u64) -> Self {
        Self {
            states: [0; C],
            keys: [0; C],
            values: [0; C],
            len: 0,
            cap,
        }
    }
}

impl<D: StorageData, const C: usize> MapData<u64, u64, D> for ArrMap<C> {
    fn capacity(&self) -> u64 {
        self.cap
    }
    fn commit(&mut self, _s: &mut Storage<D>, _id: u64) -> Result<(), DbError> {
        Ok(())
    }
    fn len(&self) -> u64 {
        self.len
    }
    fn key(&self, _s: &Storage<D>, i: u64) -> Result<u64, DbError> {
        Ok(self.keys[i as usize])
    }
    fn remove_from_storage(self, _s: &mut Storage<D>) -> Result<(), DbError> {
        Ok(())
    }
    fn resize(&mut self, _s: &mut Storage<D>, c: u64) -> Result<(), DbError> {
        kani::assume(c as usize <= C);
        let c0 = c as usize;
        // slots beyond the capacity read as Empty when the table grows again
        self.states[c0..].fill(0);
        self.cap = c;
        Ok(())
    }
    fn set_len(&mut self, _s: &mut Storage<D>, l: u64) -> Result<(), DbError> {
        self.len = l;
        Ok(())
    }
    fn set_state(&mut self, _s: &mut Storage<D>, i: u64, st: MapValueState) -> Result<(), DbError> {
        self.states[i as usize] = match st {
            MapValueState::Empty => 0,
            MapValueState::Valid => 1,
            MapValueState::Deleted => 2,
        };
        Ok(())
    }
    fn set_key(&mut self, _s: &mut Storage<D>, i: u64, k: &u64) -> Result<(), DbError> {
        self.keys[i as usize] = *k;
        Ok(())
    }
    fn set_value(&mut self, _s: &mut Storage<D>, i: u64, v: &u64) -> Result<(), DbError> {
        self.values[i as usize] = *v;
        Ok(())
    }
    fn shrink_to_fit(&mut self, _s: &mut Storage<D>) -> Result<(), DbError> {
        Ok(())
    }
    fn state(&self, _s: &Storage<D>, i: u64) -> Result<MapValueState, DbError> {
        Ok(match self.states[i as usize] {
            0 => MapValueState::Empty,
            1 => MapValueState::Valid,
            _ => MapValueState::Deleted,
        })
    }
    fn swap(&mut self, _s: &mut Storage<D>, a: u64, b: u64) -> Result<(), DbError> {
        self.states.swap(a as usize, b as usize);
        self.keys.swap(a as usize, b as usize);
        self.values.swap(a as usize, b as usize);
        Ok(())
    }
    fn transaction(&mut self, _s: &mut Storage<D>) -> u64 {
        0
    }
    fn value(&self, _s: &Storage<D>, i: u64) -> Result<u64, DbError> {
        Ok(self.values[i as usize])
    }
}
