// harnesses mounted as child module of agdb/src/collections/vec.rs
#[allow(unused_imports)]
use super::*;
