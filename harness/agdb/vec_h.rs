// harnesses mounted as child module of agdb/src/collections/vec.rs
#[allow(unused_imports)]
use super::*;

use crate::storage::verif_h::fresh_arr_storage;
use crate::verif_support::ArrStorage;
use crate::verif_support::is_ok;
use crate::verif_support::ok;

// ---------------------------------------------------------------------------
// C07: DbVec::from_storage on a record with arbitrary short content
// ---------------------------------------------------------------------------

/// Storage whose record 1 holds `n` (concrete) arbitrary bytes.
fn c07_storage_with_record<const N: usize>() -> (Storage<ArrStorage>, [u8; N]) {
    let mut s = fresh_arr_storage();
    let content: [u8; N] = kani::any();
    let idx = ok(s.insert_bytes(&content));
    assert!(idx.0 == 1);
    (s, content)
}

fn c07_le64<const N: usize>(b: &[u8; N]) -> u64 {
    u64::from_le_bytes([b[0], b[1], b[2], b[3], b[4], b[5], b[6], b[7]])
}

fn c07_check_element<const N: usize>(v: &DbVec<i64, ArrStorage>, s: &Storage<ArrStorage>, content: &[u8; N], i: u64) {
    let e = v.value(s, i);
    let inside = i < v.len() && 8 + 8 * (i + 1) <= N as u64;
    match &e {
        Ok(x) => {
            assert!(inside, "only elements inside the record can be read");
            let off = 8 + 8 * i as usize;
            assert!(*x == i64::from_le_bytes([content[off], content[off + 1], content[off + 2], content[off + 3], content[off + 4], content[off + 5], content[off + 6], content[off + 7]]), "element bytes");
        }
        Err(_) => assert!(!inside, "an element inside the record must be readable"),
    }
    std::mem::forget(e);
}

/// `from_storage` for element types of 8 and 32 bytes on a record of `N`
/// arbitrary bytes; then reads through the vector.
fn c07_from_storage_record<const N: usize>() -> bool {
    let mut huge_len = false;
    let (s, content) = c07_storage_with_record::<N>();
    let r8 = DbVec::<i64, ArrStorage>::from_storage(&s, StorageIndex(1));
    let r32 = DbVec::<crate::DbKeyValue, ArrStorage>::from_storage(&s, StorageIndex(1));
    assert!(r8.is_ok() == (N >= 8) && r32.is_ok() == (N >= 8), "Ok exactly when the 8-byte length is present");
    if let Ok(v) = &r8 {
        // the length is whatever the file says - possibly far beyond the record
        assert!(v.len() == c07_le64(&content), "len is read from the record");
        assert!(v.storage_index().0 == 1, "storage index kept");
        c07_check_element(v, &s, &content, 0);
        c07_check_element(v, &s, &content, 1);
        c07_check_element(v, &s, &content, 1 << 55);
        huge_len = v.len() > 1000;
    }
    if let Ok(v) = &r32 {
        assert!(v.len() == c07_le64(&content), "len is read from the record");
        assert!(v.capacity() == 0, "no 32-byte element fits");
    }
    std::mem::forget(r8);
    std::mem::forget(r32);
    std::mem::forget(s);
    huge_len
}

//@ id=C07 tier=quick timeout=900 bounds="record content of 7 and 16 bytes (enumerated), all bytes symbolic (so the stored length is any u64); element indexes 0, 1, 2^55" desc="DbVec::from_storage on a record with arbitrary short content never panics: Err below 8 bytes (and for a missing record), otherwise len = the stored u64 however large; value() through such a vector returns Err for elements outside the record and the stored bytes for those inside" cbmc="--max-field-sensitivity-array-size 200" kernel="DbVec::from_storage,VecImpl::value,VecImpl::len,VecImpl::capacity,DbVecData::value,Storage::value,Storage::value_size,Storage::value_as_bytes_at_size"
#[kani::proof]
#[kani::stub(std::fmt::format, crate::verif_support::fmt_stub)]
#[kani::stub(crate::DbError::new, crate::verif_support::dberror_new_stub)]
#[kani::stub(<crate::DbError as std::convert::From<std::array::TryFromSliceError>>::from, crate::verif_support::sliceerr_stub)]
#[kani::unwind(4)]
fn c07_dbvec_from_storage_arbitrary_record() {
    c07_from_storage_record::<7>();
    let huge = c07_from_storage_record::<16>();
    kani::cover!(huge, "len claims far more elements than the record holds");
    let s = fresh_arr_storage();
    assert!(!is_ok(DbVec::<i64, ArrStorage>::from_storage(&s, StorageIndex(1))), "missing record is an error");
    assert!(!is_ok(DbVec::<i64, ArrStorage>::from_storage(&s, StorageIndex(0))), "index 0 is an error");
    kani::cover!(true, "end of harness reachable");
    std::mem::forget(s);
}
