// Model file system for verification (mounted as `crate::verif_fs`, replaces
// `std::fs::{File, OpenOptions}` inside `FileStorage` and `WriteAheadLog` when
// built with `--cfg agdb_verif` under Kani).
//
// Two files: slot 0 = the data file, slot 1 = the recovery log (any name
// starting with '.'). Each is a fixed byte array with an explicit length.
//
// Assumed contract (part of every claim that uses it, DESIGN.md §3.2):
//  * one file call is atomic (optionally: a strict prefix of the interrupted
//    `write_all` reached the file -- `torn`); the OS applies calls in order;
//  * `set_len` growth and writing past the end zero-fill the gap;
//  * `read_exact` past the end fails with `UnexpectedEof`;
//  * bounds of the model (`kani::assume`, i.e. outside every claim): a file never
//    exceeds CAP bytes; one `write_all`/`read_exact` moves at most SMALL bytes;
//    one call grows a file by at most SMALL bytes.
//
// Crash points: every *mutating* call (`write_all`, `set_len`) first passes
// `before_mutation()`. When the running count of mutating calls equals
// `crash_at`, both files are copied to the snapshot -- the state a process
// dying immediately before that call would leave behind.
//
// Implementation notes (they matter for CBMC): every piece of state is its own
// static so that constant propagation survives; there is no memcpy with a
// symbolic length (it would turn the whole object symbolic) and no loop: copies
// are SMALL guarded assignments, unrolled by macro.

use std::io::{Error, ErrorKind, Result, SeekFrom};

pub const CAP: usize = 64;
pub const SMALL: usize = 8;

macro_rules! unroll16 {
    ($i:ident, $body:block) => {
        { let $i: usize = 0; $body }
        { let $i: usize = 1; $body }
        { let $i: usize = 2; $body }
        { let $i: usize = 3; $body }
        { let $i: usize = 4; $body }
        { let $i: usize = 5; $body }
        { let $i: usize = 6; $body }
        { let $i: usize = 7; $body }
    };
}

pub static mut DATA: [u8; CAP] = [0; CAP];
pub static mut DATA_LEN: usize = 0;
pub static mut LOG: [u8; CAP] = [0; CAP];
pub static mut LOG_LEN: usize = 0;
pub static mut SNAP_DATA: [u8; CAP] = [0; CAP];
pub static mut SNAP_DATA_LEN: usize = 0;
pub static mut SNAP_LOG: [u8; CAP] = [0; CAP];
pub static mut SNAP_LOG_LEN: usize = 0;
/// number of mutating calls performed so far
pub static mut STEP: u32 = 0;
/// the snapshot is taken just before the mutating call with this ordinal
pub static mut CRASH_AT: u32 = u32::MAX;
pub static mut SNAPPED: bool = false;
/// `STEP` at the time of the first data-file mutation (u32::MAX: none yet)
pub static mut FIRST_DATA_MUTATION_STEP: u32 = u32::MAX;
/// torn write: if the crash point is a `write_all`, this many leading bytes of
/// that write (only if strictly less than its length) reached the file.
pub static mut TORN: usize = 0;
/// `STEP` at which the snapshot was taken (u32::MAX: none, or taken "now")
pub static mut SNAP_STEP: u32 = u32::MAX;
/// number of log-file mutations so far / at the time of the first data mutation
pub static mut LOG_MUTATIONS: u32 = 0;
pub static mut LOG_MUTATIONS_AT_FIRST_DATA_MUTATION: u32 = u32::MAX;

#[allow(static_mut_refs)]
pub fn data_len() -> usize {
    unsafe { DATA_LEN }
}
#[allow(static_mut_refs)]
pub fn log_len() -> usize {
    unsafe { LOG_LEN }
}
#[allow(static_mut_refs)]
pub fn data_byte(i: usize) -> u8 {
    unsafe { DATA[i] }
}
#[allow(static_mut_refs)]
pub fn log_byte(i: usize) -> u8 {
    unsafe { LOG[i] }
}
#[allow(static_mut_refs)]
pub fn snapped() -> bool {
    unsafe { SNAPPED }
}
#[allow(static_mut_refs)]
pub fn step() -> u32 {
    unsafe { STEP }
}
#[allow(static_mut_refs)]
pub fn crash_at() -> u32 {
    unsafe { CRASH_AT }
}
#[allow(static_mut_refs)]
pub fn torn() -> usize {
    unsafe { TORN }
}
#[allow(static_mut_refs)]
pub fn first_data_mutation_step() -> u32 {
    unsafe { FIRST_DATA_MUTATION_STEP }
}
#[allow(static_mut_refs)]
pub fn snap_step() -> u32 {
    unsafe { SNAP_STEP }
}
#[allow(static_mut_refs)]
pub fn log_mutations() -> u32 {
    unsafe { LOG_MUTATIONS }
}
#[allow(static_mut_refs)]
pub fn log_mutations_at_first_data_mutation() -> u32 {
    unsafe { LOG_MUTATIONS_AT_FIRST_DATA_MUTATION }
}

#[allow(static_mut_refs)]
pub fn snap_log_len() -> usize {
    unsafe { SNAP_LOG_LEN }
}
#[allow(static_mut_refs)]
pub fn snap_log_byte(i: usize) -> u8 {
    unsafe { SNAP_LOG[i] }
}
#[allow(static_mut_refs)]
pub fn snap_data_len() -> usize {
    unsafe { SNAP_DATA_LEN }
}
#[allow(static_mut_refs)]
pub fn snap_data_byte(i: usize) -> u8 {
    unsafe { SNAP_DATA[i] }
}
/// little-endian u64 at `off` of the (live) log file
pub fn log_u64(off: usize) -> u64 {
    (log_byte(off) as u64)
        | (log_byte(off + 1) as u64) << 8
        | (log_byte(off + 2) as u64) << 16
        | (log_byte(off + 3) as u64) << 24
        | (log_byte(off + 4) as u64) << 32
        | (log_byte(off + 5) as u64) << 40
        | (log_byte(off + 6) as u64) << 48
        | (log_byte(off + 7) as u64) << 56
}

/// Resets the model: data file = `data` (at most SMALL bytes), empty log, no
/// crash point armed.
#[allow(static_mut_refs)]
pub fn reset(data: &[u8]) {
    kani::assume(data.len() <= SMALL);
    unsafe {
        DATA = [0; CAP];
        LOG = [0; CAP];
        SNAP_DATA = [0; CAP];
        SNAP_LOG = [0; CAP];
        unroll16!(i, {
            if i < data.len() {
                DATA[i] = data[i];
            }
        });
        DATA_LEN = data.len();
        LOG_LEN = 0;
        SNAP_DATA_LEN = 0;
        SNAP_LOG_LEN = 0;
        STEP = 0;
        CRASH_AT = u32::MAX;
        SNAPPED = false;
        FIRST_DATA_MUTATION_STEP = u32::MAX;
        TORN = 0;
        SNAP_STEP = u32::MAX;
        LOG_MUTATIONS = 0;
        LOG_MUTATIONS_AT_FIRST_DATA_MUTATION = u32::MAX;
    }
}

/// Sets the log file content (for harnesses that start from a given log).
#[allow(static_mut_refs)]
pub fn set_log(bytes: &[u8; CAP], len: usize) {
    kani::assume(len <= CAP);
    unsafe {
        LOG = *bytes;
        LOG_LEN = len;
    }
}

/// Arms the crash point: the process dies immediately before the mutating call
/// number `at` (counted from now), with `torn` bytes of that call applied.
#[allow(static_mut_refs)]
pub fn arm_crash(at: u32, torn: usize) {
    unsafe {
        STEP = 0;
        FIRST_DATA_MUTATION_STEP = u32::MAX;
        CRASH_AT = at;
        TORN = torn;
        SNAPPED = false;
        SNAP_STEP = u32::MAX;
        LOG_MUTATIONS = 0;
        LOG_MUTATIONS_AT_FIRST_DATA_MUTATION = u32::MAX;
    }
}

#[allow(static_mut_refs)]
fn take_snapshot() {
    unsafe {
        SNAP_DATA = DATA;
        SNAP_DATA_LEN = DATA_LEN;
        SNAP_LOG = LOG;
        SNAP_LOG_LEN = LOG_LEN;
        SNAPPED = true;
    }
}

/// A crash point that is not a file call: "the process dies now" (if it has not
/// died before).
pub fn crash_now_if_not_crashed() {
    if !snapped() {
        take_snapshot();
    }
}

/// Replaces the live files with the crash snapshot ("the process died, the
/// machine kept the files") and disarms the crash point.
#[allow(static_mut_refs)]
pub fn restore_snapshot() {
    unsafe {
        DATA = SNAP_DATA;
        DATA_LEN = SNAP_DATA_LEN;
        LOG = SNAP_LOG;
        LOG_LEN = SNAP_LOG_LEN;
        CRASH_AT = u32::MAX;
        SNAPPED = false;
    }
}

/// returns true if the crash snapshot was taken right now
#[allow(static_mut_refs)]
fn before_mutation(slot: usize) -> bool {
    unsafe {
        let now = STEP == CRASH_AT && !SNAPPED;
        if now {
            take_snapshot();
            SNAP_STEP = STEP;
        }
        if slot == 0 && FIRST_DATA_MUTATION_STEP == u32::MAX {
            FIRST_DATA_MUTATION_STEP = STEP;
            LOG_MUTATIONS_AT_FIRST_DATA_MUTATION = LOG_MUTATIONS;
        }
        if slot == 1 {
            LOG_MUTATIONS += 1;
        }
        STEP += 1;
        now
    }
}

fn slot_of(name: &str) -> usize {
    if name.as_bytes().first() == Some(&b'.') {
        1
    } else {
        0
    }
}

#[derive(Debug)]
pub struct File {
    slot: usize,
    pos: std::cell::Cell<u64>,
}

// Kani executes sequentially; `Sync` only keeps `DbImpl<FileStorage>: Sync`
// compiling for the crate's own tests in playback builds.
unsafe impl Sync for File {}

pub struct OpenOptions;

impl OpenOptions {
    pub fn new() -> Self {
        OpenOptions
    }
    pub fn read(&mut self, _v: bool) -> &mut Self {
        self
    }
    pub fn write(&mut self, _v: bool) -> &mut Self {
        self
    }
    pub fn truncate(&mut self, _v: bool) -> &mut Self {
        self
    }
    pub fn create(&mut self, _v: bool) -> &mut Self {
        self
    }
    pub fn open<P: AsRef<str>>(&self, name: P) -> Result<File> {
        Ok(File {
            slot: slot_of(name.as_ref()),
            pos: std::cell::Cell::new(0),
        })
    }
}


impl File {
    /// only so that the crate's own unit tests still compile in playback builds
    pub fn options() -> OpenOptions {
        OpenOptions
    }

    pub fn open<P: AsRef<str>>(name: P) -> Result<File> {
        Ok(File {
            slot: slot_of(name.as_ref()),
            pos: std::cell::Cell::new(0),
        })
    }

    #[allow(static_mut_refs)]
    fn len(&self) -> usize {
        unsafe {
            if self.slot == 0 { DATA_LEN } else { LOG_LEN }
        }
    }

    #[allow(static_mut_refs)]
    pub fn set_len(&self, len: u64) -> Result<()> {
        before_mutation(self.slot);
        kani::assume(len <= CAP as u64);
        let len = len as usize;
        let old = self.len();
        unsafe {
            if len > old {
                // growth zero-fills
                kani::assume(len - old <= SMALL);
                if self.slot == 0 {
                    unroll16!(i, {
                        if old + i < len {
                            DATA[old + i] = 0;
                        }
                    });
                } else {
                    unroll16!(i, {
                        if old + i < len {
                            LOG[old + i] = 0;
                        }
                    });
                }
            }
            if self.slot == 0 {
                DATA_LEN = len;
            } else {
                LOG_LEN = len;
            }
        }
        Ok(())
    }

    fn do_seek(&self, pos: SeekFrom) -> Result<u64> {
        let len = self.len() as u64;
        let new = match pos {
            SeekFrom::Start(p) => p,
            SeekFrom::End(o) => (len as i64).wrapping_add(o) as u64,
            SeekFrom::Current(o) => (self.pos.get() as i64).wrapping_add(o) as u64,
        };
        // std: seeking to a negative offset is an error
        if (new as i64) < 0 {
            return Err(Error::from(ErrorKind::InvalidInput));
        }
        self.pos.set(new);
        Ok(new)
    }

    #[allow(static_mut_refs)]
    fn do_read_exact(&self, buf: &mut [u8]) -> Result<()> {
        let len = self.len() as u64;
        let pos = self.pos.get();
        if pos > len || (len - pos) < buf.len() as u64 {
            return Err(Error::from(ErrorKind::UnexpectedEof));
        }
        kani::assume(buf.len() <= SMALL);
        let pos = pos as usize;
        let n = buf.len();
        unsafe {
            if self.slot == 0 {
                unroll16!(i, {
                    if i < n {
                        buf[i] = DATA[pos + i];
                    }
                });
            } else {
                unroll16!(i, {
                    if i < n {
                        buf[i] = LOG[pos + i];
                    }
                });
            }
        }
        self.pos.set((pos + n) as u64);
        Ok(())
    }

    #[allow(static_mut_refs)]
    fn do_write_all(&self, buf: &[u8]) -> Result<()> {
        let crashed_here = before_mutation(self.slot);
        let pos = self.pos.get();
        let n = buf.len();
        kani::assume(n <= SMALL);
        kani::assume(pos <= CAP as u64 && n <= CAP - pos as usize);
        let pos = pos as usize;
        if n == 0 {
            // a zero-length write does nothing (it does not extend the file)
            return Ok(());
        }
        let old = self.len();
        unsafe {
            if pos > old {
                // the gap [old, pos) reads as zeros
                kani::assume(pos - old <= SMALL);
                if self.slot == 0 {
                    unroll16!(i, {
                        if old + i < pos {
                            DATA[old + i] = 0;
                        }
                    });
                } else {
                    unroll16!(i, {
                        if old + i < pos {
                            LOG[old + i] = 0;
                        }
                    });
                }
            }
            if crashed_here {
                // torn write: a strict prefix of this call reached the file
                let t = TORN;
                if t > 0 && t < n {
                    if self.slot == 0 {
                        unroll16!(i, {
                            if old + i < pos {
                                SNAP_DATA[old + i] = 0;
                            }
                        });
                        unroll16!(i, {
                            if i < t {
                                SNAP_DATA[pos + i] = buf[i];
                            }
                        });
                        if pos + t > SNAP_DATA_LEN {
                            SNAP_DATA_LEN = pos + t;
                        }
                    } else {
                        unroll16!(i, {
                            if old + i < pos {
                                SNAP_LOG[old + i] = 0;
                            }
                        });
                        unroll16!(i, {
                            if i < t {
                                SNAP_LOG[pos + i] = buf[i];
                            }
                        });
                        if pos + t > SNAP_LOG_LEN {
                            SNAP_LOG_LEN = pos + t;
                        }
                    }
                }
            }
            if self.slot == 0 {
                unroll16!(i, {
                    if i < n {
                        DATA[pos + i] = buf[i];
                    }
                });
                if pos + n > DATA_LEN {
                    DATA_LEN = pos + n;
                }
            } else {
                unroll16!(i, {
                    if i < n {
                        LOG[pos + i] = buf[i];
                    }
                });
                if pos + n > LOG_LEN {
                    LOG_LEN = pos + n;
                }
            }
        }
        self.pos.set((pos + n) as u64);
        Ok(())
    }
}

impl std::io::Seek for File {
    fn seek(&mut self, pos: SeekFrom) -> Result<u64> {
        self.do_seek(pos)
    }
}
impl std::io::Seek for &File {
    fn seek(&mut self, pos: SeekFrom) -> Result<u64> {
        self.do_seek(pos)
    }
}
impl std::io::Read for File {
    fn read(&mut self, _buf: &mut [u8]) -> Result<usize> {
        unimplemented!()
    }
    fn read_exact(&mut self, buf: &mut [u8]) -> Result<()> {
        self.do_read_exact(buf)
    }
}
impl std::io::Read for &File {
    fn read(&mut self, _buf: &mut [u8]) -> Result<usize> {
        unimplemented!()
    }
    fn read_exact(&mut self, buf: &mut [u8]) -> Result<()> {
        self.do_read_exact(buf)
    }
}
impl std::io::Write for File {
    fn write(&mut self, _buf: &[u8]) -> Result<usize> {
        unimplemented!()
    }
    fn write_all(&mut self, buf: &[u8]) -> Result<()> {
        self.do_write_all(buf)
    }
    fn flush(&mut self) -> Result<()> {
        Ok(())
    }
}
