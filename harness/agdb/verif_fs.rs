// Model file system for verification (mounted as `crate::verif_fs`, replaces
// `std::fs::{File, OpenOptions}` inside `FileStorage` and `WriteAheadLog` when
// built with `--cfg agdb_verif` under Kani).
//
// Two files: slot 0 = the data file, slot 1 = the recovery log (any name
// starting with '.'). Each is a fixed byte array with an explicit length.
//
// Assumed contract (part of every claim that uses it, DESIGN.md §3.2):
//  * one file call is atomic; the OS applies calls in program order;
//  * `set_len` growth and writing past the end zero-fill the gap;
//  * `read_exact` past the end fails with `UnexpectedEof` and leaves the cursor
//    position unspecified-but-valid (here: unchanged);
//  * a call that would exceed `CAP` bytes is outside the bound (`kani::assume`).
//
// Crash points: every *mutating* call (`write_all`, `set_len`) first passes
// `before_mutation()`. When the running count of mutating calls equals
// `crash_at`, both files are copied to `snapshot` -- the state a process dying
// immediately before that call would leave behind.
//
// Invariant kept by the model: bytes at offsets >= len are zero.

use std::io::{Error, ErrorKind, Result, SeekFrom};

pub const CAP: usize = 96;

#[derive(Clone, Copy)]
pub struct FileState {
    pub data: [u8; CAP],
    pub len: usize,
}

pub const EMPTY_FILE: FileState = FileState {
    data: [0; CAP],
    len: 0,
};

pub struct Fs {
    pub files: [FileState; 2],
    /// number of mutating calls performed so far
    pub step: u32,
    /// snapshot is taken just before the mutating call with this ordinal
    pub crash_at: u32,
    pub snapshot: [FileState; 2],
    pub snapped: bool,
    /// number of mutating calls on the data file / on the log
    pub data_mutations: u32,
    pub log_mutations: u32,
    /// `step` value at the time of the first data-file mutation (u32::MAX: none)
    pub first_data_mutation_step: u32,
}

pub static mut FS: Fs = Fs {
    files: [EMPTY_FILE; 2],
    step: 0,
    crash_at: u32::MAX,
    snapshot: [EMPTY_FILE; 2],
    snapped: false,
    data_mutations: 0,
    log_mutations: 0,
    first_data_mutation_step: u32::MAX,
};

#[allow(static_mut_refs)]
pub fn fs() -> &'static mut Fs {
    unsafe { &mut FS }
}

/// Resets the model: data file = `data`, empty log, no crash point armed.
pub fn reset(data: &[u8]) {
    let f = fs();
    f.files = [EMPTY_FILE; 2];
    f.files[0].data[..data.len()].copy_from_slice(data);
    f.files[0].len = data.len();
    f.step = 0;
    f.crash_at = u32::MAX;
    f.snapshot = [EMPTY_FILE; 2];
    f.snapped = false;
    f.data_mutations = 0;
    f.log_mutations = 0;
    f.first_data_mutation_step = u32::MAX;
}

/// Replaces the live files with the crash snapshot ("the process died, the
/// machine kept the files") and disarms the crash point.
pub fn restore_snapshot() {
    let f = fs();
    f.files = f.snapshot;
    f.crash_at = u32::MAX;
    f.snapped = false;
}

fn before_mutation(slot: usize) {
    let f = fs();
    if f.step == f.crash_at && !f.snapped {
        f.snapshot = f.files;
        f.snapped = true;
    }
    if slot == 0 {
        if f.first_data_mutation_step == u32::MAX {
            f.first_data_mutation_step = f.step;
        }
        f.data_mutations += 1;
    } else {
        f.log_mutations += 1;
    }
    f.step += 1;
}

fn slot_of(name: &str) -> usize {
    if name.as_bytes().first() == Some(&b'.') {
        1
    } else {
        0
    }
}

#[derive(Debug)]
pub struct File {
    slot: usize,
    pos: std::sync::atomic::AtomicU64,
}

pub struct OpenOptions;

impl OpenOptions {
    pub fn new() -> Self {
        OpenOptions
    }
    pub fn read(&mut self, _v: bool) -> &mut Self {
        self
    }
    pub fn write(&mut self, _v: bool) -> &mut Self {
        self
    }
    pub fn truncate(&mut self, _v: bool) -> &mut Self {
        self
    }
    pub fn create(&mut self, _v: bool) -> &mut Self {
        self
    }
    pub fn open<P: AsRef<str>>(&self, name: P) -> Result<File> {
        Ok(File {
            slot: slot_of(name.as_ref()),
            pos: std::sync::atomic::AtomicU64::new(0),
        })
    }
}

impl File {
    /// only so that the crate's own unit tests still compile in playback builds
    pub fn options() -> OpenOptions {
        OpenOptions
    }

    pub fn open<P: AsRef<str>>(name: P) -> Result<File> {
        Ok(File {
            slot: slot_of(name.as_ref()),
            pos: std::sync::atomic::AtomicU64::new(0),
        })
    }

    pub fn set_len(&self, len: u64) -> Result<()> {
        before_mutation(self.slot);
        kani::assume(len <= CAP as u64);
        let st = &mut fs().files[self.slot];
        let len = len as usize;
        // keep "bytes beyond len are zero"
        if len < st.len {
            st.data[len..st.len].fill(0);
        }
        st.len = len;
        Ok(())
    }

    fn do_seek(&self, pos: SeekFrom) -> Result<u64> {
        let len = fs().files[self.slot].len as u64;
        let new = match pos {
            SeekFrom::Start(p) => p,
            SeekFrom::End(o) => (len as i64).wrapping_add(o) as u64,
            SeekFrom::Current(o) => (self.pos.load(std::sync::atomic::Ordering::Relaxed) as i64).wrapping_add(o) as u64,
        };
        // std: seeking to a negative offset is an error
        if (new as i64) < 0 {
            return Err(Error::from(ErrorKind::InvalidInput));
        }
        self.pos.store(new, std::sync::atomic::Ordering::Relaxed);
        Ok(new)
    }

    fn do_read_exact(&self, buf: &mut [u8]) -> Result<()> {
        let st = &fs().files[self.slot];
        let pos = self.pos.load(std::sync::atomic::Ordering::Relaxed);
        if pos > st.len as u64 || (st.len as u64 - pos) < buf.len() as u64 {
            return Err(Error::from(ErrorKind::UnexpectedEof));
        }
        let pos = pos as usize;
        buf.copy_from_slice(&st.data[pos..pos + buf.len()]);
        self.pos.store((pos + buf.len()) as u64, std::sync::atomic::Ordering::Relaxed);
        Ok(())
    }

    fn do_write_all(&self, buf: &[u8]) -> Result<()> {
        before_mutation(self.slot);
        let st = &mut fs().files[self.slot];
        let pos = self.pos.load(std::sync::atomic::Ordering::Relaxed);
        kani::assume(pos <= CAP as u64 && buf.len() <= CAP - pos as usize);
        let pos = pos as usize;
        if buf.is_empty() {
            // POSIX: a zero-length write does not extend the file
            return Ok(());
        }
        st.data[pos..pos + buf.len()].copy_from_slice(buf);
        if pos + buf.len() > st.len {
            st.len = pos + buf.len();
        }
        self.pos.store((pos + buf.len()) as u64, std::sync::atomic::Ordering::Relaxed);
        Ok(())
    }
}

impl std::io::Seek for File {
    fn seek(&mut self, pos: SeekFrom) -> Result<u64> {
        self.do_seek(pos)
    }
}
impl std::io::Seek for &File {
    fn seek(&mut self, pos: SeekFrom) -> Result<u64> {
        self.do_seek(pos)
    }
}
impl std::io::Read for File {
    fn read(&mut self, _buf: &mut [u8]) -> Result<usize> {
        unimplemented!()
    }
    fn read_exact(&mut self, buf: &mut [u8]) -> Result<()> {
        self.do_read_exact(buf)
    }
}
impl std::io::Read for &File {
    fn read(&mut self, _buf: &mut [u8]) -> Result<usize> {
        unimplemented!()
    }
    fn read_exact(&mut self, buf: &mut [u8]) -> Result<()> {
        self.do_read_exact(buf)
    }
}
impl std::io::Write for File {
    fn write(&mut self, _buf: &[u8]) -> Result<usize> {
        unimplemented!()
    }
    fn write_all(&mut self, buf: &[u8]) -> Result<()> {
        self.do_write_all(buf)
    }
    fn flush(&mut self) -> Result<()> {
        Ok(())
    }
}
