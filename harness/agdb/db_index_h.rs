// harnesses mounted as child module of agdb/src/db/db_index.rs
#[allow(unused_imports)]
use super::*;
