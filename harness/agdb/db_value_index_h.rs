// harnesses mounted as child module of agdb/src/db/db_value_index.rs
#[allow(unused_imports)]
use super::*;

use crate::verif_support::ok;

// Layout of the 16-byte value index as documented by the property text
// ("16-byte value index with inline small values"): byte 15 = type (high
// nibble) | inline size (low nibble); bytes 0..size = inline value, or bytes
// 0..8 = little-endian storage index when size == 0.

fn c12_same_except_last(a: &[u8; 16], b: &[u8; 16]) -> bool {
    let mut i = 0;
    let mut same = true;
    while i < 15 {
        if a[i] != b[i] {
            same = false;
        }
        i += 1;
    }
    same
}

//@ id=C12 tier=quick timeout=300 bounds="index: all 2^128 bit patterns; type: all u8" desc="set_type/get_type round trip (low 4 bits kept), leaves inline size and payload bytes untouched" kernel="DbValueIndex::set_type,DbValueIndex::get_type,DbValueIndex::size,DbValueIndex::data"
#[kani::proof]
#[kani::unwind(17)]
fn c12_index_set_type_roundtrip() {
    let raw: [u8; 16] = kani::any();
    let mut idx = DbValueIndex { value: raw };
    let t: u8 = kani::any();
    let size_before = idx.size();
    assert!(size_before == raw[15] & 0x0f, "size() is the low nibble of byte 15");
    assert!(idx.get_type() == raw[15] >> 4, "get_type() is the high nibble of byte 15");
    idx.set_type(t);
    assert!(idx.get_type() == t & 0x0f, "get_type after set_type");
    assert!(idx.size() == size_before, "set_type must not change the inline size");
    let after = idx.data();
    assert!(c12_same_except_last(&raw, &after), "set_type must not touch payload bytes");
    assert!(after[15] == ((t & 0x0f) << 4) | (raw[15] & 0x0f), "byte 15 layout");
    kani::cover!(t == 9 && size_before == 15, "largest type with largest size");
    kani::cover!(t > 15, "type wider than a nibble explored");
    kani::cover!(true, "end of harness reachable");
}

//@ id=C12 tier=quick timeout=300 bounds="value length 0..=17 (symbolic bytes); type 1..=9; index starts as new()+set_type" desc="set_value succeeds exactly for len<=15, then size()==len, value()==bytes, is_value(), type kept; for len>15 returns false and changes nothing" kernel="DbValueIndex::set_value,DbValueIndex::value,DbValueIndex::size,DbValueIndex::is_value,DbValueIndex::new"
#[kani::proof]
#[kani::stub(std::fmt::format, crate::verif_support::fmt_stub)]
#[kani::stub(crate::DbError::new, crate::verif_support::dberror_new_stub)]
#[kani::unwind(19)]
fn c12_index_set_value_every_length() {
    let t: u8 = kani::any();
    kani::assume(t >= 1 && t <= 9);
    let n: usize = kani::any();
    kani::assume(n <= 17);
    let data: [u8; 17] = kani::any();
    let mut idx = DbValueIndex::new();
    assert!(idx.data() == [0u8; 16], "new() is all zero");
    assert!(idx.is_value() && idx.size() == 0 && idx.index() == 0 && idx.get_type() == 0, "new() state");
    idx.set_type(t);
    let before = idx.data();
    let stored = idx.set_value(&data[..n]);
    assert!(stored == (n <= 15), "inline boundary is 15 bytes");
    if stored {
        assert!(idx.size() as usize == n, "size() after set_value");
        assert!(idx.get_type() == t, "set_value must keep the type");
        assert!(idx.is_value(), "inline value must report is_value()");
        let v = idx.value();
        assert!(v.len() == n, "value() length");
        let mut i = 0;
        while i < 15 {
            if i < n {
                assert!(v[i] == data[i], "value() byte");
            }
            i += 1;
        }
        // serialized form is the raw 16 bytes and deserializes to the same index
        let bytes = idx.serialize();
        assert!(bytes.len() == 16 && idx.serialized_size() == 16, "serialized size");
        let back = ok(DbValueIndex::deserialize(&bytes));
        assert!(back.data() == idx.data(), "serialize/deserialize round trip");
        std::mem::forget(bytes);
    } else {
        assert!(idx.data() == before, "failed set_value must not modify the index");
    }
    kani::cover!(n == 0 && stored, "empty inline value");
    kani::cover!(n == 15 && stored, "largest inline value");
    kani::cover!(n == 16 && !stored, "smallest out-of-line value");
    kani::cover!(n == 17, "length 17");
    kani::cover!(true, "end of harness reachable");
}

//@ id=C12 tier=quick timeout=300 bounds="starting index: all 2^128 bit patterns; storage index: all u64" desc="set_index/index round trip, clears inline size, keeps type, is_value() false unless index 0" kernel="DbValueIndex::set_index,DbValueIndex::index,DbValueIndex::is_value,DbValueIndex::size"
#[kani::proof]
#[kani::unwind(17)]
fn c12_index_set_index_roundtrip() {
    let raw: [u8; 16] = kani::any();
    let mut idx = DbValueIndex { value: raw };
    let i: u64 = kani::any();
    let t = idx.get_type();
    idx.set_index(i);
    assert!(idx.index() == i, "index() after set_index");
    assert!(idx.size() == 0, "set_index clears inline size");
    assert!(idx.get_type() == t, "set_index keeps the type");
    assert!(idx.is_value() == (i == 0), "an index entry is not a value (except index 0)");
    assert!(idx.value().len() == 0, "no inline bytes after set_index");
    let after = idx.data();
    let le = i.to_le_bytes();
    let mut k = 0;
    while k < 8 {
        assert!(after[k] == le[k], "index stored little endian in bytes 0..8");
        k += 1;
    }
    while k < 15 {
        assert!(after[k] == raw[k], "bytes 8..15 untouched");
        k += 1;
    }
    kani::cover!(i == u64::MAX, "max index");
    kani::cover!(i == 0, "index zero");
    kani::cover!(raw[15] & 0x0f == 15, "size was 15 before");
    kani::cover!(true, "end of harness reachable");
}

//@ id=C12 tier=quick timeout=300 bounds="index: all 2^128 bit patterns" desc="is_value(), size(), value(), index(), get_type(), data(), serialize agree with the documented byte layout for every bit pattern" kernel="DbValueIndex::is_value,DbValueIndex::value,DbValueIndex::index,DbValueIndex::size,DbValueIndex::get_type,DbValueIndex::serialize,DbValueIndex::deserialize"
#[kani::proof]
#[kani::stub(std::fmt::format, crate::verif_support::fmt_stub)]
#[kani::stub(crate::DbError::new, crate::verif_support::dberror_new_stub)]
#[kani::unwind(17)]
fn c12_index_accessors_consistent() {
    let raw: [u8; 16] = kani::any();
    let idx = DbValueIndex { value: raw };
    let size = (raw[15] & 0x0f) as usize;
    let mut le = [0u8; 8];
    let mut k = 0;
    while k < 8 {
        le[k] = raw[k];
        k += 1;
    }
    let index = u64::from_le_bytes(le);
    assert!(idx.size() as usize == size, "size()");
    assert!(idx.get_type() == raw[15] >> 4, "get_type()");
    assert!(idx.index() == index, "index()");
    assert!(idx.is_value() == (size != 0 || index == 0), "is_value()");
    let v = idx.value();
    assert!(v.len() == size, "value() length");
    let mut k = 0;
    while k < 15 {
        if k < size {
            assert!(v[k] == raw[k], "value() byte");
        }
        k += 1;
    }
    assert!(idx.data() == raw, "data()");
    let bytes = idx.serialize();
    assert!(bytes.len() == 16, "serialize length");
    let mut k = 0;
    while k < 16 {
        assert!(bytes[k] == raw[k], "serialize byte");
        k += 1;
    }
    let back = ok(DbValueIndex::deserialize(&bytes));
    assert!(back == idx, "deserialize(serialize(x)) == x");
    assert!(DbValueIndex::serialized_size_static() == 16 && idx.serialized_size() == 16, "serialized size");
    kani::cover!(size == 0 && index != 0, "storage index entry");
    kani::cover!(size == 0 && index == 0, "empty inline value");
    kani::cover!(size == 15, "full inline value");
    kani::cover!(true, "end of harness reachable");
    std::mem::forget(bytes);
}

//@ id=C07 tier=quick timeout=300 bounds="buffer length 0..=18, arbitrary bytes" desc="DbValueIndex::deserialize never panics: Err iff fewer than 16 bytes, otherwise the first 16 bytes" kernel="DbValueIndex::deserialize"
#[kani::proof]
#[kani::stub(std::fmt::format, crate::verif_support::fmt_stub)]
#[kani::stub(crate::DbError::new, crate::verif_support::dberror_new_stub)]
#[kani::unwind(19)]
fn c07_value_index_deserialize_arbitrary() {
    let n: usize = kani::any();
    kani::assume(n <= 18);
    let buf: [u8; 18] = kani::any();
    let r = DbValueIndex::deserialize(&buf[..n]);
    match r {
        Ok(idx) => {
            assert!(n >= 16, "Ok needs at least 16 bytes");
            let d = idx.data();
            let mut k = 0;
            while k < 16 {
                assert!(d[k] == buf[k], "deserialized byte");
                k += 1;
            }
        }
        Err(e) => {
            assert!(n < 16, "Err only for short input");
            std::mem::forget(e);
        }
    }
    kani::cover!(n == 15, "one byte short");
    kani::cover!(n == 16, "exact");
    kani::cover!(n == 18, "longer than needed");
    kani::cover!(true, "end of harness reachable");
}
