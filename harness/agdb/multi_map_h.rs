// harnesses mounted as child module of agdb/src/collections/multi_map.rs
#[allow(unused_imports)]
use super::*;
