// harnesses mounted as child module of agdb/src/collections/multi_map.rs
#[allow(unused_imports)]
use super::*;

// =============================================================================
// C19 — "every query terminates after any history" for the hash structures.
//
// Shape of every harness below: the table (states, keys, values of an
// `ArrMap<C>`, the array-backed implementation of the code base's own `MapData`
// trait) is ARBITRARY, constrained only by the invariant INV that every real
// history maintains, then ONE real operation with a symbolic key runs.
//
//   INV1  len == number of Valid slots
//   INV2  len <= capacity * 15 / 16          (`max_len`: insert grows first
//                                             when len >= max_len, so len may
//                                             reach but never exceed it)
//
// INV = INV1 && INV2 holds for the empty table; every harness re-asserts INV on
// the post-state, so INV is inductive and the pre-states are a superset of the
// reachable ones.
//
//   INV3  a Valid slot p holding key k is at cyclic distance
//         (p - k % capacity) <= max_len - 1
// INV3 is an invariant only of tables that are never written through
// `insert_or_replace` (the index multimap: insert / remove_value / values):
// `insert` puts a key on the first non-Valid slot after its home slot, so all
// slots in between were Valid (at most len <= max_len - 1 of them). The
// harnesses for insert / remove_key / remove_value show "INV3 before => INV3
// after". `insert_or_replace` does NOT maintain it (it always inserts at the
// first EMPTY slot: an earlier tombstone remembered in `free_pos` is overwritten
// when the Empty slot ends the loop), so INV3 is assumed only by the one
// harness that needs it (whole iteration of iter_key, which the database only
// runs on the index multimap). Deliberately NOT assumed: "some slot is Empty" — it is not an
// invariant: at the minimum capacity 64 `rehash(capacity)` and
// `rehash(capacity / 2)` are no-ops (`max(capacity, 64) == 64`), so tombstones
// are never cleared (see the history at the end of this file).
//
// Termination oracle: Kani's unwinding assertion with bound C + 1 — a probe
// sequence that has not ended after visiting each of the C slots once never
// ends (the probe state is only `pos`, the table does not change while probing
// except Valid -> Deleted of matching slots in `remove_key`).
//
// Capacities. Real tables have capacity 0 or 64 * 2^n (`rehash` clamps to 64;
// `reserve` is not used by the database). `*_cap64` harnesses (tier thorough)
// are the real minimum table. `*_cap8` harnesses (tier quick) run the SAME probe
// loops (they only use `hash % capacity()` and `next_pos`) on an 8-slot table
// with stronger functional oracles. What capacity 8 does NOT show: anything
// behind a `rehash` call — at capacity 8 `rehash(8)`/`rehash(4)` would GROW the
// table to 64 (unlike the no-op at 64); `ArrMap<8>::resize` cuts those paths
// (`kani::assume`), i.e. in the cap8 harnesses the statements after a `rehash`
// call are not checked (the probe loops before it are).
// =============================================================================

use crate::storage::verif_h::fresh_arr_storage;
use crate::verif_support::ArrMap;
use crate::verif_support::ArrStorage;
use crate::verif_support::is_ok;
use crate::verif_support::ok;

type C19Map<const C: usize> = MultiMapImpl<u64, u64, ArrStorage, ArrMap<C>>;

// `max_len` transcribed from the code (load factor 15/16).
fn c19_max_len(cap: u64) -> u64 {
    cap * 15 / 16
}

fn c19_count_valid<const C: usize>(d: &ArrMap<C>) -> u64 {
    let mut n = 0u64;
    let mut i = 0;
    while i < C {
        if (i as u64) < d.cap && d.states[i] == 1 {
            n += 1;
        }
        i += 1;
    }
    n
}

// (encoding ok: states in 0..=2 and slots beyond cap Empty, INV1, INV2, INV3)
fn c19_inv_parts<const C: usize>(d: &ArrMap<C>) -> (bool, bool, bool, bool) {
    if d.cap == 0 {
        return (true, d.len == 0, true, true);
    }
    let max_len = c19_max_len(d.cap);
    let mut valid = 0u64;
    let mut enc = true;
    let mut dist_ok = true;
    let mut i = 0;
    while i < C {
        if d.states[i] > 2 {
            enc = false;
        }
        if (i as u64) >= d.cap {
            if d.states[i] != 0 {
                enc = false;
            }
        } else if d.states[i] == 1 {
            valid += 1;
            // capacities are powers of two in every harness: x % cap == x & (cap - 1)
            // (a mask instead of a 64-bit divider circuit per slot)
            let home = d.keys[i] & (d.cap - 1);
            let dist = (i as u64 + d.cap - home) & (d.cap - 1);
            if dist + 1 > max_len {
                dist_ok = false;
            }
        }
        i += 1;
    }
    (enc, valid == d.len, d.len <= max_len, dist_ok)
}

fn c19_inv<const C: usize>(d: &ArrMap<C>) -> bool {
    let (a, b, c, _) = c19_inv_parts(d);
    a && b && c
}

fn c19_inv3<const C: usize>(d: &ArrMap<C>) -> bool {
    c19_inv_parts(d).3
}

// `inv3_before`: Some(x) = the operation is one that must preserve INV3
fn c19_assert_inv<const C: usize>(d: &ArrMap<C>, inv3_before: Option<bool>) {
    let (enc, inv1, inv2, inv3) = c19_inv_parts(d);
    assert!(enc, "post-state: slot state outside Empty/Valid/Deleted");
    assert!(inv1, "post-state: len != number of Valid slots (INV1)");
    assert!(inv2, "post-state: len > max_len (INV2)");
    if let Some(before) = inv3_before {
        assert!(!before || inv3, "post-state: a key sits max_len or more slots past its home slot (INV3 not preserved)");
    }
}

fn c19_any_table<const C: usize>() -> C19Map<C> {
    let data = ArrMap::<C> {
        states: kani::any(),
        keys: kani::any(),
        values: kani::any(),
        len: kani::any(),
        cap: C as u64,
    };
    assert!(C.is_power_of_two());
    kani::assume(c19_inv(&data));
    MultiMapImpl {
        data,
        phantom_marker: PhantomData,
    }
}

// Number of Valid slots holding `key` that a probe from the key's home slot
// reaches (walk until the first Empty slot or one full cycle) — the reference
// for what lookups may see. `value`: Some(v) counts only pairs (key, v).
fn c19_ref_count<const C: usize>(d: &ArrMap<C>, key: u64, value: Option<u64>) -> u64 {
    let cap = d.cap as usize;
    let home = (key & (d.cap - 1)) as usize; // cap is a power of two
    let mut n = 0u64;
    let mut stopped = false;
    let mut j = 0;
    while j < C {
        if j < cap && !stopped {
            let p = if home + j >= cap { home + j - cap } else { home + j };
            if d.states[p] == 0 {
                stopped = true;
            } else if d.states[p] == 1 && d.keys[p] == key {
                match value {
                    Some(v) => {
                        if d.values[p] == v {
                            n += 1;
                        }
                    }
                    None => n += 1,
                }
            }
        }
        j += 1;
    }
    n
}

fn c19_has_empty<const C: usize>(d: &ArrMap<C>) -> bool {
    let mut e = false;
    let mut i = 0;
    while i < C {
        if d.states[i] == 0 {
            e = true;
        }
        i += 1;
    }
    e
}

// number of slots whose (state) differs between two tables + last such index
fn c19_diff<const C: usize>(a: &[u8; C], b: &[u8; C]) -> (usize, usize) {
    let mut n = 0;
    let mut at = 0;
    let mut i = 0;
    while i < C {
        if a[i] != b[i] {
            n += 1;
            at = i;
        }
        i += 1;
    }
    (n, at)
}

// ---------------------------------------------------------------------------
// insert (free_index + do_insert), no growth: len < max_len
// ---------------------------------------------------------------------------
fn c19_insert_body<const C: usize>(functional: bool) {
    let mut s = fresh_arr_storage();
    let mut m = c19_any_table::<C>();
    kani::assume(m.data.len < c19_max_len(C as u64)); // growth: see c19_insert_grows_*
    let before = m.data.states;
    let len0 = m.data.len;
    let k: u64 = kani::any();
    let v: u64 = kani::any();
    let had = if functional { c19_ref_count(&m.data, k, Some(v)) } else { 0 };
    let inv3 = c19_inv3(&m.data);

    let r = m.insert(&mut s, &k, &v);

    assert!(is_ok(r), "insert returned Err");
    assert!(m.data.cap == C as u64, "capacity changed without reaching max_len");
    assert!(m.data.len == len0 + 1, "insert did not add exactly one element");
    c19_assert_inv(&m.data, Some(inv3));
    let (n, at) = c19_diff(&before, &m.data.states);
    assert!(n == 1, "insert must turn exactly one slot Valid");
    assert!(before[at] != 1 && m.data.states[at] == 1, "insert overwrote a Valid slot");
    assert!(m.data.keys[at] == k && m.data.values[at] == v, "inserted slot holds wrong pair");
    if functional {
        assert!(
            c19_ref_count(&m.data, k, Some(v)) >= had + 1,
            "inserted pair is not reachable by a probe from its home slot"
        );
        // (that lookups yield exactly the pairs counted by c19_ref_count is
        // c19_iter_key_terminates_cap8; calling contains_value here costs 60 s)
    }
    kani::cover!(before[at] == 2, "a tombstone was reused");
    kani::cover!(before[at] == 0 && at as u64 != k & (C as u64 - 1), "collision: probed past the home slot to an Empty slot");
    kani::cover!((at as u64) < k & (C as u64 - 1), "probe wrapped around the end of the table");
    kani::cover!(!c19_has_empty(&m.data), "table without any Empty slot explored");
    kani::cover!(true, "end of harness reachable");
    std::mem::forget(m);
    std::mem::forget(s);
}

//@ id=C19 termination=1 tier=quick timeout=600 bounds="capacity 8 (probe-loop logic only; real tables have capacity >= 64; paths behind rehash are cut); arbitrary table satisfying INV (len == #Valid, len < max_len); one insert(k,v), k,v any u64" desc="MultiMapImpl::insert terminates within capacity probe steps from any table, adds exactly one reachable pair to a non-Valid slot and preserves the table invariant" kernel="MultiMapImpl::insert,MultiMapImpl::free_index,MultiMapImpl::do_insert" args="--no-assertion-reach-checks"
#[kani::proof]
#[kani::stub(std::fmt::format, crate::verif_support::fmt_stub)]
#[kani::stub(crate::DbError::new, crate::verif_support::dberror_new_stub)]
#[kani::unwind(9)]
fn c19_insert_terminates_cap8() {
    c19_insert_body::<8>(true);
}

//@ id=C19 termination=1 tier=thorough timeout=2400 bounds="capacity 64 (the real minimum); arbitrary table satisfying INV, len < max_len = 60 (growth at len == 60 not in this harness); one insert(k,v), k,v any u64" desc="MultiMapImpl::insert terminates within 64 probe steps from any capacity-64 table incl. tables with no Empty slot, adds exactly one pair, preserves the invariant" kernel="MultiMapImpl::insert,MultiMapImpl::free_index,MultiMapImpl::do_insert" args="--no-assertion-reach-checks"
#[kani::proof]
#[kani::stub(std::fmt::format, crate::verif_support::fmt_stub)]
#[kani::stub(crate::DbError::new, crate::verif_support::dberror_new_stub)]
#[kani::unwind(65)]
fn c19_insert_terminates_cap64() {
    c19_insert_body::<64>(false);
}

// ---------------------------------------------------------------------------
// insert_or_replace (what MapImpl::insert = alias insertion uses)
// ---------------------------------------------------------------------------
fn c19_insert_or_replace_body<const C: usize>(functional: bool) {
    let mut s = fresh_arr_storage();
    let mut m = c19_any_table::<C>();
    kani::assume(m.data.len < c19_max_len(C as u64));
    let before = m.data.states;
    let len0 = m.data.len;
    let k: u64 = kani::any();
    let v: u64 = kani::any();
    let had = if functional { c19_ref_count(&m.data, k, None) } else { 0 };
    let no_empty = !c19_has_empty(&m.data);

    let r = m.insert_or_replace(&mut s, &k, |_| true, &v);

    let old = ok(r);
    c19_assert_inv(&m.data, None);
    let (n, at) = c19_diff(&before, &m.data.states);
    match old {
        Some(_) => {
            assert!(n == 0 && m.data.len == len0, "replace must not change occupancy");
        }
        None => {
            assert!(n == 1 && m.data.len == len0 + 1, "insert must add exactly one element");
            assert!(before[at] != 1 && m.data.states[at] == 1, "insert overwrote a Valid slot");
            assert!(m.data.keys[at] == k && m.data.values[at] == v, "inserted slot holds wrong pair");
        }
    }
    if functional {
        assert!(old.is_some() == (had > 0), "replaced iff the key was reachable before");
        let now = ok(m.value(&s, &k));
        assert!(now == Some(v), "value() does not return the inserted/replaced value");
    }
    kani::cover!(old.is_some(), "existing key replaced");
    kani::cover!(old.is_none() && at as u64 != (k & (C as u64 - 1)), "new key inserted past its home slot");
    kani::cover!(no_empty, "table without any Empty slot explored");
    kani::cover!(true, "end of harness reachable");
    std::mem::forget(m);
    std::mem::forget(s);
}

//@ id=C19 termination=1 tier=quick timeout=600 bounds="capacity 8 (probe-loop logic only; real tables have capacity >= 64); arbitrary table satisfying INV, len < max_len; one insert_or_replace(k, always, v)" desc="MultiMapImpl::insert_or_replace (MapImpl::insert, i.e. alias insertion) terminates within capacity probe steps from any table, incl. tables whose non-Valid slots are all tombstones; replaces or inserts exactly one pair" kernel="MultiMapImpl::insert_or_replace,MultiMapImpl::value" args="--no-assertion-reach-checks"
#[kani::proof]
#[kani::stub(std::fmt::format, crate::verif_support::fmt_stub)]
#[kani::stub(crate::DbError::new, crate::verif_support::dberror_new_stub)]
#[kani::unwind(9)]
fn c19_insert_or_replace_terminates_cap8() {
    c19_insert_or_replace_body::<8>(true);
}

//@ id=C19 termination=1 tier=thorough timeout=3600 bounds="capacity 64 (the real minimum); arbitrary table satisfying INV, len < max_len = 60; one insert_or_replace(k, always, v)" desc="MultiMapImpl::insert_or_replace terminates within 64 probe steps from any capacity-64 table incl. tables with no Empty slot (reachable: tombstones are never cleared at capacity 64)" kernel="MultiMapImpl::insert_or_replace" args="--no-assertion-reach-checks"
#[kani::proof]
#[kani::stub(std::fmt::format, crate::verif_support::fmt_stub)]
#[kani::stub(crate::DbError::new, crate::verif_support::dberror_new_stub)]
#[kani::unwind(65)]
fn c19_insert_or_replace_terminates_cap64() {
    c19_insert_or_replace_body::<64>(false);
}

// ---------------------------------------------------------------------------
// remove_key
// ---------------------------------------------------------------------------
// returns: "full cycle over a table without Empty slot, nothing removed"
fn c19_remove_key_body<const C: usize>(functional: bool, unique_key: bool) -> bool {
    let mut s = fresh_arr_storage();
    let mut m = c19_any_table::<C>();
    let before = m.data.states;
    let keys0 = m.data.keys;
    let len0 = m.data.len;
    let k: u64 = kani::any();
    if unique_key {
        // What every caller in the database guarantees: `remove_key` is only
        // reached through MapImpl::remove (aliases, both directions), whose
        // tables hold a key at most once (shown by the C10 harnesses: "a key is
        // stored twice"). The index multimap only uses remove_value.
        let p: usize = kani::any();
        kani::assume(p < C);
        let mut i = 0;
        while i < C {
            if i != p {
                kani::assume(!(m.data.states[i] == 1 && m.data.keys[i] == k));
            }
            i += 1;
        }
    }
    let had = c19_ref_count(&m.data, k, None);
    // Lemma handed to the solver (a consequence of INV1, so no state is
    // excluded): the Valid slots holding `k` on the probe path are at most
    // len. Without it the proof that `len -= 1` in remove_key cannot underflow
    // is a 64-slot counting argument in two different slot orders, which the
    // SAT solver does not finish (> 25 min).
    kani::assume(had <= len0);
    let no_empty = !c19_has_empty(&m.data);
    let inv3 = if functional { c19_inv3(&m.data) } else { true };

    let r = m.remove_key(&mut s, &k);

    assert!(is_ok(r), "remove_key returned Err");
    assert!(m.data.cap == C as u64, "capacity changed");
    if functional {
        // (at capacity 64 "len == number of Valid slots" after up to 60
        // removals at symbolic positions is a counting equivalence the SAT
        // solver does not finish in 25 min; the invariant is shown at capacity 8)
        c19_assert_inv(&m.data, Some(inv3));
    }
    assert!(m.data.len <= len0, "remove_key increased len");
    // frame: only Valid slots holding `k` may change, and only to Deleted
    let mut i = 0;
    while i < C {
        if before[i] != m.data.states[i] {
            assert!(before[i] == 1 && keys0[i] == k && m.data.states[i] == 2, "remove_key touched a slot that does not hold the key");
        }
        i += 1;
    }
    assert!(len0 - m.data.len == had, "remove_key must remove every reachable pair of the key");
    if functional {
        let still = ok(m.contains(&s, &k));
        assert!(!still, "key still found after remove_key");
        kani::cover!(had == 2, "two values of the key removed");
        kani::cover!(had == 0 && len0 > 0, "missing key");
    }
    let full_cycle = no_empty && len0 == m.data.len;
    let _ = full_cycle; // (reachable only where rehash(capacity) is a no-op, i.e. at capacity 64)
    kani::cover!(true, "end of harness reachable");
    std::mem::forget(m);
    std::mem::forget(s);
    full_cycle
}

//@ id=C19 termination=1 tier=quick timeout=900 bounds="capacity 8 (probe-loop logic only; paths behind rehash — full cycle without removal, len <= min_len after removal — are cut after the loop); arbitrary table satisfying INV; one remove_key(k)" desc="MultiMapImpl::remove_key terminates within capacity probe steps from any table, removes exactly the reachable pairs of the key, touches no other slot, key no longer found" kernel="MultiMapImpl::remove_key,MultiMapImpl::drop_value,MultiMapImpl::contains" args="--no-assertion-reach-checks"
#[kani::proof]
#[kani::stub(std::fmt::format, crate::verif_support::fmt_stub)]
#[kani::stub(crate::DbError::new, crate::verif_support::dberror_new_stub)]
#[kani::unwind(9)]
fn c19_remove_key_terminates_cap8() {
    c19_remove_key_body::<8>(true, false);
}

// No capacity-64 harness for remove_key: neither the general form nor the ones
// restricted to unique keys / to an absent key finished (symbolic execution 90 s,
// then the SAT solver ran > 20 min without an answer: up to 64 conditional
// three-array writes at symbolic positions inside the probe loop). The probe loop
// of remove_key is covered at capacity 8 above; the capacity-64 no-op of
// `rehash(capacity)` after a full cycle is covered by c19_remove_value_terminates_cap64
// (same call).

// ---------------------------------------------------------------------------
// remove_value
// ---------------------------------------------------------------------------
// returns: ("full cycle over a table without Empty slot, nothing removed",
//           "the pair was there twice")
fn c19_remove_value_body<const C: usize>(functional: bool) -> (bool, bool) {
    let mut s = fresh_arr_storage();
    let mut m = c19_any_table::<C>();
    let before = m.data.states;
    let keys0 = m.data.keys;
    let values0 = m.data.values;
    let len0 = m.data.len;
    let k: u64 = kani::any();
    let v: u64 = kani::any();
    let had = if functional { c19_ref_count(&m.data, k, Some(v)) } else { 0 };
    let no_empty = !c19_has_empty(&m.data);
    let inv3 = if functional { c19_inv3(&m.data) } else { true };

    let r = m.remove_value(&mut s, &k, &v);

    assert!(is_ok(r), "remove_value returned Err");
    assert!(m.data.cap == C as u64, "capacity changed");
    if functional {
        c19_assert_inv(&m.data, Some(inv3));
    }
    let (n, at) = c19_diff(&before, &m.data.states);
    assert!(n <= 1, "remove_value changed more than one slot");
    if n == 1 {
        assert!(before[at] == 1 && keys0[at] == k && values0[at] == v && m.data.states[at] == 2, "remove_value removed a different pair");
        assert!(m.data.len == len0 - 1, "len not decremented");
    } else {
        assert!(m.data.len == len0, "len changed without a removal");
    }
    if functional {
        assert!((n == 1) == (had > 0), "a reachable pair must be removed, an absent one must not");
        assert!(c19_ref_count(&m.data, k, Some(v)) + n as u64 == had, "remaining reachable pairs");
    }
    kani::cover!(n == 1 && at as u64 != k & (C as u64 - 1), "removed pair was displaced from its home slot");
    let full_cycle = no_empty && n == 0;
    kani::cover!(true, "end of harness reachable");
    std::mem::forget(m);
    std::mem::forget(s);
    (full_cycle, had == 2)
}

//@ id=C19 termination=1 tier=quick timeout=900 bounds="capacity 8 (probe-loop logic only; paths behind rehash are cut after the loop); arbitrary table satisfying INV; one remove_value(k,v)" desc="MultiMapImpl::remove_value terminates within capacity probe steps from any table and removes exactly one reachable (k,v) pair iff there is one" kernel="MultiMapImpl::remove_value,MultiMapImpl::remove_index,MultiMapImpl::drop_value" args="--no-assertion-reach-checks"
#[kani::proof]
#[kani::stub(std::fmt::format, crate::verif_support::fmt_stub)]
#[kani::stub(crate::DbError::new, crate::verif_support::dberror_new_stub)]
#[kani::unwind(9)]
fn c19_remove_value_terminates_cap8() {
    let (_, duplicate) = c19_remove_value_body::<8>(true);
    kani::cover!(duplicate, "duplicate pair: only the first is removed");
}

//@ id=C19 termination=1 tier=thorough timeout=4800 bounds="capacity 64 (the real minimum); arbitrary table satisfying INV; one remove_value(k,v)" desc="MultiMapImpl::remove_value terminates within 64 probe steps from any capacity-64 table incl. tables with no Empty slot; at most the one matching slot changes" kernel="MultiMapImpl::remove_value,MultiMapImpl::remove_index,MultiMapImpl::rehash" args="--no-assertion-reach-checks"
#[kani::proof]
#[kani::stub(std::fmt::format, crate::verif_support::fmt_stub)]
#[kani::stub(crate::DbError::new, crate::verif_support::dberror_new_stub)]
#[kani::unwind(65)]
fn c19_remove_value_terminates_cap64() {
    let (full_cycle, _) = c19_remove_value_body::<64>(false);
    // (at capacity 8 this path ends in rehash(8) = growth to 64 and is cut)
    kani::cover!(full_cycle, "full cycle over a table without Empty slot, nothing removed, rehash(64) no-op");
}

// ---------------------------------------------------------------------------
// lookups: iter_key / MultiMapIterator::next, value, contains, values_count
// ---------------------------------------------------------------------------

//@ id=C19 termination=1 tier=quick timeout=900 bounds="capacity 8 (the iterator never rehashes: same code at every capacity); arbitrary table satisfying INV; whole iteration of iter_key(k) driven to None" desc="iter_key(k) terminates as a whole (each next() within capacity steps, at most max_len+1 next() calls) and yields exactly the reachable Valid pairs of k, skipping tombstones" kernel="MultiMapImpl::iter_key,MultiMapIterator::next,MultiMapImpl::values_count" args="--no-assertion-reach-checks"
#[kani::proof]
#[kani::stub(std::fmt::format, crate::verif_support::fmt_stub)]
#[kani::stub(crate::DbError::new, crate::verif_support::dberror_new_stub)]
#[kani::unwind(9)]
fn c19_iter_key_terminates_cap8() {
    let s = fresh_arr_storage();
    let m = c19_any_table::<8>();
    kani::assume(c19_inv3(&m.data)); // see header: holds for tables written by insert/remove_* only
    let k: u64 = kani::any();
    let expect = c19_ref_count(&m.data, k, None);
    let mut n = 0u64;
    let mut it = m.iter_key(&s, &k);
    // at most max_len (7) pairs + the final None: the unwinding assertion of
    // this loop is the "whole iteration ends" oracle
    while let Some(r) = it.next() {
        let (key, _v) = ok(r);
        assert!(key == k, "iterator yielded a foreign key");
        n += 1;
    }
    assert!(n == expect, "iterator must yield exactly the reachable pairs of the key");
    kani::cover!(n == 3, "three values under one key");
    kani::cover!(n == 0 && !c19_has_empty(&m.data), "full cycle over a table without Empty slot");
    kani::cover!(true, "end of harness reachable");
    std::mem::forget(m);
    std::mem::forget(s);
}

fn c19_lookup_body<const C: usize>(functional: bool) {
    let s = fresh_arr_storage();
    let m = c19_any_table::<C>();
    let k: u64 = kani::any();
    let no_empty = !c19_has_empty(&m.data);
    let r = ok(m.value(&s, &k));
    if functional {
        let expect = c19_ref_count(&m.data, k, None);
        assert!(r.is_some() == (expect > 0), "value() finds the key iff a probe from its home slot reaches it");
        let c = ok(m.contains(&s, &k));
        assert!(c == r.is_some(), "contains() disagrees with value()");
    }
    // second next() on the same iterator (pos is now past the first hit)
    let mut it = m.iter_key(&s, &k);
    let a = it.next();
    let b = it.next();
    kani::cover!(a.is_some() && b.is_some(), "second value of the same key");
    kani::cover!(r.is_none() && no_empty, "miss after a full cycle over a table without Empty slot");
    kani::cover!(true, "end of harness reachable");
    std::mem::forget(a);
    std::mem::forget(b);
    std::mem::forget(m);
    std::mem::forget(s);
}

//@ id=C19 termination=1 tier=quick timeout=600 bounds="capacity 8; arbitrary table satisfying INV; value(k), contains(k), two next() calls" desc="value/contains terminate within capacity probe steps from any table and find the key iff it is reachable from its home slot" kernel="MultiMapImpl::value,MultiMapImpl::contains,MultiMapIterator::next" args="--no-assertion-reach-checks"
#[kani::proof]
#[kani::stub(std::fmt::format, crate::verif_support::fmt_stub)]
#[kani::stub(crate::DbError::new, crate::verif_support::dberror_new_stub)]
#[kani::unwind(9)]
fn c19_lookup_terminates_cap8() {
    c19_lookup_body::<8>(true);
}

//@ id=C19 termination=1 tier=thorough timeout=3000 bounds="capacity 64 (the real minimum); arbitrary table satisfying INV; value(k) and two next() calls on one iterator" desc="MultiMapIterator::next (value lookups) terminates within 64 probe steps from any capacity-64 table incl. tables with no Empty slot" kernel="MultiMapImpl::value,MultiMapImpl::iter_key,MultiMapIterator::next" args="--no-assertion-reach-checks"
#[kani::proof]
#[kani::stub(std::fmt::format, crate::verif_support::fmt_stub)]
#[kani::stub(crate::DbError::new, crate::verif_support::dberror_new_stub)]
#[kani::unwind(65)]
fn c19_lookup_terminates_cap64() {
    c19_lookup_body::<64>(false);
}



// =============================================================================
// Public-API history for the expected failure of
// c19_insert_or_replace_terminates_cap8 / _cap64 (pre-state: no Empty slot).
//
// `insert_or_replace` (= MapImpl::insert = both directions of the alias map)
// always places a NEW key on the first EMPTY slot of its probe sequence (the
// tombstone remembered in `free_pos` is overwritten when the Empty slot ends the
// loop), `remove_key` turns the slot into a tombstone, and at capacity 64
// nothing ever turns a tombstone back into Empty: `rehash(capacity)` (after a
// full probe cycle) and `rehash(capacity / 2)` (len <= min_len) both compute
// `max(.., 64) == 64 == capacity` and return. So every insertion of a new key
// consumes one Empty slot for good; growth (the only thing that clears
// tombstones) needs len >= 60 simultaneously live keys.
//
//   db = DbMemory::new(..); insert one node;
//   for i in 0..64 { insert alias "alias{i}" for node 1; remove alias "alias{i}" }
//   insert alias "final" for node 1          <-- never returns
//
// Reproduced natively (not Kani) against the unchanged /repo with
// /tmp/dev_maps/repro/tests/c19_alias_tombstones.rs (agdb as a path dependency,
// `cargo test --offline`): cycles 0..=63 complete, the 65th alias insertion makes
// no progress for 10 s ("no progress for 10 s after completing cycle Some(63) of
// 70"); the control test with 10 cycles passes.
// =============================================================================
