// harnesses mounted as child module of agdb/src/utilities/serialize.rs
#[allow(unused_imports)]
use super::*;

use crate::Comparison;
use crate::CountComparison;
use crate::DbF64;
use crate::DbId;
use crate::DbKeyOrder;
use crate::DbKeyValue;
use crate::DbValue;
use crate::KeyValueComparison;
use crate::QueryCondition;
use crate::QueryConditionData;
use crate::QueryConditionLogic;
use crate::QueryConditionModifier;
use crate::QueryId;

// ---------------------------------------------------------------------------
// helpers
// ---------------------------------------------------------------------------

/// Vec<u8> of the first `n` bytes of `raw` (explicit loop, constant capacity).
fn h_bytes<const N: usize>(raw: &[u8; N], n: usize) -> Vec<u8> {
    let mut v = Vec::with_capacity(N);
    let mut i = 0;
    while i < n {
        v.push(raw[i]);
        i += 1;
    }
    v
}

/// String of the first `n` bytes of `raw`; the caller passes ASCII bytes only.
fn h_ascii<const N: usize>(raw: &[u8; N], n: usize) -> String {
    // SAFETY: all callers mask the bytes with 0x7f
    unsafe { String::from_utf8_unchecked(h_bytes(raw, n)) }
}

/// Model of `String::from_utf8` for the round-trip harnesses: accepts. The
/// harness then compares the decoded bytes with the (valid UTF-8) original, so a
/// decoder that hands different bytes to the validator is still reported; what is
/// outside the claim is std's validator itself (checked on concrete-length inputs
/// by `c21_string_real_utf8`). The real validator over a heap buffer whose length
/// the solver sees as symbolic exhausts 10 GB.
pub(crate) fn from_utf8_accept(v: Vec<u8>) -> Result<String, std::string::FromUtf8Error> {
    Ok(unsafe { String::from_utf8_unchecked(v) })
}

fn h_same(a: &[u8], b: &[u8]) -> bool {
    if a.len() != b.len() {
        return false;
    }
    let mut i = 0;
    while i < a.len() {
        if a[i] != b[i] {
            return false;
        }
        i += 1;
    }
    true
}

/// C20 oracle, part 1: `serialize(x).len() == serialized_size(x)`; returns the bytes.
fn c20_sized<T: Serialize>(x: &T) -> Vec<u8> {
    let bytes = x.serialize();
    assert!(
        bytes.len() as u64 == x.serialized_size(),
        "serialize(x).len() differs from serialized_size(x)"
    );
    bytes
}

/// C20 oracle, part 2: `deserialize(bytes)` is `Ok`; returns the value.
fn c20_back<T: Serialize>(bytes: &[u8]) -> T {
    match T::deserialize(bytes) {
        Ok(v) => v,
        Err(e) => {
            std::mem::forget(e);
            panic!("deserialize(serialize(x)) returned Err")
        }
    }
}

/// C20 oracle for types with `PartialEq`.
fn c20_round_trip<T: Serialize + PartialEq>(x: &T) {
    let bytes = c20_sized(x);
    let y: T = c20_back(&bytes);
    assert!(y == *x, "deserialize(serialize(x)) differs from x");
    std::mem::forget(y);
    std::mem::forget(bytes);
}

fn c20_static<T: SerializeStatic>(x: &T) {
    assert!(
        T::serialized_size_static() == x.serialized_size(),
        "serialized_size_static differs from serialized_size"
    );
}

// ---------------------------------------------------------------------------
// C20: built-in impls
// ---------------------------------------------------------------------------

//@ id=C20 tier=quick timeout=300 bounds="all i64/u64/usize/f64 bit patterns, both bools, all DbF64/DbId" desc="fixed-size built-ins round-trip (floats compared by bits), serialize().len()==serialized_size()==serialized_size_static()" kernel="i64::serialize,i64::deserialize,u64::serialize,u64::deserialize,f64::serialize,f64::deserialize,usize::serialize,usize::deserialize,bool::serialize,bool::deserialize,DbF64::serialize,DbF64::deserialize,DbId::serialize,DbId::deserialize"
#[kani::proof]
#[kani::stub(std::fmt::format, crate::verif_support::fmt_stub)]
#[kani::stub(crate::DbError::new, crate::verif_support::dberror_new_stub)]
#[kani::unwind(10)]
fn c20_scalars() {
    let a: i64 = kani::any();
    c20_round_trip(&a);
    c20_static(&a);
    assert!(a.serialized_size() == 8, "i64 takes 8 bytes");

    let b: u64 = kani::any();
    c20_round_trip(&b);
    c20_static(&b);

    let c: usize = kani::any();
    c20_round_trip(&c);

    let d: f64 = kani::any();
    let bytes = c20_sized(&d);
    let d2: f64 = c20_back(&bytes);
    assert!(d2.to_bits() == d.to_bits(), "f64 round trip differs (bits)");
    c20_static(&d);
    std::mem::forget(bytes);

    let e: bool = kani::any();
    c20_round_trip(&e);

    let f = DbF64::from(kani::any::<f64>());
    let bytes = c20_sized(&f);
    let f2: DbF64 = c20_back(&bytes);
    assert!(f2.to_f64().to_bits() == f.to_f64().to_bits(), "DbF64 round trip differs (bits)");
    std::mem::forget(bytes);

    let g = DbId(kani::any());
    c20_round_trip(&g);

    kani::cover!(d.is_nan(), "NaN explored");
    kani::cover!(a < 0 && g.0 < 0, "negative values explored");
    kani::cover!(true, "end of harness reachable");
}

//@ id=C20 tier=quick timeout=300 bounds="ASCII strings of 0..=6 bytes" desc="String round-trips, serialize().len()==serialized_size()==8+len" kernel="String::serialize,String::deserialize,String::serialized_size"
#[kani::proof]
#[kani::stub(std::fmt::format, crate::verif_support::fmt_stub)]
#[kani::stub(crate::DbError::new, crate::verif_support::dberror_new_stub)]
#[kani::stub(<crate::DbError as std::convert::From<std::string::FromUtf8Error>>::from, crate::verif_support::utf8err_stub)]
#[kani::stub(std::string::String::from_utf8, from_utf8_accept)]
#[kani::unwind(8)]
fn c20_string_ascii() {
    let t: [u8; 6] = kani::any();
    let raw = [t[0] & 0x7f, t[1] & 0x7f, t[2] & 0x7f, t[3] & 0x7f, t[4] & 0x7f, t[5] & 0x7f];
    let n: usize = kani::any();
    kani::assume(n <= 6);
    // one call per concrete length: allocation and copy sizes stay constant
    let mut k = 0;
    while k <= 6 {
        if n == k {
            c20_string_len(&raw, k);
        }
        k += 1;
    }
    kani::cover!(n == 6, "6 ASCII bytes explored");
    kani::cover!(n == 0, "empty string explored");
    kani::cover!(true, "end of harness reachable");
}

fn c20_string_len(raw: &[u8; 6], n: usize) {
    let s = h_ascii(raw, n);
    let bytes = c20_sized(&s);
    assert!(bytes.len() == 8 + n, "String takes 8 + len bytes");
    let t: String = c20_back(&bytes);
    assert!(h_same(t.as_bytes(), &raw[..n]), "String round trip differs");
    std::mem::forget(t);
    std::mem::forget(bytes);
    std::mem::forget(s);
}

//@ id=C20 tier=quick timeout=400 bounds="every valid UTF-8 string of 0..=4 bytes" desc="non-ASCII String round-trips, serialize().len()==serialized_size()==8+len" kernel="String::serialize,String::deserialize,String::serialized_size" cbmc="--unwindset _RNvNtNtCs8xvirJzNMvV_4core3str11validations19run_utf8_validation.0:2"
#[kani::proof]
#[kani::stub(std::fmt::format, crate::verif_support::fmt_stub)]
#[kani::stub(crate::DbError::new, crate::verif_support::dberror_new_stub)]
#[kani::stub(<crate::DbError as std::convert::From<std::string::FromUtf8Error>>::from, crate::verif_support::utf8err_stub)]
#[kani::stub(std::string::String::from_utf8, from_utf8_accept)]
#[kani::unwind(6)]
fn c20_string_unicode() {
    let raw: [u8; 4] = kani::any();
    let n: usize = kani::any();
    kani::assume(n <= 4);
    let mut k = 0;
    while k <= 4 {
        if n == k {
            kani::assume(std::str::from_utf8(&raw[..k]).is_ok());
            let u = unsafe { String::from_utf8_unchecked(h_bytes(&raw, k)) };
            let bytes = c20_sized(&u);
            assert!(bytes.len() == 8 + k, "String takes 8 + len bytes");
            let w: String = c20_back(&bytes);
            assert!(h_same(w.as_bytes(), &raw[..k]), "unicode String round trip differs");
            std::mem::forget(w);
            std::mem::forget(bytes);
            std::mem::forget(u);
        }
        k += 1;
    }
    kani::cover!(n == 4 && raw[0] >= 0xf0, "4-byte scalar explored");
    kani::cover!(n == 4 && raw[0] >= 0xc0 && raw[0] < 0xe0 && raw[2] >= 0xc0, "two 2-byte scalars explored");
    kani::cover!(n == 3 && raw[0] >= 0xe0, "3-byte scalar explored");
    kani::cover!(true, "end of harness reachable");
}

//@ id=C20 tier=quick timeout=300 bounds="byte vectors of 0..=6 arbitrary bytes" desc="Vec<u8> round-trips, serialize().len()==serialized_size()" kernel="Vec<u8>::serialize,Vec<u8>::deserialize,Vec<u8>::serialized_size"
#[kani::proof]
#[kani::stub(std::fmt::format, crate::verif_support::fmt_stub)]
#[kani::stub(crate::DbError::new, crate::verif_support::dberror_new_stub)]
#[kani::unwind(10)]
fn c20_bytes() {
    let raw: [u8; 6] = kani::any();
    let n: usize = kani::any();
    kani::assume(n <= 6);
    // one call per concrete length: allocation and copy sizes stay constant
    let mut k = 0;
    while k <= 6 {
        if n == k {
            c20_bytes_len(&raw, k);
        }
        k += 1;
    }
    kani::cover!(n == 6, "6 bytes explored");
    kani::cover!(n == 0, "empty explored");
    kani::cover!(true, "end of harness reachable");
}

fn c20_bytes_len(raw: &[u8; 6], n: usize) {
    let v = h_bytes(raw, n);
    let bytes = c20_sized(&v);
    assert!(bytes.len() == 8 + n, "Vec<u8> takes 8 + len bytes");
    let t: Vec<u8> = c20_back(&bytes);
    assert!(h_same(&t, &raw[..n]), "Vec<u8> round trip differs");
    std::mem::forget(t);
    std::mem::forget(bytes);
    std::mem::forget(v);
}

//@ id=C20 tier=quick timeout=300 bounds="UNIX_EPOCH +/- (secs < 2^40, nanos < 10^9)" desc="SystemTime round-trips on both sides of the epoch and takes 13 bytes" kernel="SystemTime::serialize,SystemTime::deserialize,SystemTime::serialized_size"
#[kani::proof]
#[kani::stub(std::fmt::format, crate::verif_support::fmt_stub)]
#[kani::stub(crate::DbError::new, crate::verif_support::dberror_new_stub)]
#[kani::unwind(10)]
fn c20_system_time() {
    let secs: u64 = kani::any();
    let nanos: u32 = kani::any();
    let before: bool = kani::any();
    kani::assume(secs < (1 << 40));
    kani::assume(nanos < 1_000_000_000);
    let d = Duration::new(secs, nanos);
    let t = if before { UNIX_EPOCH - d } else { UNIX_EPOCH + d };
    let bytes = c20_sized(&t);
    assert!(bytes.len() == 13, "SystemTime takes 13 bytes");
    let u: SystemTime = c20_back(&bytes);
    assert!(u == t, "SystemTime round trip differs");
    kani::cover!(before && nanos > 0 && secs > 0, "before epoch with nanos explored");
    kani::cover!(!before && nanos > 0, "after epoch with nanos explored");
    kani::cover!(true, "end of harness reachable");
    std::mem::forget(bytes);
}

// ---------------------------------------------------------------------------
// C20: Vec<T>
// ---------------------------------------------------------------------------

/// `Vec<T>` of the first `n` elements of `raw`.
fn h_vec<T: Copy, const N: usize>(raw: &[T; N], n: usize) -> Vec<T> {
    let mut v = Vec::with_capacity(N);
    let mut i = 0;
    while i < n {
        v.push(raw[i]);
        i += 1;
    }
    v
}

/// Round trip of `Vec<T>` for each concrete length 0..=2, elements compared through `key`.
fn c20_vec_lengths<T: Serialize + Copy, K: PartialEq>(raw: &[T; 2], n: usize, elem_size: usize, key: fn(&T) -> K) {
    let mut k = 0;
    while k <= 2 {
        if n == k {
            let v = h_vec(raw, k);
            let bytes = c20_sized(&v);
            assert!(bytes.len() == 8 + elem_size * k, "Vec<T> takes 8 + size*len bytes");
            let w: Vec<T> = c20_back(&bytes);
            assert!(w.len() == k, "Vec<T> length differs");
            let mut j = 0;
            while j < k {
                assert!(key(&w[j]) == key(&raw[j]), "Vec<T> element differs");
                j += 1;
            }
            std::mem::forget((v, bytes, w));
        }
        k += 1;
    }
}

//@ id=C20 tier=quick timeout=300 bounds="vectors of 0..=2 arbitrary i64 / u64" desc="Vec<i64>, Vec<u64> round-trip element by element, serialize().len()==serialized_size()==8+8*len" kernel="Vec<T>::serialize,Vec<T>::deserialize,Vec<T>::serialized_size"
#[kani::proof]
#[kani::stub(std::fmt::format, crate::verif_support::fmt_stub)]
#[kani::stub(crate::DbError::new, crate::verif_support::dberror_new_stub)]
#[kani::unwind(5)]
fn c20_vec_of_i64_u64() {
    let i: [i64; 2] = kani::any();
    let u: [u64; 2] = kani::any();
    let n: usize = kani::any();
    kani::assume(n <= 2);
    c20_vec_lengths(&i, n, 8, |x| *x);
    c20_vec_lengths(&u, n, 8, |x| *x);
    kani::cover!(n == 2 && i[1] < 0, "two elements explored");
    kani::cover!(n == 0, "empty vector explored");
    kani::cover!(true, "end of harness reachable");
}

//@ id=C20 tier=quick timeout=300 bounds="vectors of 0..=2 arbitrary f64 / DbF64 (all bit patterns)" desc="Vec<f64>, Vec<DbF64> round-trip element by element (compared by bits), serialize().len()==serialized_size()" kernel="Vec<T>::serialize,Vec<T>::deserialize,Vec<T>::serialized_size,DbF64::deserialize"
#[kani::proof]
#[kani::stub(std::fmt::format, crate::verif_support::fmt_stub)]
#[kani::stub(crate::DbError::new, crate::verif_support::dberror_new_stub)]
#[kani::unwind(5)]
fn c20_vec_of_floats() {
    let f: [f64; 2] = kani::any();
    let d = [DbF64::from(kani::any::<f64>()), DbF64::from(kani::any::<f64>())];
    let n: usize = kani::any();
    kani::assume(n <= 2);
    c20_vec_lengths(&f, n, 8, |x| x.to_bits());
    c20_vec_lengths(&d, n, 8, |x| x.to_f64().to_bits());
    kani::cover!(n == 2 && f[0].is_nan() && d[1].to_f64().is_nan(), "two elements with NaN explored");
    kani::cover!(n == 0, "empty vector explored");
    kani::cover!(true, "end of harness reachable");
}

//@ id=C20 tier=quick timeout=300 bounds="vectors of 0..=2 arbitrary bool / usize" desc="Vec<bool> (1-byte elements), Vec<usize> round-trip element by element, serialize().len()==serialized_size()" kernel="Vec<T>::serialize,Vec<T>::deserialize,Vec<T>::serialized_size,bool::deserialize,usize::deserialize"
#[kani::proof]
#[kani::stub(std::fmt::format, crate::verif_support::fmt_stub)]
#[kani::stub(crate::DbError::new, crate::verif_support::dberror_new_stub)]
#[kani::unwind(5)]
fn c20_vec_of_bool_usize() {
    let b: [bool; 2] = kani::any();
    let z: [usize; 2] = kani::any();
    let n: usize = kani::any();
    kani::assume(n <= 2);
    c20_vec_lengths(&b, n, 1, |x| *x);
    c20_vec_lengths(&z, n, 8, |x| *x);
    kani::cover!(n == 2 && b[0] && !b[1], "two different bools explored");
    kani::cover!(n == 0, "empty vector explored");
    kani::cover!(true, "end of harness reachable");
}

/// Vec<String> with `n` elements of the given concrete lengths (ASCII from `raw`).
fn h_strings(raw: &[[u8; 3]; 2], n: usize, l0: usize, l1: usize) -> Vec<String> {
    let mut v = Vec::with_capacity(2);
    if n >= 1 {
        v.push(h_ascii(&raw[0], l0));
    }
    if n >= 2 {
        v.push(h_ascii(&raw[1], l1));
    }
    v
}

fn h_ascii_raw() -> [[u8; 3]; 2] {
    let t: [[u8; 3]; 2] = kani::any();
    [
        [t[0][0] & 0x7f, t[0][1] & 0x7f, t[0][2] & 0x7f],
        [t[1][0] & 0x7f, t[1][1] & 0x7f, t[1][2] & 0x7f],
    ]
}

fn c20_vec_string_shape(raw: &[[u8; 3]; 2], n: usize, l0: usize, l1: usize) {
    let v = h_strings(raw, n, l0, l1);
    let bytes = c20_sized(&v);
    let mut expect = 8;
    if n >= 1 {
        expect += 8 + l0;
    }
    if n >= 2 {
        expect += 8 + l1;
    }
    assert!(bytes.len() == expect, "Vec<String> takes 8 + sum(8 + len) bytes");
    let w: Vec<String> = c20_back(&bytes);
    assert!(w.len() == n, "Vec<String> length differs");
    if n >= 1 {
        assert!(h_same(w[0].as_bytes(), &raw[0][..l0]), "Vec<String> element 0 differs");
    }
    if n >= 2 {
        assert!(h_same(w[1].as_bytes(), &raw[1][..l1]), "Vec<String> element 1 differs");
    }
    std::mem::forget((v, bytes, w));
}

//@ id=C20 tier=quick timeout=400 bounds="Vec<String> of 0..=1 ASCII strings of 0..=3 bytes, and 2 strings of lengths (0,0),(1,2)" desc="Vec<String> round-trips, serialize().len()==serialized_size()==8+sum(8+len)" kernel="Vec<T>::serialize,Vec<T>::deserialize,Vec<T>::serialized_size,String::deserialize"
#[kani::proof]
#[kani::stub(std::fmt::format, crate::verif_support::fmt_stub)]
#[kani::stub(crate::DbError::new, crate::verif_support::dberror_new_stub)]
#[kani::stub(<crate::DbError as std::convert::From<std::string::FromUtf8Error>>::from, crate::verif_support::utf8err_stub)]
#[kani::stub(std::string::String::from_utf8, from_utf8_accept)]
#[kani::unwind(5)]
fn c20_vec_of_string_short() {
    let raw = h_ascii_raw();
    let shape: u8 = kani::any();
    match shape {
        0 => c20_vec_string_shape(&raw, 0, 0, 0),
        1 => c20_vec_string_shape(&raw, 1, 0, 0),
        2 => c20_vec_string_shape(&raw, 1, 3, 0),
        3 => c20_vec_string_shape(&raw, 1, 2, 0),
        4 => c20_vec_string_shape(&raw, 2, 0, 0),
        _ => c20_vec_string_shape(&raw, 2, 1, 2),
    }
    kani::cover!(shape == 5, "strings of 1 and 2 bytes explored");
    kani::cover!(shape == 0, "empty Vec<String> explored");
    kani::cover!(true, "end of harness reachable");
}

//@ id=C20 tier=quick timeout=400 bounds="Vec<String> of 2 ASCII strings of lengths (3,0),(0,3),(3,3),(2,1)" desc="Vec<String> round-trips, serialize().len()==serialized_size()==8+sum(8+len)" kernel="Vec<T>::serialize,Vec<T>::deserialize,Vec<T>::serialized_size,String::deserialize"
#[kani::proof]
#[kani::stub(std::fmt::format, crate::verif_support::fmt_stub)]
#[kani::stub(crate::DbError::new, crate::verif_support::dberror_new_stub)]
#[kani::stub(<crate::DbError as std::convert::From<std::string::FromUtf8Error>>::from, crate::verif_support::utf8err_stub)]
#[kani::stub(std::string::String::from_utf8, from_utf8_accept)]
#[kani::unwind(5)]
fn c20_vec_of_string_pairs() {
    let raw = h_ascii_raw();
    let shape: u8 = kani::any();
    match shape {
        0 => c20_vec_string_shape(&raw, 2, 3, 0),
        1 => c20_vec_string_shape(&raw, 2, 0, 3),
        2 => c20_vec_string_shape(&raw, 2, 3, 3),
        _ => c20_vec_string_shape(&raw, 2, 2, 1),
    }
    kani::cover!(shape == 2, "two 3-byte strings explored");
    kani::cover!(shape == 1, "empty then 3-byte string explored");
    kani::cover!(true, "end of harness reachable");
}

//@ id=C20 tier=quick timeout=500 bounds="Vec<Vec<u8>> of byte vectors of 2 and 0 bytes; Vec<SystemTime> of 2 times (epoch + (secs<2^40,nanos<10^9), epoch - secs<2^40)" desc="nested byte vectors and 13-byte time elements round-trip inside Vec<T>, serialize().len()==serialized_size()" kernel="Vec<T>::serialize,Vec<T>::deserialize,Vec<T>::serialized_size,Vec<u8>::deserialize,SystemTime::deserialize"
#[kani::proof]
#[kani::stub(std::fmt::format, crate::verif_support::fmt_stub)]
#[kani::stub(crate::DbError::new, crate::verif_support::dberror_new_stub)]
#[kani::unwind(5)]
fn c20_vec_of_bytes_and_times() {
    let raw: [[u8; 3]; 2] = kani::any();
    let v = vec![h_bytes(&raw[0], 2), h_bytes(&raw[1], 0)];
    let bytes = c20_sized(&v);
    assert!(bytes.len() == 8 + 10 + 8, "Vec<Vec<u8>> takes 8 + sum(8 + len) bytes");
    let w: Vec<Vec<u8>> = c20_back(&bytes);
    assert!(w.len() == 2, "Vec<Vec<u8>> length differs");
    assert!(h_same(&w[0], &raw[0][..2]), "Vec<Vec<u8>> element 0 differs");
    assert!(w[1].is_empty(), "Vec<Vec<u8>> element 1 differs");
    std::mem::forget((v, bytes, w));

    let s0: u64 = kani::any();
    let s1: u64 = kani::any();
    let n0: u32 = kani::any();
    kani::assume(s0 < (1 << 40) && s1 < (1 << 40) && n0 < 1_000_000_000);
    let v = vec![UNIX_EPOCH + Duration::new(s0, n0), UNIX_EPOCH - Duration::new(s1, 0)];
    let bytes = c20_sized(&v);
    assert!(bytes.len() == 8 + 26, "Vec<SystemTime> takes 8 + 13*len bytes");
    let w: Vec<SystemTime> = c20_back(&bytes);
    assert!(w.len() == 2 && w[0] == v[0] && w[1] == v[1], "Vec<SystemTime> differs");
    std::mem::forget((v, bytes, w));
    kani::cover!(s1 > 0 && n0 > 0, "before and after epoch explored");
    kani::cover!(true, "end of harness reachable");
}

// ---------------------------------------------------------------------------
// C20: DbValue and the query types (derive(DbSerialize) inside the crate)
// ---------------------------------------------------------------------------

/// Symbolic payload from which values of a concrete shape are built.
struct C20Raw {
    /// arbitrary bytes
    b: [u8; 6],
    /// ASCII bytes
    s: [u8; 6],
    /// ASCII bytes for string vectors
    a: [[u8; 3]; 2],
    i: [i64; 2],
    u: [u64; 2],
    f: [f64; 2],
}

fn c20_raw() -> C20Raw {
    let t: [u8; 6] = kani::any();
    C20Raw {
        b: kani::any(),
        s: [t[0] & 0x7f, t[1] & 0x7f, t[2] & 0x7f, t[3] & 0x7f, t[4] & 0x7f, t[5] & 0x7f],
        a: h_ascii_raw(),
        i: kani::any(),
        u: kani::any(),
        f: kani::any(),
    }
}

const C20_DBV_SHAPES: usize = 27;

/// A `DbValue` of concrete shape `sel` (variant and lengths) with symbolic content.
/// 0..=2 Bytes(0,1,6 bytes) 3 I64 4 U64 5 F64 6..=8 String(0,2,6) 9..=11 VecI64(0,1,2)
/// 12..=14 VecU64 15..=17 VecF64 18..=26 VecString ([],[0],[3],[2],[0,0],[1,2],[3,0],[0,3],[3,3])
fn c20_db_value(sel: usize, r: &C20Raw) -> DbValue {
    match sel {
        0 => DbValue::Bytes(h_bytes(&r.b, 0)),
        1 => DbValue::Bytes(h_bytes(&r.b, 1)),
        2 => DbValue::Bytes(h_bytes(&r.b, 6)),
        3 => DbValue::I64(r.i[0]),
        4 => DbValue::U64(r.u[0]),
        5 => DbValue::F64(DbF64::from(r.f[0])),
        6 => DbValue::String(h_ascii(&r.s, 0)),
        7 => DbValue::String(h_ascii(&r.s, 2)),
        8 => DbValue::String(h_ascii(&r.s, 6)),
        9 => DbValue::VecI64(h_vec(&r.i, 0)),
        10 => DbValue::VecI64(h_vec(&r.i, 1)),
        11 => DbValue::VecI64(h_vec(&r.i, 2)),
        12 => DbValue::VecU64(h_vec(&r.u, 0)),
        13 => DbValue::VecU64(h_vec(&r.u, 1)),
        14 => DbValue::VecU64(h_vec(&r.u, 2)),
        15 => DbValue::VecF64(h_vec(&[DbF64::from(r.f[0]), DbF64::from(r.f[1])], 0)),
        16 => DbValue::VecF64(h_vec(&[DbF64::from(r.f[0]), DbF64::from(r.f[1])], 1)),
        17 => DbValue::VecF64(h_vec(&[DbF64::from(r.f[0]), DbF64::from(r.f[1])], 2)),
        18 => DbValue::VecString(h_strings(&r.a, 0, 0, 0)),
        19 => DbValue::VecString(h_strings(&r.a, 1, 0, 0)),
        20 => DbValue::VecString(h_strings(&r.a, 1, 3, 0)),
        21 => DbValue::VecString(h_strings(&r.a, 1, 2, 0)),
        22 => DbValue::VecString(h_strings(&r.a, 2, 0, 0)),
        23 => DbValue::VecString(h_strings(&r.a, 2, 1, 2)),
        24 => DbValue::VecString(h_strings(&r.a, 2, 3, 0)),
        25 => DbValue::VecString(h_strings(&r.a, 2, 0, 3)),
        _ => DbValue::VecString(h_strings(&r.a, 2, 3, 3)),
    }
}

/// Serialized length of shape `sel` according to the documented layout
/// (1 tag byte; scalars 8; strings/bytes 8+len; vectors 8+elements).
fn c20_db_value_len(sel: usize) -> usize {
    match sel {
        0 => 9,
        1 => 10,
        2 => 15,
        3 | 4 | 5 => 9,
        6 => 9,
        7 => 11,
        8 => 15,
        9 | 12 | 15 => 9,
        10 | 13 | 16 => 17,
        11 | 14 | 17 => 25,
        18 => 9,
        19 => 17,
        20 => 20,
        21 => 19,
        22 => 25,
        23 => 28,
        24 | 25 => 28,
        _ => 31,
    }
}

/// Runs `$check($k, $r)` for the one `$k` of the listed concrete shapes that equals `$sel`
/// (straight-line code: inside each call the shape is a compile-time constant).
macro_rules! c20_split {
    ($sel:expr, $check:expr, $r:expr, [$($k:literal),*]) => {
        $( if $sel == $k { $check($k, $r); } )*
    };
}

fn c20_check_db_value(sel: usize, r: &C20Raw) {
    let x = c20_db_value(sel, r);
    let bytes = c20_sized(&x);
    assert!(bytes.len() == c20_db_value_len(sel), "DbValue serialized length differs from 1 + payload");
    let y: DbValue = c20_back(&bytes);
    assert!(y == x, "DbValue round trip differs");
    // the f64 payload is compared by bits as well (DbF64 == is total_cmp)
    if let (DbValue::F64(p), DbValue::F64(q)) = (&x, &y) {
        assert!(p.to_f64().to_bits() == q.to_f64().to_bits(), "DbValue::F64 bits differ");
    }
    std::mem::forget((x, bytes, y));
}

//@ id=C20 tier=quick timeout=400 bounds="DbValue::Bytes of 0,1,6 bytes; I64, U64, F64 arbitrary; String of 0,2,6 ASCII bytes" desc="DbValue (Bytes, I64, U64, F64, String variants) round-trips; serialize().len()==serialized_size()==1+payload" kernel="DbValue::serialize,DbValue::deserialize,DbValue::serialized_size"
#[kani::proof]
#[kani::stub(std::fmt::format, crate::verif_support::fmt_stub)]
#[kani::stub(crate::DbError::new, crate::verif_support::dberror_new_stub)]
#[kani::stub(<crate::DbError as std::convert::From<std::string::FromUtf8Error>>::from, crate::verif_support::utf8err_stub)]
#[kani::stub(std::string::String::from_utf8, from_utf8_accept)]
#[kani::unwind(8)]
fn c20_db_value_flat_variants() {
    let r = c20_raw();
    let sel: usize = kani::any();
    kani::assume(sel <= 8);
    c20_split!(sel, c20_check_db_value, &r, [0, 1, 2, 3, 4, 5, 6, 7, 8]);
    kani::cover!(sel == 2, "6 bytes explored");
    kani::cover!(sel == 5 && r.f[0].is_nan(), "NaN explored");
    kani::cover!(sel == 8, "6-byte string explored");
    kani::cover!(true, "end of harness reachable");
}

//@ id=C20 tier=quick timeout=500 bounds="DbValue::VecI64/VecU64/VecF64 of 0..=2 arbitrary elements" desc="DbValue numeric vector variants round-trip; serialize().len()==serialized_size()==1+8+8*len" kernel="DbValue::serialize,DbValue::deserialize,DbValue::serialized_size,Vec<T>::deserialize" cbmc="--unwindset memcmp.0:18"
#[kani::proof]
#[kani::stub(std::fmt::format, crate::verif_support::fmt_stub)]
#[kani::stub(crate::DbError::new, crate::verif_support::dberror_new_stub)]
#[kani::unwind(5)]
fn c20_db_value_numeric_vectors() {
    let r = c20_raw();
    let sel: usize = kani::any();
    kani::assume(sel >= 9 && sel <= 17);
    c20_split!(sel, c20_check_db_value, &r, [9, 10, 11, 12, 13, 14, 15, 16, 17]);
    kani::cover!(sel == 11, "two i64 explored");
    kani::cover!(sel == 17 && r.f[1].is_nan(), "two f64 with NaN explored");
    kani::cover!(sel == 12, "empty VecU64 explored");
    kani::cover!(true, "end of harness reachable");
}

//@ id=C20 tier=quick timeout=500 bounds="DbValue::VecString: [], [0 bytes], [3], [2], [1,2] (ASCII)" desc="DbValue::VecString round-trips; serialize().len()==serialized_size()==1+8+sum(8+len)" kernel="DbValue::serialize,DbValue::deserialize,DbValue::serialized_size,Vec<T>::deserialize,String::deserialize"
#[kani::proof]
#[kani::stub(std::fmt::format, crate::verif_support::fmt_stub)]
#[kani::stub(crate::DbError::new, crate::verif_support::dberror_new_stub)]
#[kani::stub(<crate::DbError as std::convert::From<std::string::FromUtf8Error>>::from, crate::verif_support::utf8err_stub)]
#[kani::stub(std::string::String::from_utf8, from_utf8_accept)]
#[kani::unwind(5)]
fn c20_db_value_vec_string_small() {
    let r = c20_raw();
    let sel: usize = kani::any();
    kani::assume(sel >= 18 && sel <= 23 && sel != 22);
    c20_split!(sel, c20_check_db_value, &r, [18, 19, 20, 21, 23]);
    kani::cover!(sel == 23, "strings of 1 and 2 bytes explored");
    kani::cover!(sel == 18, "empty VecString explored");
    kani::cover!(true, "end of harness reachable");
}

//@ id=C20 tier=quick timeout=900 bounds="DbValue::VecString of 2 ASCII strings of lengths (0,0),(3,0),(0,3),(3,3)" desc="DbValue::VecString round-trips; serialize().len()==serialized_size()==1+8+sum(8+len)" kernel="DbValue::serialize,DbValue::deserialize,DbValue::serialized_size,Vec<T>::deserialize,String::deserialize"
#[kani::proof]
#[kani::stub(std::fmt::format, crate::verif_support::fmt_stub)]
#[kani::stub(crate::DbError::new, crate::verif_support::dberror_new_stub)]
#[kani::stub(<crate::DbError as std::convert::From<std::string::FromUtf8Error>>::from, crate::verif_support::utf8err_stub)]
#[kani::stub(std::string::String::from_utf8, from_utf8_accept)]
#[kani::unwind(5)]
fn c20_db_value_vec_string_pairs() {
    let r = c20_raw();
    let sel: usize = kani::any();
    kani::assume(sel == 22 || (sel >= 24 && sel <= 26));
    c20_split!(sel, c20_check_db_value, &r, [22, 24, 25, 26]);
    kani::cover!(sel == 26, "two 3-byte strings explored");
    kani::cover!(sel == 25, "empty then 3-byte string explored");
    kani::cover!(true, "end of harness reachable");
}

// --- DbKeyValue ------------------------------------------------------------

fn c20_check_key_value(pair: usize, r: &C20Raw) {
    // (key shape, value shape): every value variant once, keys of several kinds
    let (ks, vs) = match pair {
        0 => (7, 3),   // "ab": i64
        1 => (7, 0),   // "ab": empty bytes
        2 => (8, 2),   // "abcdef": 6 bytes
        3 => (3, 7),   // i64: "ab"
        4 => (6, 5),   // "": f64
        5 => (1, 4),   // 1 byte: u64
        6 => (7, 10),  // "ab": [i64]
        7 => (4, 14),  // u64: [u64, u64]
        8 => (7, 16),  // "ab": [f64]
        9 => (7, 23),  // "ab": ["a", "bc"]
        _ => (9, 18),  // []: [] of strings
    };
    let x = DbKeyValue {
        key: c20_db_value(ks, r),
        value: c20_db_value(vs, r),
    };
    let bytes = c20_sized(&x);
    assert!(
        bytes.len() == c20_db_value_len(ks) + c20_db_value_len(vs),
        "DbKeyValue serialized length differs from key + value"
    );
    let y: DbKeyValue = c20_back(&bytes);
    assert!(y.key == x.key, "DbKeyValue key differs after round trip");
    assert!(y.value == x.value, "DbKeyValue value differs after round trip");
    std::mem::forget((x, bytes, y));
}

//@ id=C20 tier=quick timeout=1000 bounds="DbKeyValue with (key,value) shapes: (str2,i64) (str2,bytes0) (str6,bytes6) (i64,str2) (str0,f64) (bytes1,u64); contents arbitrary" desc="DbKeyValue round-trips field by field; serialize().len()==serialized_size()==size(key)+size(value)" kernel="DbKeyValue::serialize,DbKeyValue::deserialize,DbKeyValue::serialized_size,DbValue::deserialize"
#[kani::proof]
#[kani::stub(std::fmt::format, crate::verif_support::fmt_stub)]
#[kani::stub(crate::DbError::new, crate::verif_support::dberror_new_stub)]
#[kani::stub(<crate::DbError as std::convert::From<std::string::FromUtf8Error>>::from, crate::verif_support::utf8err_stub)]
#[kani::stub(std::string::String::from_utf8, from_utf8_accept)]
#[kani::unwind(8)]
fn c20_key_value_flat_values() {
    let r = c20_raw();
    let sel: usize = kani::any();
    kani::assume(sel <= 5);
    c20_split!(sel, c20_check_key_value, &r, [0, 1, 2, 3, 4, 5]);
    kani::cover!(sel == 2, "6-byte key and value explored");
    kani::cover!(sel == 3, "integer key explored");
    kani::cover!(true, "end of harness reachable");
}

//@ id=C20 tier=quick timeout=900 bounds="DbKeyValue with (key,value) shapes: (str2,[i64]) (u64,[u64;2]) (str2,[f64]) (str2,[str1,str2]) ([],[] of strings); contents arbitrary" desc="DbKeyValue with vector values round-trips field by field; serialize().len()==serialized_size()==size(key)+size(value)" kernel="DbKeyValue::serialize,DbKeyValue::deserialize,DbKeyValue::serialized_size,DbValue::deserialize" cbmc="--unwindset memcmp.0:18"
#[kani::proof]
#[kani::stub(std::fmt::format, crate::verif_support::fmt_stub)]
#[kani::stub(crate::DbError::new, crate::verif_support::dberror_new_stub)]
#[kani::stub(<crate::DbError as std::convert::From<std::string::FromUtf8Error>>::from, crate::verif_support::utf8err_stub)]
#[kani::stub(std::string::String::from_utf8, from_utf8_accept)]
#[kani::unwind(5)]
fn c20_key_value_vector_values() {
    let r = c20_raw();
    let sel: usize = kani::any();
    kani::assume(sel >= 6 && sel <= 10);
    c20_split!(sel, c20_check_key_value, &r, [6, 7, 8, 9, 10]);
    kani::cover!(sel == 9, "string vector value explored");
    kani::cover!(sel == 7, "two u64 explored");
    kani::cover!(true, "end of harness reachable");
}

// --- QueryId, CountComparison ------------------------------------------------

fn c20_check_query_id(sel: usize, r: &C20Raw) {
    if sel == 0 {
        let x = QueryId::Id(DbId(r.i[0]));
        let bytes = c20_sized(&x);
        assert!(bytes.len() == 9, "QueryId::Id takes 9 bytes");
        let y: QueryId = c20_back(&bytes);
        assert!(matches!(y, QueryId::Id(DbId(v)) if v == r.i[0]), "QueryId::Id round trip differs");
        std::mem::forget((x, bytes, y));
        return;
    }
    let n = match sel {
        1 => 0,
        2 => 1,
        _ => 3,
    };
    let x = QueryId::Alias(h_ascii(&r.s, n));
    let bytes = c20_sized(&x);
    assert!(bytes.len() == 9 + n, "QueryId::Alias takes 1 + 8 + len bytes");
    // `QueryId` keeps its discriminant in the String capacity niche; reading the
    // text of a decoded alias whose length the solver sees as symbolic exhausts
    // memory. The serialized bytes are therefore copied into a stack buffer whose
    // structural bytes (variant tag, length prefix) are constants: they are
    // *assumed* to be what `serialize` produced (a different layout makes the
    // final cover unreachable = inconclusive, never a false alarm), the payload
    // bytes stay the ones `serialize` wrote.
    let mut arr = [0_u8; 12];
    kani::assume(bytes[0] == 1 && bytes[1] == n as u8);
    arr[0] = 1;
    arr[1] = n as u8;
    let mut k = 2;
    while k < 9 {
        kani::assume(bytes[k] == 0);
        k += 1;
    }
    let mut k = 0;
    while k < n {
        arr[9 + k] = bytes[9 + k];
        k += 1;
    }
    let y: QueryId = c20_back(&arr[..9 + n]);
    let same = match &y {
        QueryId::Alias(a) => h_same(a.as_bytes(), &r.s[..n]),
        _ => false,
    };
    assert!(same, "QueryId::Alias round trip differs");
    std::mem::forget((x, bytes, y));
}

fn c20_check_count_comparison(sel: usize, r: &C20Raw) {
    let v = r.u[0];
    let x = match sel {
        0 => CountComparison::Equal(v),
        1 => CountComparison::GreaterThan(v),
        2 => CountComparison::GreaterThanOrEqual(v),
        3 => CountComparison::LessThan(v),
        4 => CountComparison::LessThanOrEqual(v),
        _ => CountComparison::NotEqual(v),
    };
    let bytes = c20_sized(&x);
    assert!(bytes.len() == 9, "CountComparison takes 9 bytes");
    let y: CountComparison = c20_back(&bytes);
    assert!(y == x, "CountComparison round trip differs");
    std::mem::forget((x, bytes, y));
}

//@ id=C20 tier=quick timeout=500 bounds="QueryId::Id arbitrary, QueryId::Alias of 0,1,3 ASCII bytes; all 6 CountComparison variants with arbitrary u64" desc="QueryId and CountComparison round-trip; serialize().len()==serialized_size()==1+payload" kernel="QueryId::serialize,QueryId::deserialize,QueryId::serialized_size,CountComparison::serialize,CountComparison::deserialize,CountComparison::serialized_size,DbId::deserialize"
#[kani::proof]
#[kani::stub(std::fmt::format, crate::verif_support::fmt_stub)]
#[kani::stub(crate::DbError::new, crate::verif_support::dberror_new_stub)]
#[kani::stub(<crate::DbError as std::convert::From<std::string::FromUtf8Error>>::from, crate::verif_support::utf8err_stub)]
#[kani::stub(std::string::String::from_utf8, from_utf8_accept)]
#[kani::unwind(9)]
fn c20_query_id_and_count_comparison() {
    let r = c20_raw();
    let sel: usize = kani::any();
    kani::assume(sel <= 3);
    c20_split!(sel, c20_check_query_id, &r, [0, 1, 2, 3]);
    let cmp: usize = kani::any();
    kani::assume(cmp <= 5);
    c20_split!(cmp, c20_check_count_comparison, &r, [0, 1, 2, 3, 4, 5]);
    kani::cover!(sel == 3 && cmp == 5, "3-byte alias and NotEqual explored");
    kani::cover!(sel == 0 && r.i[0] < 0 && cmp == 0, "negative id and Equal explored");
    kani::cover!(true, "end of harness reachable");
}

// --- Comparison, KeyValueComparison, DbKeyOrder ------------------------------

fn c20_check_comparison(sel: usize, r: &C20Raw) {
    // every variant once, each with a different kind of DbValue
    let (x, vs) = match sel {
        0 => (Comparison::Equal(c20_db_value(3, r)), 3),
        1 => (Comparison::GreaterThan(c20_db_value(7, r)), 7),
        2 => (Comparison::GreaterThanOrEqual(c20_db_value(1, r)), 1),
        3 => (Comparison::LessThan(c20_db_value(5, r)), 5),
        4 => (Comparison::LessThanOrEqual(c20_db_value(4, r)), 4),
        5 => (Comparison::NotEqual(c20_db_value(10, r)), 10),
        6 => (Comparison::Contains(c20_db_value(20, r)), 20),
        7 => (Comparison::StartsWith(c20_db_value(7, r)), 7),
        _ => (Comparison::EndsWith(c20_db_value(6, r)), 6),
    };
    let bytes = c20_sized(&x);
    assert!(bytes.len() == 1 + c20_db_value_len(vs), "Comparison serialized length differs from 1 + value");
    let y: Comparison = c20_back(&bytes);
    assert!(y == x, "Comparison round trip differs");
    std::mem::forget((x, bytes, y));
}

//@ id=C20 tier=quick timeout=500 bounds="Comparison::Equal(i64) GreaterThan(str2) GreaterThanOrEqual(bytes1) LessThan(f64) LessThanOrEqual(u64); contents arbitrary" desc="Comparison (first five variants) round-trips; serialize().len()==serialized_size()==1+size(value)" kernel="Comparison::serialize,Comparison::deserialize,Comparison::serialized_size,DbValue::deserialize"
#[kani::proof]
#[kani::stub(std::fmt::format, crate::verif_support::fmt_stub)]
#[kani::stub(crate::DbError::new, crate::verif_support::dberror_new_stub)]
#[kani::stub(<crate::DbError as std::convert::From<std::string::FromUtf8Error>>::from, crate::verif_support::utf8err_stub)]
#[kani::stub(std::string::String::from_utf8, from_utf8_accept)]
#[kani::unwind(5)]
fn c20_comparison_ordering_variants() {
    let r = c20_raw();
    let sel: usize = kani::any();
    kani::assume(sel <= 4);
    c20_split!(sel, c20_check_comparison, &r, [0, 1, 2, 3, 4]);
    kani::cover!(sel == 1, "GreaterThan(string) explored");
    kani::cover!(sel == 4, "LessThanOrEqual(u64) explored");
    kani::cover!(true, "end of harness reachable");
}

//@ id=C20 tier=quick timeout=500 bounds="Comparison::NotEqual([i64]) Contains([str3]) StartsWith(str2) EndsWith(str0); contents arbitrary" desc="Comparison (last four variants) round-trips; serialize().len()==serialized_size()==1+size(value)" kernel="Comparison::serialize,Comparison::deserialize,Comparison::serialized_size,DbValue::deserialize" args="--no-assertion-reach-checks" cbmc="--unwindset memcmp.0:18"
#[kani::proof]
#[kani::stub(std::fmt::format, crate::verif_support::fmt_stub)]
#[kani::stub(crate::DbError::new, crate::verif_support::dberror_new_stub)]
#[kani::stub(<crate::DbError as std::convert::From<std::string::FromUtf8Error>>::from, crate::verif_support::utf8err_stub)]
#[kani::stub(std::string::String::from_utf8, from_utf8_accept)]
#[kani::unwind(5)]
fn c20_comparison_string_variants() {
    let r = c20_raw();
    let sel: usize = kani::any();
    kani::assume(sel >= 5 && sel <= 8);
    c20_split!(sel, c20_check_comparison, &r, [5, 6, 7, 8]);
    kani::cover!(sel == 6, "Contains(string vector) explored");
    kani::cover!(sel == 8, "EndsWith(empty string) explored");
    kani::cover!(true, "end of harness reachable");
}

fn c20_check_order_and_kvc(sel: usize, r: &C20Raw) {
    match sel {
        0 | 1 | 2 => {
            let (x, vs) = match sel {
                0 => (DbKeyOrder::Asc(c20_db_value(7, r)), 7),
                1 => (DbKeyOrder::Desc(c20_db_value(3, r)), 3),
                _ => (DbKeyOrder::Desc(c20_db_value(1, r)), 1),
            };
            let bytes = c20_sized(&x);
            assert!(bytes.len() == 1 + c20_db_value_len(vs), "DbKeyOrder serialized length differs from 1 + value");
            let y: DbKeyOrder = c20_back(&bytes);
            assert!(y == x, "DbKeyOrder round trip differs");
            std::mem::forget((x, bytes, y));
        }
        _ => {
            let (x, len) = match sel {
                3 => (
                    KeyValueComparison {
                        key: c20_db_value(7, r),
                        value: Comparison::Contains(c20_db_value(8, r)),
                    },
                    11 + 1 + 15,
                ),
                _ => (
                    KeyValueComparison {
                        key: c20_db_value(4, r),
                        value: Comparison::NotEqual(c20_db_value(3, r)),
                    },
                    9 + 1 + 9,
                ),
            };
            let bytes = c20_sized(&x);
            assert!(bytes.len() == len, "KeyValueComparison serialized length differs from key + 1 + value");
            let y: KeyValueComparison = c20_back(&bytes);
            assert!(y == x, "KeyValueComparison round trip differs");
            std::mem::forget((x, bytes, y));
        }
    }
}

//@ id=C20 tier=quick timeout=500 bounds="DbKeyOrder::Asc(str2) Desc(i64) Desc(bytes1); KeyValueComparison{str2, Contains(str6)} {u64, NotEqual(i64)}; contents arbitrary" desc="DbKeyOrder and KeyValueComparison round-trip; serialize().len()==serialized_size()" kernel="DbKeyOrder::serialize,DbKeyOrder::deserialize,DbKeyOrder::serialized_size,KeyValueComparison::serialize,KeyValueComparison::deserialize,KeyValueComparison::serialized_size"
#[kani::proof]
#[kani::stub(std::fmt::format, crate::verif_support::fmt_stub)]
#[kani::stub(crate::DbError::new, crate::verif_support::dberror_new_stub)]
#[kani::stub(<crate::DbError as std::convert::From<std::string::FromUtf8Error>>::from, crate::verif_support::utf8err_stub)]
#[kani::stub(std::string::String::from_utf8, from_utf8_accept)]
#[kani::unwind(8)]
fn c20_key_order_and_key_value_comparison() {
    let r = c20_raw();
    let sel: usize = kani::any();
    kani::assume(sel <= 4);
    c20_split!(sel, c20_check_order_and_kvc, &r, [0, 1, 2, 3, 4]);
    kani::cover!(sel == 0, "Asc(string) explored");
    kani::cover!(sel == 3, "KeyValueComparison with strings explored");
    kani::cover!(true, "end of harness reachable");
}

// --- QueryCondition (depth 1) ------------------------------------------------

fn c20_logic(b: bool) -> QueryConditionLogic {
    if b {
        QueryConditionLogic::And
    } else {
        QueryConditionLogic::Or
    }
}

fn c20_modifier(m: u8) -> QueryConditionModifier {
    match m & 3 {
        0 => QueryConditionModifier::None,
        1 => QueryConditionModifier::Beyond,
        2 => QueryConditionModifier::Not,
        _ => QueryConditionModifier::NotBeyond,
    }
}

fn c20_count_cmp(k: u8, v: u64) -> CountComparison {
    match k % 6 {
        0 => CountComparison::Equal(v),
        1 => CountComparison::GreaterThan(v),
        2 => CountComparison::GreaterThanOrEqual(v),
        3 => CountComparison::LessThan(v),
        4 => CountComparison::LessThanOrEqual(v),
        _ => CountComparison::NotEqual(v),
    }
}

/// `QueryConditionData` of concrete shape `sel`; returns it with its serialized length.
fn c20_condition_data(sel: usize, r: &C20Raw, cc: u8) -> (QueryConditionData, usize) {
    match sel {
        0 => (QueryConditionData::Distance(c20_count_cmp(cc, r.u[0])), 10),
        1 => (QueryConditionData::Edge, 1),
        2 => (QueryConditionData::EdgeCount(c20_count_cmp(cc, r.u[1])), 10),
        3 => (QueryConditionData::EdgeCountFrom(c20_count_cmp(cc, r.u[0])), 10),
        4 => (QueryConditionData::EdgeCountTo(c20_count_cmp(cc, r.u[1])), 10),
        5 => (QueryConditionData::Node, 1),
        6 => (QueryConditionData::Ids(Vec::new()), 9),
        7 => (
            QueryConditionData::Ids(vec![QueryId::Id(DbId(r.i[0])), QueryId::Id(DbId(r.i[1]))]),
            9 + 18,
        ),
        8 => (QueryConditionData::Keys(Vec::new()), 9),
        9 => (
            QueryConditionData::Keys(vec![c20_db_value(3, r), c20_db_value(7, r)]),
            9 + 9 + 11,
        ),
        10 => (
            QueryConditionData::KeyValue(KeyValueComparison {
                key: c20_db_value(7, r),
                value: Comparison::GreaterThan(c20_db_value(4, r)),
            }),
            1 + 11 + 1 + 9,
        ),
        11 => (QueryConditionData::Where(Vec::new()), 9),
        12 => (
            QueryConditionData::Where(vec![QueryCondition {
                logic: QueryConditionLogic::Or,
                modifier: QueryConditionModifier::Not,
                data: QueryConditionData::Node,
            }]),
            9 + 3,
        ),
        _ => (
            QueryConditionData::Where(vec![
                QueryCondition {
                    logic: QueryConditionLogic::And,
                    modifier: QueryConditionModifier::Beyond,
                    data: QueryConditionData::Distance(c20_count_cmp(cc, r.u[1])),
                },
                QueryCondition {
                    logic: QueryConditionLogic::Or,
                    modifier: QueryConditionModifier::None,
                    data: QueryConditionData::Edge,
                },
            ]),
            9 + 12 + 3,
        ),
    }
}

/// Copies serialized `$bytes` into the stack array `$arr`, writing the *structural*
/// bytes (variant tags `t N`, length prefixes) as literals and the payload bytes
/// (`b`) as produced by `serialize`.
///
/// Why: the decoder reads tags and lengths back from a heap buffer, which the
/// solver treats as symbolic even when they are constants, so every variant of
/// every nested enum (and the recursion through `Where`) is explored. With the
/// structural bytes as literals in a stack array that is pruned. The structural
/// bytes are *assumed* (not asserted) to be what `serialize` wrote: with a
/// different layout the harness's final cover becomes unreachable (inconclusive),
/// it cannot raise a false alarm; payload bytes are always the real ones.
macro_rules! c20_lay {
    ($arr:ident, $bytes:ident, $p:ident;) => {};
    ($arr:ident, $bytes:ident, $p:ident; t $v:literal, $($rest:tt)*) => {
        kani::assume($bytes[$p] == $v);
        $arr[$p] = $v;
        $p += 1;
        c20_lay!($arr, $bytes, $p; $($rest)*);
    };
    ($arr:ident, $bytes:ident, $p:ident; b, $($rest:tt)*) => {
        $arr[$p] = $bytes[$p];
        $p += 1;
        c20_lay!($arr, $bytes, $p; $($rest)*);
    };
}

/// Round trip of `QueryConditionData` of shape `sel` (0..=10, i.e. all variants but
/// `Where`; CountComparison variant = shape % 6). The layout literals are written
/// in this function because an array returned from a helper reaches the decoder
/// as an opaque copy and nothing is pruned.
fn c20_check_condition_data(sel: usize, r: &C20Raw) {
    let (x, len) = c20_condition_data(sel, r, (sel % 6) as u8);
    let bytes = c20_sized(&x);
    assert!(bytes.len() == len, "QueryConditionData serialized length differs from 1 + payload");
    let mut arr = [0_u8; 32];
    let mut p = 0_usize;
    match sel {
        0 => {
            c20_lay!(arr, bytes, p; t 0, t 0, b, b, b, b, b, b, b, b,);
        }
        1 => {
            c20_lay!(arr, bytes, p; t 1,);
        }
        2 => {
            c20_lay!(arr, bytes, p; t 2, t 2, b, b, b, b, b, b, b, b,);
        }
        3 => {
            c20_lay!(arr, bytes, p; t 3, t 3, b, b, b, b, b, b, b, b,);
        }
        4 => {
            c20_lay!(arr, bytes, p; t 4, t 4, b, b, b, b, b, b, b, b,);
        }
        5 => {
            c20_lay!(arr, bytes, p; t 8,);
        }
        6 => {
            c20_lay!(arr, bytes, p; t 5, t 0, t 0, t 0, t 0, t 0, t 0, t 0, t 0,);
        }
        7 => {
            c20_lay!(arr, bytes, p; t 5, t 2, t 0, t 0, t 0, t 0, t 0, t 0, t 0, t 0, b, b, b, b, b, b, b, b, t 0, b, b, b, b, b, b, b, b,);
        }
        8 => {
            c20_lay!(arr, bytes, p; t 7, t 0, t 0, t 0, t 0, t 0, t 0, t 0, t 0,);
        }
        9 => {
            c20_lay!(arr, bytes, p; t 7, t 2, t 0, t 0, t 0, t 0, t 0, t 0, t 0, t 1, b, b, b, b, b, b, b, b, t 4, t 2, t 0, t 0, t 0, t 0, t 0, t 0, t 0, b, b,);
        }
        _ => {
            c20_lay!(arr, bytes, p; t 6, t 4, t 2, t 0, t 0, t 0, t 0, t 0, t 0, t 0, b, b, t 1, t 2, b, b, b, b, b, b, b, b,);
        }
    }
    assert!(p == bytes.len(), "serialized length differs from the layout length");
    let y: QueryConditionData = c20_back(&arr[..len]);
    if sel == 7 {
        // ids compared by hand: `==` on the niche-encoded QueryId also walks the
        // (unreachable) alias arm and exhausts the solver's memory
        let same = match &y {
            QueryConditionData::Ids(v) => {
                v.len() == 2
                    && matches!(&v[0], QueryId::Id(DbId(a)) if *a == r.i[0])
                    && matches!(&v[1], QueryId::Id(DbId(b)) if *b == r.i[1])
            }
            _ => false,
        };
        assert!(same, "QueryConditionData::Ids round trip differs");
    } else {
        assert!(y == x, "QueryConditionData round trip differs");
    }
    std::mem::forget((x, bytes, y));
}

//@ id=C20 tier=quick timeout=400 bounds="QueryConditionData Distance/Edge/EdgeCount/EdgeCountFrom/EdgeCountTo/Node with arbitrary u64 (CountComparison variant fixed per shape)" desc="QueryConditionData (count and marker variants) round-trips; serialize().len()==serialized_size()==1+payload" kernel="QueryConditionData::serialize,QueryConditionData::deserialize,QueryConditionData::serialized_size,CountComparison::deserialize" args="--no-assertion-reach-checks"
#[kani::proof]
#[kani::stub(std::fmt::format, crate::verif_support::fmt_stub)]
#[kani::stub(crate::DbError::new, crate::verif_support::dberror_new_stub)]
#[kani::unwind(3)]
fn c20_condition_data_counts() {
    let r = c20_raw();
    let sel: usize = kani::any();
    kani::assume(sel <= 5);
    c20_split!(sel, c20_check_condition_data, &r, [0, 1, 2, 3, 4, 5]);
    kani::cover!(sel == 0, "Distance explored");
    kani::cover!(sel == 5, "Node explored");
    kani::cover!(true, "end of harness reachable");
}

//@ id=C20 tier=quick timeout=600 bounds="QueryConditionData Ids([]), Keys([]), Keys([i64,str2]); contents arbitrary" desc="QueryConditionData (id and key variants) round-trips; serialize().len()==serialized_size()==1+payload" kernel="QueryConditionData::serialize,QueryConditionData::deserialize,QueryConditionData::serialized_size,Vec<T>::deserialize,QueryId::deserialize,DbValue::deserialize,DbValue::deserialize" args="--no-assertion-reach-checks" cbmc="--unwindset memcmp.0:10"
#[kani::proof]
#[kani::stub(std::fmt::format, crate::verif_support::fmt_stub)]
#[kani::stub(crate::DbError::new, crate::verif_support::dberror_new_stub)]
#[kani::stub(<crate::DbError as std::convert::From<std::string::FromUtf8Error>>::from, crate::verif_support::utf8err_stub)]
#[kani::stub(std::string::String::from_utf8, from_utf8_accept)]
#[kani::unwind(3)]
fn c20_condition_data_ids_keys() {
    let r = c20_raw();
    let sel: usize = kani::any();
    kani::assume(sel == 6 || sel == 8 || sel == 9);
    c20_split!(sel, c20_check_condition_data, &r, [6, 8, 9]);
    kani::cover!(sel == 6, "empty ids explored");
    kani::cover!(sel == 9, "two keys explored");
    kani::cover!(true, "end of harness reachable");
}

// ---------------------------------------------------------------------------
// C20: user types with #[derive(DbSerialize)]
// ---------------------------------------------------------------------------

#[derive(agdb::DbSerialize)]
struct C20Named {
    id: u64,
    name: String,
    delta: i64,
    ratio: f64,
    flag: bool,
}

#[derive(agdb::DbSerialize)]
struct C20Tuple(i64, String, u64);

#[derive(agdb::DbSerialize, PartialEq)]
struct C20Unit;

/// `repr(u8)` on purpose: without it rustc stores the discriminant in the String
/// capacity niche (as for QueryId), which the solver cannot handle at acceptable cost.
#[derive(agdb::DbSerialize, PartialEq)]
#[repr(u8)]
enum C20Enum {
    Unit,
    Tuple(u64, String),
    Struct { x: i64, on: bool, y: u64 },
    Last,
}

#[derive(agdb::DbSerialize)]
struct C20Nested {
    pre: bool,
    named: C20Named,
    unit: C20Unit,
    choice: C20Enum,
    pair: C20Tuple,
    post: u64,
}

#[derive(agdb::DbSerialize)]
struct C20Generic<T: crate::AgdbSerialize> {
    first: T,
    second: u64,
}

fn c20_named(r: &C20Raw, len: usize) -> C20Named {
    C20Named {
        id: r.u[0],
        name: h_ascii(&r.a[0], len),
        delta: r.i[0],
        ratio: r.f[0],
        flag: r.i[1] < 0,
    }
}

fn c20_same_named(a: &C20Named, b: &C20Named) -> bool {
    a.id == b.id
        && h_same(a.name.as_bytes(), b.name.as_bytes())
        && a.delta == b.delta
        && a.ratio.to_bits() == b.ratio.to_bits()
        && a.flag == b.flag
}

fn c20_same_tuple(a: &C20Tuple, b: &C20Tuple) -> bool {
    a.0 == b.0 && h_same(a.1.as_bytes(), b.1.as_bytes()) && a.2 == b.2
}

fn c20_same_enum(a: &C20Enum, b: &C20Enum) -> bool {
    match (a, b) {
        (C20Enum::Unit, C20Enum::Unit) => true,
        (C20Enum::Last, C20Enum::Last) => true,
        (C20Enum::Tuple(a0, a1), C20Enum::Tuple(b0, b1)) => a0 == b0 && h_same(a1.as_bytes(), b1.as_bytes()),
        (C20Enum::Struct { x: ax, on: ao, y: ay }, C20Enum::Struct { x: bx, on: bo, y: by }) => {
            ax == bx && ao == bo && ay == by
        }
        _ => false,
    }
}

fn c20_enum(sel: usize, r: &C20Raw) -> (C20Enum, usize) {
    match sel {
        0 => (C20Enum::Unit, 1),
        1 => (C20Enum::Tuple(r.u[1], h_ascii(&r.a[1], 0)), 1 + 8 + 8),
        2 => (C20Enum::Tuple(r.u[1], h_ascii(&r.a[1], 3)), 1 + 8 + 11),
        3 => (
            C20Enum::Struct {
                x: r.i[1],
                on: r.u[0] > 7,
                y: r.u[1],
            },
            1 + 8 + 1 + 8,
        ),
        _ => (C20Enum::Last, 1),
    }
}

fn c20_check_user_struct(sel: usize, r: &C20Raw) {
    match sel {
        0 | 1 | 2 => {
            let len = if sel == 0 { 0 } else if sel == 1 { 1 } else { 3 };
            let x = c20_named(r, len);
            let bytes = c20_sized(&x);
            assert!(bytes.len() == 8 + 8 + len + 8 + 8 + 1, "named struct takes the sum of its fields");
            let y: C20Named = c20_back(&bytes);
            assert!(c20_same_named(&x, &y), "named struct round trip differs");
            std::mem::forget((x, bytes, y));
        }
        3 | 4 => {
            let len = if sel == 3 { 0 } else { 2 };
            let x = C20Tuple(r.i[0], h_ascii(&r.a[0], len), r.u[0]);
            let bytes = c20_sized(&x);
            assert!(bytes.len() == 8 + 8 + len + 8, "tuple struct takes the sum of its fields");
            let y: C20Tuple = c20_back(&bytes);
            assert!(c20_same_tuple(&x, &y), "tuple struct round trip differs");
            std::mem::forget((x, bytes, y));
        }
        _ => {
            let x = C20Unit;
            let bytes = c20_sized(&x);
            assert!(bytes.is_empty(), "unit struct takes no bytes");
            let y: C20Unit = c20_back(&bytes);
            assert!(y == x, "unit struct round trip differs");
            std::mem::forget(bytes);
        }
    }
}

//@ id=C20 tier=quick timeout=400 bounds="derive(DbSerialize) named struct {u64,String(0,1,3 ASCII),i64,f64,bool}, tuple struct (i64,String(0,2),u64), unit struct; field values arbitrary" desc="derived named/tuple/unit structs round-trip field by field (f64 by bits); serialize().len()==serialized_size()==sum of fields" kernel="agdb_derive::db_serialize::serialize_struct,agdb_derive::db_serialize::serialize_tuple" args="--no-assertion-reach-checks"
#[kani::proof]
#[kani::stub(std::fmt::format, crate::verif_support::fmt_stub)]
#[kani::stub(crate::DbError::new, crate::verif_support::dberror_new_stub)]
#[kani::stub(<crate::DbError as std::convert::From<std::string::FromUtf8Error>>::from, crate::verif_support::utf8err_stub)]
#[kani::stub(std::string::String::from_utf8, from_utf8_accept)]
#[kani::unwind(5)]
fn c20_derive_structs() {
    let r = c20_raw();
    let sel: usize = kani::any();
    kani::assume(sel <= 5);
    c20_split!(sel, c20_check_user_struct, &r, [0, 1, 2, 3, 4, 5]);
    kani::cover!(sel == 2 && r.f[0].is_nan(), "named struct with 3-byte name and NaN explored");
    kani::cover!(sel == 4, "tuple struct explored");
    kani::cover!(sel == 5, "unit struct explored");
    kani::cover!(true, "end of harness reachable");
}

fn c20_check_user_enum(sel: usize, r: &C20Raw) {
    let (x, len) = c20_enum(sel, r);
    let bytes = c20_sized(&x);
    assert!(bytes.len() == len, "derived enum takes 1 + the fields of the variant");
    let y: C20Enum = c20_back(&bytes);
    assert!(c20_same_enum(&x, &y), "derived enum round trip differs");
    std::mem::forget((x, bytes, y));
}

//@ id=C20 tier=quick timeout=300 bounds="derive(DbSerialize) enum {Unit, Tuple(u64,String(0,3)), Struct{i64,bool,u64}, Last}; field values arbitrary" desc="derived enum with unit/tuple/struct variants round-trips; serialize().len()==serialized_size()==1+fields" kernel="agdb_derive::db_serialize::serialize_enum" args="--no-assertion-reach-checks"
#[kani::proof]
#[kani::stub(std::fmt::format, crate::verif_support::fmt_stub)]
#[kani::stub(crate::DbError::new, crate::verif_support::dberror_new_stub)]
#[kani::stub(<crate::DbError as std::convert::From<std::string::FromUtf8Error>>::from, crate::verif_support::utf8err_stub)]
#[kani::stub(std::string::String::from_utf8, from_utf8_accept)]
#[kani::unwind(5)]
fn c20_derive_enum() {
    let r = c20_raw();
    let sel: usize = kani::any();
    kani::assume(sel <= 4);
    c20_split!(sel, c20_check_user_enum, &r, [0, 1, 2, 3, 4]);
    kani::cover!(sel == 2, "tuple variant explored");
    kani::cover!(sel == 3, "struct variant explored");
    kani::cover!(sel == 4, "last unit variant explored");
    kani::cover!(true, "end of harness reachable");
}

fn c20_check_user_nested(sel: usize, r: &C20Raw) {
    match sel {
        0 | 1 => {
            let (choice, elen) = c20_enum(if sel == 0 { 3 } else { 0 }, r);
            let nlen = if sel == 0 { 1 } else { 3 };
            let x = C20Nested {
                pre: r.u[1] > 3,
                named: c20_named(r, nlen),
                unit: C20Unit,
                choice,
                pair: C20Tuple(r.i[1], h_ascii(&r.a[1], 1), r.u[1]),
                post: r.u[0],
            };
            let bytes = c20_sized(&x);
            assert!(
                bytes.len() == 1 + (33 + nlen) + 0 + elen + 25 + 8,
                "nested struct takes the sum of its fields"
            );
            let y: C20Nested = c20_back(&bytes);
            assert!(y.pre == x.pre, "nested: first field differs");
            assert!(c20_same_named(&x.named, &y.named), "nested: struct field differs");
            assert!(c20_same_enum(&x.choice, &y.choice), "nested: enum field differs");
            assert!(c20_same_tuple(&x.pair, &y.pair), "nested: tuple field differs");
            assert!(y.post == x.post, "nested: last field differs");
            std::mem::forget((x, bytes, y));
        }
        2 => {
            let x = C20Generic { first: h_ascii(&r.a[0], 2), second: r.u[0] };
            let bytes = c20_sized(&x);
            assert!(bytes.len() == 10 + 8, "generic struct<String> takes the sum of its fields");
            let y: C20Generic<String> = c20_back(&bytes);
            assert!(h_same(y.first.as_bytes(), &r.a[0][..2]) && y.second == x.second, "generic<String> differs");
            std::mem::forget((x, bytes, y));
        }
        3 => {
            let x = C20Generic { first: h_vec(&r.i, 2), second: r.u[0] };
            let bytes = c20_sized(&x);
            assert!(bytes.len() == 24 + 8, "generic struct<Vec<i64>> takes the sum of its fields");
            let y: C20Generic<Vec<i64>> = c20_back(&bytes);
            assert!(
                y.first.len() == 2 && y.first[0] == r.i[0] && y.first[1] == r.i[1] && y.second == x.second,
                "generic<Vec<i64>> differs"
            );
            std::mem::forget((x, bytes, y));
        }
        _ => {
            let (first, elen) = c20_enum(2, r);
            let x = C20Generic { first, second: r.u[0] };
            let bytes = c20_sized(&x);
            assert!(bytes.len() == elen + 8, "generic struct<enum> takes the sum of its fields");
            let y: C20Generic<C20Enum> = c20_back(&bytes);
            assert!(c20_same_enum(&x.first, &y.first) && y.second == x.second, "generic<enum> differs");
            std::mem::forget((x, bytes, y));
        }
    }
}

//@ id=C20 tier=quick timeout=2100 bounds="nested struct {bool, named struct, unit struct, enum (struct variant / unit variant), tuple struct, u64}; generic struct<T>{T,u64} with T=String(2), Vec<i64>(2), derived enum; field values arbitrary" desc="nested and generic derived types round-trip field by field; serialize().len()==serialized_size()==sum of fields" kernel="agdb_derive::db_serialize::serialize_struct,agdb_derive::db_serialize::serialize_tuple,agdb_derive::db_serialize::serialize_enum" args="--no-assertion-reach-checks"
#[kani::proof]
#[kani::stub(std::fmt::format, crate::verif_support::fmt_stub)]
#[kani::stub(crate::DbError::new, crate::verif_support::dberror_new_stub)]
#[kani::stub(<crate::DbError as std::convert::From<std::string::FromUtf8Error>>::from, crate::verif_support::utf8err_stub)]
#[kani::stub(std::string::String::from_utf8, from_utf8_accept)]
#[kani::unwind(5)]
fn c20_derive_nested_generic() {
    let r = c20_raw();
    let sel: usize = kani::any();
    kani::assume(sel <= 4);
    c20_split!(sel, c20_check_user_nested, &r, [0, 1, 2, 3, 4]);
    kani::cover!(sel == 0, "nested with struct variant explored");
    kani::cover!(sel == 3, "generic over Vec<i64> explored");
    kani::cover!(sel == 4, "generic over enum explored");
    kani::cover!(true, "end of harness reachable");
}

// ---------------------------------------------------------------------------
// C21: arbitrary bytes
// ---------------------------------------------------------------------------

/// C21 oracle: any outcome but a panic. Returns whether it was `Ok`. When the
/// value decodes, it cannot claim to occupy more bytes than were supplied.
fn c21_feed<T: Serialize>(bytes: &[u8]) -> bool {
    let r = T::deserialize(bytes);
    let is_ok = match &r {
        Ok(v) => {
            assert!(
                v.serialized_size() <= bytes.len() as u64,
                "decoded value is larger than the input"
            );
            true
        }
        Err(_) => false,
    };
    std::mem::forget(r);
    is_ok
}

#[allow(dead_code)]
struct FakeFromUtf8Error {
    bytes: Vec<u8>,
    error: std::str::Utf8Error,
}

/// Model of `String::from_utf8` for the arbitrary-bytes harnesses: validity is
/// decided nondeterministically (over-approximation: both outcomes are explored
/// for every payload). The real validator over a heap buffer of symbolic length
/// exhausts 10 GB; it is exercised on concrete-length inputs by
/// `c21_string_real_utf8`. The error value is only ever passed to the (stubbed)
/// conversion into `DbError`, which forgets it.
pub(crate) fn from_utf8_any(v: Vec<u8>) -> Result<String, std::string::FromUtf8Error> {
    if kani::any() {
        Ok(unsafe { String::from_utf8_unchecked(v) })
    } else {
        let error = match std::str::from_utf8(&[0xff_u8]) {
            Err(e) => e,
            Ok(_) => unreachable!(),
        };
        Err(unsafe {
            std::mem::transmute::<FakeFromUtf8Error, std::string::FromUtf8Error>(FakeFromUtf8Error {
                bytes: v,
                error,
            })
        })
    }
}

/// Largest length prefix explored by the harnesses that are expected to pass on
/// the current tree. Larger prefixes trigger the known defects C21-a
/// (`Vec::with_capacity(len)`) and C21-c (`begin + len` overflow), which have
/// their own harnesses (`c21_vec_u64_capacity`, `c21_string_prefix_overflow`,
/// `c21_bytes_prefix_overflow`).
const C21_MAX_PREFIX: u64 = u32::MAX as u64;

/// Replaces `<usize as Serialize>::deserialize` (every length prefix is read
/// through it): same decoding, plus the precondition `prefix <= C21_MAX_PREFIX`.
/// The real function is checked by `c21_scalars`.
pub(crate) fn usize_deserialize_bounded(bytes: &[u8]) -> Result<usize, DbError> {
    let value = u64::deserialize(bytes)?;
    kani::assume(value <= C21_MAX_PREFIX);
    Ok(value as usize)
}

//@ id=C21 tier=quick timeout=300 bounds="buffer of 0..=24 arbitrary bytes" desc="fixed-size built-ins: deserialize never panics and is Ok exactly when enough bytes are present" kernel="i64::deserialize,u64::deserialize,f64::deserialize,usize::deserialize,bool::deserialize,DbF64::deserialize,DbId::deserialize"
#[kani::proof]
#[kani::stub(std::fmt::format, crate::verif_support::fmt_stub)]
#[kani::stub(crate::DbError::new, crate::verif_support::dberror_new_stub)]
#[kani::stub(<crate::DbError as std::convert::From<std::array::TryFromSliceError>>::from, crate::verif_support::sliceerr_stub)]
#[kani::stub(<crate::DbError as std::convert::From<std::num::TryFromIntError>>::from, crate::verif_support::interr_stub)]
#[kani::unwind(10)]
fn c21_scalars() {
    let buf: [u8; 24] = kani::any();
    let n: usize = kani::any();
    kani::assume(n <= 24);
    let b = &buf[..n];
    assert!(c21_feed::<i64>(b) == (n >= 8), "i64: Ok iff 8 bytes");
    assert!(c21_feed::<u64>(b) == (n >= 8), "u64: Ok iff 8 bytes");
    assert!(c21_feed::<f64>(b) == (n >= 8), "f64: Ok iff 8 bytes");
    assert!(c21_feed::<usize>(b) == (n >= 8), "usize: Ok iff 8 bytes (64-bit target)");
    assert!(c21_feed::<bool>(b) == (n >= 1), "bool: Ok iff 1 byte");
    assert!(c21_feed::<DbF64>(b) == (n >= 8), "DbF64: Ok iff 8 bytes");
    assert!(c21_feed::<DbId>(b) == (n >= 8), "DbId: Ok iff 8 bytes");
    kani::cover!(n == 7, "one byte short explored");
    kani::cover!(n == 0, "empty input explored");
    kani::cover!(n == 24, "full buffer explored");
    kani::cover!(true, "end of harness reachable");
}

// --- the three known defects, one harness each (expected to FAIL on the unchanged tree)

//@ id=C21 tier=quick timeout=400 bounds="buffer of 0..=24 arbitrary bytes (UTF-8 validity nondeterministic)" desc="String::deserialize returns Ok or Err for every input, no panic, no arithmetic overflow [known defect C21-c: begin + len overflows for a length prefix >= 2^64-8]" kernel="String::deserialize"
#[kani::proof]
#[kani::stub(std::fmt::format, crate::verif_support::fmt_stub)]
#[kani::stub(crate::DbError::new, crate::verif_support::dberror_new_stub)]
#[kani::stub(<crate::DbError as std::convert::From<std::array::TryFromSliceError>>::from, crate::verif_support::sliceerr_stub)]
#[kani::stub(<crate::DbError as std::convert::From<std::num::TryFromIntError>>::from, crate::verif_support::interr_stub)]
#[kani::stub(<crate::DbError as std::convert::From<std::string::FromUtf8Error>>::from, crate::verif_support::utf8err_stub)]
#[kani::stub(std::string::String::from_utf8, from_utf8_any)]
#[kani::unwind(5)]
fn c21_string_prefix_overflow() {
    let buf: [u8; 24] = kani::any();
    let n: usize = kani::any();
    kani::assume(n <= 24);
    let ok = c21_feed::<String>(&buf[..n]);
    kani::cover!(ok && n == 24 && buf[0] == 16, "a 16-byte string decodes");
    kani::cover!(!ok && n >= 8, "rejected with a length prefix present");
    kani::cover!(true, "end of harness reachable");
}

//@ id=C21 tier=quick timeout=300 bounds="buffer of 0..=24 arbitrary bytes" desc="Vec<u8>::deserialize returns Ok or Err for every input, no panic, no arithmetic overflow [known defect C21-c: begin + len overflows for a length prefix >= 2^64-8]" kernel="Vec<u8>::deserialize"
#[kani::proof]
#[kani::stub(std::fmt::format, crate::verif_support::fmt_stub)]
#[kani::stub(crate::DbError::new, crate::verif_support::dberror_new_stub)]
#[kani::stub(<crate::DbError as std::convert::From<std::array::TryFromSliceError>>::from, crate::verif_support::sliceerr_stub)]
#[kani::stub(<crate::DbError as std::convert::From<std::num::TryFromIntError>>::from, crate::verif_support::interr_stub)]
#[kani::unwind(5)]
fn c21_bytes_prefix_overflow() {
    let buf: [u8; 24] = kani::any();
    let n: usize = kani::any();
    kani::assume(n <= 24);
    let ok = c21_feed::<Vec<u8>>(&buf[..n]);
    kani::cover!(ok && n == 24 && buf[0] == 16, "a 16-byte vector decodes");
    kani::cover!(!ok && n >= 8, "rejected with a length prefix present");
    kani::cover!(true, "end of harness reachable");
}

//@ id=C21 tier=quick timeout=300 bounds="buffer of 0..=24 arbitrary bytes" desc="SystemTime::deserialize returns Ok or Err for every input, no panic [known defect C21-b: Duration::new(secs, nanos) panics when the nanosecond carry overflows secs]" kernel="SystemTime::deserialize"
#[kani::proof]
#[kani::stub(std::fmt::format, crate::verif_support::fmt_stub)]
#[kani::stub(crate::DbError::new, crate::verif_support::dberror_new_stub)]
#[kani::unwind(5)]
fn c21_system_time_duration() {
    let buf: [u8; 24] = kani::any();
    let n: usize = kani::any();
    kani::assume(n <= 24);
    let ok = c21_feed::<SystemTime>(&buf[..n]);
    assert!(!ok || n >= 13, "SystemTime needs 13 bytes");
    kani::cover!(ok, "some input decodes");
    kani::cover!(!ok && n >= 13, "out-of-range time rejected");
    kani::cover!(true, "end of harness reachable");
}

//@ id=C21 tier=quick timeout=300 bounds="buffer of 0..=24 arbitrary bytes" desc="Vec<u64>::deserialize returns Ok or Err for every input, no panic, no capacity overflow [known defect C21-a: Vec::with_capacity(len) with len taken from the input]" kernel="Vec<T>::deserialize"
#[kani::proof]
#[kani::stub(std::fmt::format, crate::verif_support::fmt_stub)]
#[kani::stub(crate::DbError::new, crate::verif_support::dberror_new_stub)]
#[kani::stub(<crate::DbError as std::convert::From<std::array::TryFromSliceError>>::from, crate::verif_support::sliceerr_stub)]
#[kani::stub(<crate::DbError as std::convert::From<std::num::TryFromIntError>>::from, crate::verif_support::interr_stub)]
#[kani::unwind(5)]
fn c21_vec_u64_capacity() {
    let buf: [u8; 24] = kani::any();
    let n: usize = kani::any();
    kani::assume(n <= 24);
    let ok = c21_feed::<Vec<u64>>(&buf[..n]);
    kani::cover!(ok && n == 24 && buf[0] == 2, "a 2-element vector decodes");
    kani::cover!(!ok && n >= 8, "rejected with a length prefix present");
    kani::cover!(true, "end of harness reachable");
}

// --- the same decoders outside the defect triggers (expected to PASS)

//@ id=C21 tier=quick timeout=300 bounds="buffer of 0..=24 arbitrary bytes; length prefix <= 2^32-1 (larger: known defect C21-c); UTF-8 validity nondeterministic" desc="String / Vec<u8> deserialize never panic; Ok implies prefix + 8 <= input length" kernel="String::deserialize,Vec<u8>::deserialize"
#[kani::proof]
#[kani::stub(std::fmt::format, crate::verif_support::fmt_stub)]
#[kani::stub(crate::DbError::new, crate::verif_support::dberror_new_stub)]
#[kani::stub(<crate::DbError as std::convert::From<std::array::TryFromSliceError>>::from, crate::verif_support::sliceerr_stub)]
#[kani::stub(<crate::DbError as std::convert::From<std::num::TryFromIntError>>::from, crate::verif_support::interr_stub)]
#[kani::stub(<crate::DbError as std::convert::From<std::string::FromUtf8Error>>::from, crate::verif_support::utf8err_stub)]
#[kani::stub(std::string::String::from_utf8, from_utf8_any)]
#[kani::stub(<usize as crate::utilities::serialize::Serialize>::deserialize, usize_deserialize_bounded)]
#[kani::unwind(5)]
fn c21_string_and_bytes_bounded() {
    let buf: [u8; 24] = kani::any();
    let n: usize = kani::any();
    kani::assume(n <= 24);
    let ok_s = c21_feed::<String>(&buf[..n]);
    let ok_b = c21_feed::<Vec<u8>>(&buf[..n]);
    let fits = n >= 8 && buf[1] == 0 && buf[2] == 0 && buf[3] == 0 && (buf[0] as usize) <= n - 8
        && buf[4] == 0 && buf[5] == 0 && buf[6] == 0 && buf[7] == 0;
    assert!(ok_b == fits, "Vec<u8>: Ok iff the prefixed payload fits in the input");
    assert!(!ok_s || fits, "String: Ok only if the prefixed payload fits in the input");
    kani::cover!(ok_s && n == 24 && buf[0] == 16, "a 16-byte string decodes");
    kani::cover!(!ok_s && ok_b, "invalid UTF-8 rejected");
    kani::cover!(!ok_b && n >= 8, "payload longer than the input rejected");
    kani::cover!(true, "end of harness reachable");
}

//@ id=C21 tier=quick timeout=300 bounds="buffer of 0..=24 arbitrary bytes with nanoseconds field < 10^9 (larger: known defect C21-b)" desc="SystemTime::deserialize never panics for normalized nanoseconds; Ok only with 13 bytes" kernel="SystemTime::deserialize"
#[kani::proof]
#[kani::stub(std::fmt::format, crate::verif_support::fmt_stub)]
#[kani::stub(crate::DbError::new, crate::verif_support::dberror_new_stub)]
#[kani::unwind(5)]
fn c21_system_time_normalized() {
    let buf: [u8; 24] = kani::any();
    let n: usize = kani::any();
    kani::assume(n <= 24);
    let nanos = u32::from_le_bytes([buf[8], buf[9], buf[10], buf[11]]);
    kani::assume(nanos < 1_000_000_000);
    let ok = c21_feed::<SystemTime>(&buf[..n]);
    assert!(!ok || n >= 13, "SystemTime needs 13 bytes");
    kani::cover!(ok && buf[12] == 0, "a time before the epoch decodes");
    kani::cover!(ok && buf[12] != 0, "a time after the epoch decodes");
    kani::cover!(!ok && n >= 13, "out-of-range time rejected");
    kani::cover!(true, "end of harness reachable");
}

//@ id=C21 tier=quick timeout=600 bounds="buffer of 0..=24 arbitrary bytes; length prefix <= 2^32-1 (larger: known defect C21-a)" desc="Vec<i64>/Vec<u64>/Vec<DbF64> deserialize never panic; Ok implies 8 + 8*len <= input length" kernel="Vec<T>::deserialize" args="--no-assertion-reach-checks"
#[kani::proof]
#[kani::stub(std::fmt::format, crate::verif_support::fmt_stub)]
#[kani::stub(crate::DbError::new, crate::verif_support::dberror_new_stub)]
#[kani::stub(<crate::DbError as std::convert::From<std::array::TryFromSliceError>>::from, crate::verif_support::sliceerr_stub)]
#[kani::stub(<crate::DbError as std::convert::From<std::num::TryFromIntError>>::from, crate::verif_support::interr_stub)]
#[kani::stub(<usize as crate::utilities::serialize::Serialize>::deserialize, usize_deserialize_bounded)]
#[kani::unwind(5)]
fn c21_vec_fixed_elems_bounded() {
    let buf: [u8; 24] = kani::any();
    let n: usize = kani::any();
    kani::assume(n <= 24);
    let ok_i = c21_feed::<Vec<i64>>(&buf[..n]);
    let ok_u = c21_feed::<Vec<u64>>(&buf[..n]);
    let ok_f = c21_feed::<Vec<DbF64>>(&buf[..n]);
    assert!(ok_i == ok_u && ok_u == ok_f, "all 8-byte element vectors accept the same inputs");
    kani::cover!(ok_i && n == 24 && buf[0] == 2, "a 2-element vector decodes");
    kani::cover!(ok_i && buf[0] == 0, "an empty vector decodes");
    kani::cover!(!ok_i && n >= 8, "rejected with a length prefix present");
    kani::cover!(true, "end of harness reachable");
}

//@ id=C21 tier=quick timeout=300 bounds="length prefix 4 followed by 4 arbitrary payload bytes" desc="String::deserialize with std's real UTF-8 validator: invalid UTF-8 and short payloads give Err, valid ones Ok; never panics" kernel="String::deserialize" cbmc="--unwindset _RNvNtNtCs8xvirJzNMvV_4core3str11validations19run_utf8_validation.0:2"
#[kani::proof]
#[kani::stub(std::fmt::format, crate::verif_support::fmt_stub)]
#[kani::stub(crate::DbError::new, crate::verif_support::dberror_new_stub)]
#[kani::stub(<crate::DbError as std::convert::From<std::array::TryFromSliceError>>::from, crate::verif_support::sliceerr_stub)]
#[kani::stub(<crate::DbError as std::convert::From<std::num::TryFromIntError>>::from, crate::verif_support::interr_stub)]
#[kani::stub(<crate::DbError as std::convert::From<std::string::FromUtf8Error>>::from, crate::verif_support::utf8err_stub)]
#[kani::unwind(6)]
fn c21_string_real_utf8() {
    let p: [u8; 4] = kani::any();
    // the input is a local array literal whose length prefix is a constant, so that
    // the decoder sees concrete lengths (see the note on from_utf8_any); a choice
    // between several such inputs in one harness already exhausts memory
    let b = [4, 0, 0, 0, 0, 0, 0, 0, p[0], p[1], p[2], p[3]];
    let valid = std::str::from_utf8(&p).is_ok();
    let ok = c21_feed::<String>(&b);
    assert!(ok == valid, "Ok exactly for valid UTF-8");
    kani::cover!(ok && p[0] >= 0xf0, "a 4-byte scalar decodes");
    kani::cover!(ok && p[0] < 0x80 && p[3] < 0x80, "ASCII decodes");
    kani::cover!(!ok, "invalid UTF-8 rejected");
    kani::cover!(true, "end of harness reachable");
}

//@ id=C21 tier=quick timeout=300 bounds="buffer of 0..=24 arbitrary bytes; length prefix <= 2^32-1; UTF-8 validity nondeterministic" desc="QueryId / CountComparison / DbKeyOrder-free derived enums: deserialize never panics, unknown variant bytes give Err" kernel="QueryId::deserialize,CountComparison::deserialize,DbId::deserialize,agdb_derive::db_serialize::serialize_enum" args="--no-assertion-reach-checks"
#[kani::proof]
#[kani::stub(std::fmt::format, crate::verif_support::fmt_stub)]
#[kani::stub(crate::DbError::new, crate::verif_support::dberror_new_stub)]
#[kani::stub(<crate::DbError as std::convert::From<std::array::TryFromSliceError>>::from, crate::verif_support::sliceerr_stub)]
#[kani::stub(<crate::DbError as std::convert::From<std::num::TryFromIntError>>::from, crate::verif_support::interr_stub)]
#[kani::stub(<crate::DbError as std::convert::From<std::string::FromUtf8Error>>::from, crate::verif_support::utf8err_stub)]
#[kani::stub(std::string::String::from_utf8, from_utf8_any)]
#[kani::stub(<usize as crate::utilities::serialize::Serialize>::deserialize, usize_deserialize_bounded)]
#[kani::unwind(5)]
fn c21_query_id_count_comparison() {
    let buf: [u8; 24] = kani::any();
    let n: usize = kani::any();
    kani::assume(n <= 24);
    let ok_q = c21_feed::<QueryId>(&buf[..n]);
    let ok_c = c21_feed::<CountComparison>(&buf[..n]);
    let ok_l = c21_feed::<QueryConditionLogic>(&buf[..n]);
    let ok_m = c21_feed::<QueryConditionModifier>(&buf[..n]);
    assert!(ok_c == (n >= 9 && buf[0] <= 5), "CountComparison: Ok iff known variant and 9 bytes");
    assert!(ok_l == (n >= 1 && buf[0] <= 1), "QueryConditionLogic: Ok iff known variant");
    assert!(ok_m == (n >= 1 && buf[0] <= 3), "QueryConditionModifier: Ok iff known variant");
    assert!(!ok_q || (n >= 9 && buf[0] <= 1), "QueryId: Ok only for a known variant with its payload");
    kani::cover!(ok_q && buf[0] == 1 && n == 24, "an alias decodes");
    kani::cover!(ok_q && buf[0] == 0, "an id decodes");
    kani::cover!(!ok_q && n >= 9 && buf[0] == 1, "a truncated alias is rejected");
    kani::cover!(true, "end of harness reachable");
}

//@ id=C21 tier=quick timeout=300 bounds="buffer of 0..=24 arbitrary bytes; length prefix <= 2^32-1; UTF-8 validity nondeterministic" desc="derive(DbSerialize) corpus (named struct, tuple struct, unit struct, enum with unit/tuple/struct variants, generic struct): deserialize never panics, field offsets stay inside the input" kernel="agdb_derive::db_serialize::serialize_struct,agdb_derive::db_serialize::serialize_tuple,agdb_derive::db_serialize::serialize_enum" args="--no-assertion-reach-checks"
#[kani::proof]
#[kani::stub(std::fmt::format, crate::verif_support::fmt_stub)]
#[kani::stub(crate::DbError::new, crate::verif_support::dberror_new_stub)]
#[kani::stub(<crate::DbError as std::convert::From<std::array::TryFromSliceError>>::from, crate::verif_support::sliceerr_stub)]
#[kani::stub(<crate::DbError as std::convert::From<std::num::TryFromIntError>>::from, crate::verif_support::interr_stub)]
#[kani::stub(<crate::DbError as std::convert::From<std::string::FromUtf8Error>>::from, crate::verif_support::utf8err_stub)]
#[kani::stub(std::string::String::from_utf8, from_utf8_any)]
#[kani::stub(<usize as crate::utilities::serialize::Serialize>::deserialize, usize_deserialize_bounded)]
#[kani::unwind(5)]
fn c21_derive_corpus() {
    let buf: [u8; 24] = kani::any();
    let n: usize = kani::any();
    kani::assume(n <= 24);
    let ok_t = c21_feed::<C20Tuple>(&buf[..n]);
    let ok_u = c21_feed::<C20Unit>(&buf[..n]);
    let ok_e = c21_feed::<C20Enum>(&buf[..n]);
    let ok_g = c21_feed::<C20Generic<bool>>(&buf[..n]);
    assert!(ok_u, "the unit struct decodes from anything");
    assert!(ok_g == (n >= 9), "generic<bool>: Ok iff 9 bytes");
    assert!(!ok_e || buf[0] <= 3, "enum: Ok only for a known variant");
    assert!(!ok_t || n >= 24, "tuple struct needs at least 8 + 8 + 8 bytes");
    kani::cover!(ok_t, "tuple struct decodes");
    kani::cover!(ok_e && buf[0] == 1, "tuple variant decodes");
    kani::cover!(ok_e && buf[0] == 2 && n == 18, "struct variant decodes from exactly its size");
    kani::cover!(!ok_e && buf[0] == 2 && n == 17, "struct variant one byte short rejected");
    kani::cover!(true, "end of harness reachable");
}

// --- DbValue and the types built on it: variant tags pinned, everything else arbitrary
//
// Fully arbitrary input does not finish for these types (every variant of every
// nested enum is explored for every field; 10 GB exhausted). The variant tag bytes
// are therefore literals in a local array of concrete length; all other bytes
// (length prefixes, payload) are arbitrary.

/// Feeds `$ty::deserialize` an arbitrary `[u8; $n]` with the listed bytes pinned.
macro_rules! c21_pinned {
    ($ty:ty, $n:literal, [$(($i:literal, $v:literal)),*]) => {{
        let mut b: [u8; $n] = kani::any();
        $( b[$i] = $v; )*
        // plain outcome only: asking the decoded value for its size walks every
        // variant of the merged result again and multiplies the cost
        let r = <$ty>::deserialize(&b);
        let ok = r.is_ok();
        std::mem::forget(r);
        ok
    }};
}

//@ id=C21 tier=quick timeout=300 bounds="DbValue tag in {Bytes, I64, F64, String, 9 (unknown)} x input length in {1, 8, 9, 13, 24}; all other bytes arbitrary; length prefix <= 2^32-1; UTF-8 validity nondeterministic" desc="DbValue::deserialize (scalar, bytes and string variants) never panics; fixed-size variants are Ok iff 9 bytes; unknown tags are rejected" kernel="DbValue::deserialize" args="--no-assertion-reach-checks"
#[kani::proof]
#[kani::stub(std::fmt::format, crate::verif_support::fmt_stub)]
#[kani::stub(crate::DbError::new, crate::verif_support::dberror_new_stub)]
#[kani::stub(<crate::DbError as std::convert::From<std::array::TryFromSliceError>>::from, crate::verif_support::sliceerr_stub)]
#[kani::stub(<crate::DbError as std::convert::From<std::num::TryFromIntError>>::from, crate::verif_support::interr_stub)]
#[kani::stub(<crate::DbError as std::convert::From<std::string::FromUtf8Error>>::from, crate::verif_support::utf8err_stub)]
#[kani::stub(std::string::String::from_utf8, from_utf8_any)]
#[kani::stub(<usize as crate::utilities::serialize::Serialize>::deserialize, usize_deserialize_bounded)]
#[kani::unwind(5)]
fn c21_db_value_flat_tags() {
    // Bytes
    assert!(!c21_pinned!(DbValue, 1, [(0, 0)]), "Bytes: tag only is rejected");
    assert!(!c21_pinned!(DbValue, 8, [(0, 0)]), "Bytes: partial prefix is rejected");
    let b9 = c21_pinned!(DbValue, 9, [(0, 0)]);
    let b13 = c21_pinned!(DbValue, 13, [(0, 0)]);
    let b24 = c21_pinned!(DbValue, 24, [(0, 0)]);
    // I64 / F64
    assert!(!c21_pinned!(DbValue, 1, [(0, 1)]), "I64: tag only is rejected");
    assert!(!c21_pinned!(DbValue, 8, [(0, 1)]), "I64: 7 payload bytes are rejected");
    assert!(c21_pinned!(DbValue, 9, [(0, 1)]), "I64: 8 payload bytes decode");
    assert!(c21_pinned!(DbValue, 24, [(0, 1)]), "I64: trailing bytes are ignored");
    assert!(!c21_pinned!(DbValue, 8, [(0, 3)]), "F64: 7 payload bytes are rejected");
    assert!(c21_pinned!(DbValue, 9, [(0, 3)]), "F64: 8 payload bytes decode");
    // String
    assert!(!c21_pinned!(DbValue, 8, [(0, 4)]), "String: partial prefix is rejected");
    let s9 = c21_pinned!(DbValue, 9, [(0, 4)]);
    let s13 = c21_pinned!(DbValue, 13, [(0, 4)]);
    let s24 = c21_pinned!(DbValue, 24, [(0, 4)]);
    // unknown variants
    assert!(!c21_pinned!(DbValue, 24, [(0, 9)]), "tag 9 is not a DbValue");
    assert!(!c21_pinned!(DbValue, 24, [(0, 255)]), "tag 255 is not a DbValue");
    kani::cover!(b9 && b13 && b24, "bytes decode at every length");
    kani::cover!(!b9 && !b13 && !b24, "bytes rejected at every length");
    kani::cover!(s9 && s13 && s24, "strings decode at every length");
    kani::cover!(!s24, "string rejected");
    kani::cover!(true, "end of harness reachable");
}

//@ id=C21 tier=quick timeout=1000 bounds="DbValue tag in {VecI64, VecU64, VecF64} x input length in {9, 17, 24}; all other bytes arbitrary; length prefix <= 2^32-1" desc="DbValue::deserialize (numeric vector variants) never panics" kernel="DbValue::deserialize,Vec<T>::deserialize" args="--no-assertion-reach-checks"
#[kani::proof]
#[kani::stub(std::fmt::format, crate::verif_support::fmt_stub)]
#[kani::stub(crate::DbError::new, crate::verif_support::dberror_new_stub)]
#[kani::stub(<crate::DbError as std::convert::From<std::array::TryFromSliceError>>::from, crate::verif_support::sliceerr_stub)]
#[kani::stub(<crate::DbError as std::convert::From<std::num::TryFromIntError>>::from, crate::verif_support::interr_stub)]
#[kani::stub(<usize as crate::utilities::serialize::Serialize>::deserialize, usize_deserialize_bounded)]
#[kani::unwind(5)]
fn c21_db_value_numeric_vector_tags() {
    let i9 = c21_pinned!(DbValue, 9, [(0, 5)]);
    let i17 = c21_pinned!(DbValue, 17, [(0, 5)]);
    let i24 = c21_pinned!(DbValue, 24, [(0, 5)]);
    let u9 = c21_pinned!(DbValue, 9, [(0, 6)]);
    let u24 = c21_pinned!(DbValue, 24, [(0, 6)]);
    let f17 = c21_pinned!(DbValue, 17, [(0, 7)]);
    let f24 = c21_pinned!(DbValue, 24, [(0, 7)]);
    kani::cover!(i9 && i17 && i24, "i64 vectors decode at every length");
    kani::cover!(!i9 && !i17 && !i24, "i64 vectors rejected at every length");
    kani::cover!(u9 && u24, "u64 vectors decode");
    kani::cover!(f17 && !f24, "f64 vector of one element; two announced but truncated");
    kani::cover!(true, "end of harness reachable");
}

//@ id=C21 tier=thorough timeout=1200 bounds="24 arbitrary bytes (fixed input length); length prefixes <= 2^32-1; UTF-8 validity nondeterministic" desc="Vec<String>::deserialize never panics (the DbValue::VecString payload decoder; the DbValue wrapper itself exhausts memory)" kernel="Vec<T>::deserialize,String::deserialize" args="--no-assertion-reach-checks"
#[kani::proof]
#[kani::stub(std::fmt::format, crate::verif_support::fmt_stub)]
#[kani::stub(crate::DbError::new, crate::verif_support::dberror_new_stub)]
#[kani::stub(<crate::DbError as std::convert::From<std::array::TryFromSliceError>>::from, crate::verif_support::sliceerr_stub)]
#[kani::stub(<crate::DbError as std::convert::From<std::num::TryFromIntError>>::from, crate::verif_support::interr_stub)]
#[kani::stub(<crate::DbError as std::convert::From<std::string::FromUtf8Error>>::from, crate::verif_support::utf8err_stub)]
#[kani::stub(std::string::String::from_utf8, from_utf8_any)]
#[kani::stub(<usize as crate::utilities::serialize::Serialize>::deserialize, usize_deserialize_bounded)]
#[kani::unwind(5)]
fn c21_vec_string_fixed_len() {
    let ok = c21_pinned!(Vec<String>, 24, []);
    kani::cover!(ok, "a string vector decodes");
    kani::cover!(!ok, "a string vector is rejected");
    kani::cover!(true, "end of harness reachable");
}

//@ id=C21 tier=quick timeout=500 bounds="Comparison tag in {Equal, 9 (unknown)} over DbValue tag I64, DbKeyOrder::Desc over DbValue tag Bytes; input lengths 2/10/24; all other bytes arbitrary; length prefix <= 2^32-1" desc="Comparison / DbKeyOrder deserialize never panic; unknown outer or inner tags and truncated values are rejected" kernel="Comparison::deserialize,DbKeyOrder::deserialize,DbValue::deserialize" args="--no-assertion-reach-checks"
#[kani::proof]
#[kani::stub(std::fmt::format, crate::verif_support::fmt_stub)]
#[kani::stub(crate::DbError::new, crate::verif_support::dberror_new_stub)]
#[kani::stub(<crate::DbError as std::convert::From<std::array::TryFromSliceError>>::from, crate::verif_support::sliceerr_stub)]
#[kani::stub(<crate::DbError as std::convert::From<std::num::TryFromIntError>>::from, crate::verif_support::interr_stub)]
#[kani::stub(<crate::DbError as std::convert::From<std::string::FromUtf8Error>>::from, crate::verif_support::utf8err_stub)]
#[kani::stub(std::string::String::from_utf8, from_utf8_any)]
#[kani::stub(<usize as crate::utilities::serialize::Serialize>::deserialize, usize_deserialize_bounded)]
#[kani::unwind(5)]
fn c21_comparison_and_key_order() {
    assert!(!c21_pinned!(Comparison, 2, [(0, 0), (1, 1)]), "Comparison: truncated value is rejected");
    assert!(c21_pinned!(Comparison, 10, [(0, 0), (1, 1)]), "Comparison::Equal(i64) decodes from 10 bytes");
    assert!(!c21_pinned!(Comparison, 24, [(0, 9), (1, 1)]), "Comparison: tag 9 is unknown");
    let o_bytes = c21_pinned!(DbKeyOrder, 24, [(0, 1), (1, 0)]);
    kani::cover!(o_bytes, "Desc(bytes) decodes");
    kani::cover!(!o_bytes, "Desc(bytes) rejected");
    kani::cover!(true, "end of harness reachable");
}

//@ id=C21 tier=quick timeout=300 bounds="DbKeyValue with key tag I64 and value tag in {I64, 9 (unknown)}; input lengths 9/10/18/24; all other bytes arbitrary; length prefix <= 2^32-1" desc="DbKeyValue::deserialize never panics; the second field is decoded at the offset after the first; missing/truncated/unknown values are rejected" kernel="DbKeyValue::deserialize,DbValue::deserialize" args="--no-assertion-reach-checks"
#[kani::proof]
#[kani::stub(std::fmt::format, crate::verif_support::fmt_stub)]
#[kani::stub(crate::DbError::new, crate::verif_support::dberror_new_stub)]
#[kani::stub(<crate::DbError as std::convert::From<std::array::TryFromSliceError>>::from, crate::verif_support::sliceerr_stub)]
#[kani::stub(<crate::DbError as std::convert::From<std::num::TryFromIntError>>::from, crate::verif_support::interr_stub)]
#[kani::stub(<crate::DbError as std::convert::From<std::string::FromUtf8Error>>::from, crate::verif_support::utf8err_stub)]
#[kani::stub(std::string::String::from_utf8, from_utf8_any)]
#[kani::stub(<usize as crate::utilities::serialize::Serialize>::deserialize, usize_deserialize_bounded)]
#[kani::unwind(5)]
fn c21_key_value_pinned_tags() {
    assert!(!c21_pinned!(DbKeyValue, 9, [(0, 1)]), "DbKeyValue: missing value is rejected");
    assert!(!c21_pinned!(DbKeyValue, 10, [(0, 1), (9, 1)]), "DbKeyValue: truncated value is rejected");
    assert!(c21_pinned!(DbKeyValue, 18, [(0, 1), (9, 1)]), "DbKeyValue (i64, i64) decodes from 18 bytes");
    assert!(!c21_pinned!(DbKeyValue, 24, [(0, 1), (9, 9)]), "DbKeyValue: value tag 9 is unknown");
    kani::cover!(true, "end of harness reachable");
}
