// harnesses mounted as child module of agdb/src/utilities/serialize.rs
#[allow(unused_imports)]
use super::*;
