// harnesses mounted as child module of agdb/src/db/db_value.rs
#[allow(unused_imports)]
use super::*;

use crate::utilities::serialize::Serialize;
use crate::storage::verif_h::data_of;
use crate::storage::verif_h::fresh_arr_storage;
use crate::verif_support::ArrStorage;
use crate::verif_support::is_ok;
use crate::verif_support::ok;

// ---------------------------------------------------------------------------
// shared helpers (also used by db_key_value_h.rs)
// ---------------------------------------------------------------------------

/// "Close and reopen": a new `Storage` built by the real open path
/// (`Storage::with_data` -> `read_records`) from a copy of the bytes of `s`.
pub(crate) fn reopen(s: &Storage<ArrStorage>) -> Storage<ArrStorage> {
    let d = data_of(s);
    // constant-size copy; bytes at offsets >= len are zero (ArrStorage invariant)
    let mut a = ArrStorage::from_slice(&d.buf);
    a.len = d.len;
    ok(Storage::with_data(a))
}

/// Number of mutating back-end calls so far ("inline values allocate nothing").
pub(crate) fn backend_calls(s: &Storage<ArrStorage>) -> u32 {
    data_of(s).calls
}

/// `v == data[..n]` without any loop (so the global unwind bound can stay
/// small); supports `N <= 18`.
pub(crate) fn same_bytes<const N: usize>(v: &[u8], data: &[u8; N], n: usize) -> bool {
    if v.len() != n || n > N {
        return false;
    }
    let mut same = true;
    macro_rules! at {
        ($($i:literal)*) => { $( if $i < N && $i < n && v[$i] != data[$i] { same = false; } )* };
    }
    at!(0 1 2 3 4 5 6 7 8 9 10 11 12 13 14 15 16 17);
    assert!(N <= 18);
    same
}

/// A `Vec<u8>` equal to `data[..n]` built without a symbolic-length loop.
pub(crate) fn vec_of<const N: usize>(data: &[u8; N], n: usize) -> Vec<u8> {
    let mut v = data.to_vec();
    v.truncate(n);
    v
}

/// An ASCII `String` equal to `data[..n]` (caller guarantees `data[i] < 128`).
pub(crate) fn ascii_string_of<const N: usize>(data: &[u8; N], n: usize) -> String {
    unsafe { String::from_utf8_unchecked(vec_of(data, n)) }
}

pub(crate) fn all_ascii<const N: usize>(data: &[u8; N]) -> bool {
    let mut okk = true;
    macro_rules! at {
        ($($i:literal)*) => { $( if $i < N && data[$i] >= 128 { okk = false; } )* };
    }
    at!(0 1 2 3 4 5 6 7 8 9 10 11 12 13 14 15 16 17);
    assert!(N <= 18);
    okk
}

/// Checks an index produced for an inline (<= 15 bytes) payload.
pub(crate) fn c12_check_inline_index<const N: usize>(idx: &DbValueIndex, ty: u8, data: &[u8; N], n: usize) {
    assert!(idx.get_type() == ty, "type tag of the stored value");
    assert!(idx.is_value(), "small value must be stored inline");
    assert!(idx.size() as usize == n, "inline size");
    assert!(same_bytes(idx.value(), data, n), "inline payload bytes");
}

/// Checks an index produced for an out-of-line payload and the record it names.
pub(crate) fn c12_check_stored_index(idx: &DbValueIndex, ty: u8, s: &Storage<ArrStorage>, record_size: u64) {
    assert!(idx.get_type() == ty, "type tag of the stored value");
    assert!(!idx.is_value(), "large value must be stored out of line");
    assert!(idx.size() == 0, "index entry has no inline size");
    assert!(idx.index() != 0, "storage index is never 0");
    let size = ok(s.value_size(StorageIndex(idx.index())));
    assert!(size == record_size, "size of the out-of-line record");
}

// ---------------------------------------------------------------------------
// C12: scalars
// ---------------------------------------------------------------------------

fn c12_scalar_roundtrip(which: u8) {
    let mut s = fresh_arr_storage();
    let bits: u64 = kani::any();
    let le = bits.to_le_bytes();
    let (val, ty) = match which {
        0 => (DbValue::I64(bits as i64), 2u8),
        1 => (DbValue::U64(bits), 3u8),
        _ => (DbValue::F64(DbF64::from(f64::from_bits(bits))), 4u8),
    };
    let len0 = s.len();
    let idx = ok(val.store_db_value(&mut s));
    c12_check_inline_index(&idx, ty, &le, 8);
    assert!(backend_calls(&s) == 0 && s.len() == len0, "inline value must not touch the storage");
    assert!(!is_ok(s.value_size(StorageIndex(1))), "inline value must not allocate a record");

    // through the serialized form of the index, as DbKeyValue stores it
    let img = idx.serialize();
    let idx2 = ok(DbValueIndex::deserialize(&img));
    // an inline value does not depend on the storage at all: the second load
    // uses a different (empty) storage, which is what a reopened file is here
    let s2 = fresh_arr_storage();
    let mut round = 0;
    while round < 2 {
        let back = if round == 0 {
            ok(DbValue::load_db_value(idx, &s))
        } else {
            ok(DbValue::load_db_value(idx2, &s2))
        };
        match (which, &back) {
            (0, DbValue::I64(v)) => assert!(*v as u64 == bits, "i64 reads back identical"),
            (1, DbValue::U64(v)) => assert!(*v == bits, "u64 reads back identical"),
            (2, DbValue::F64(v)) => assert!(v.to_f64().to_bits() == bits, "f64 reads back bit for bit"),
            _ => panic!("loaded value has a different type"),
        }
        std::mem::forget(back);
        round += 1;
    }
    kani::cover!(which != 2 || (f64::from_bits(bits).is_nan() && bits & 1 == 1), "NaN with payload");
    kani::cover!(which != 2 || bits == 0x8000_0000_0000_0000, "negative zero");
    kani::cover!(which != 0 || bits as i64 == i64::MIN, "i64::MIN");
    kani::cover!(which != 1 || bits == u64::MAX, "u64::MAX");
    kani::cover!(true, "end of harness reachable");
    std::mem::forget(img);
    std::mem::forget(val);
    std::mem::forget(s);
    std::mem::forget(s2);
}

//@ id=C12 tier=quick timeout=300 bounds="I64: all 2^64 values" desc="store_db_value keeps an i64 inline (8 bytes LE, no back-end write); load_db_value returns I64 with the same value, also through DbValueIndex serialize/deserialize and from a different storage" kernel="DbValue::store_db_value,DbValue::load_db_value,DbValueIndex::set_type,DbValueIndex::set_value,DbValueIndex::value,DbValueIndex::get_type,DbValueIndex::serialize,DbValueIndex::deserialize"
#[kani::proof]
#[kani::stub(std::fmt::format, crate::verif_support::fmt_stub)]
#[kani::stub(crate::DbError::new, crate::verif_support::dberror_new_stub)]
#[kani::unwind(4)]
fn c12_i64_roundtrip() {
    c12_scalar_roundtrip(0);
}

//@ id=C12 tier=quick timeout=300 bounds="U64: all 2^64 values" desc="store_db_value keeps a u64 inline (8 bytes LE, no back-end write); load_db_value returns U64 with the same value, also through DbValueIndex serialize/deserialize and from a different storage" kernel="DbValue::store_db_value,DbValue::load_db_value,DbValueIndex::set_type,DbValueIndex::set_value,DbValueIndex::value,DbValueIndex::get_type,DbValueIndex::serialize,DbValueIndex::deserialize"
#[kani::proof]
#[kani::stub(std::fmt::format, crate::verif_support::fmt_stub)]
#[kani::stub(crate::DbError::new, crate::verif_support::dberror_new_stub)]
#[kani::unwind(4)]
fn c12_u64_roundtrip() {
    c12_scalar_roundtrip(1);
}

//@ id=C12 tier=quick timeout=300 bounds="F64: all 2^64 bit patterns (NaN payloads, signed zeros, subnormals, infinities)" desc="store_db_value keeps an f64 inline (8 bytes LE, no back-end write); load_db_value returns F64 with identical bits (to_bits), also through DbValueIndex serialize/deserialize and from a different storage" kernel="DbValue::store_db_value,DbValue::load_db_value,DbF64::to_f64,DbValueIndex::set_type,DbValueIndex::set_value,DbValueIndex::value,DbValueIndex::get_type,DbValueIndex::serialize,DbValueIndex::deserialize"
#[kani::proof]
#[kani::stub(std::fmt::format, crate::verif_support::fmt_stub)]
#[kani::stub(crate::DbError::new, crate::verif_support::dberror_new_stub)]
#[kani::unwind(4)]
fn c12_f64_roundtrip() {
    c12_scalar_roundtrip(2);
}

// ---------------------------------------------------------------------------
// C12: Bytes and String across the 15/16-byte inline boundary
// ---------------------------------------------------------------------------

/// Builds the value under test (callers pass a CONCRETE `n`: the type/size
/// byte of the index then stays a constant for CBMC, so `load_db_value` is not
/// explored for all nine types).
pub(crate) fn c12_make(is_string: bool, data: &[u8; 17], n: usize) -> (DbValue, u8) {
    if is_string {
        (DbValue::String(ascii_string_of(data, n)), 5u8)
    } else {
        (DbValue::Bytes(vec_of(data, n)), 1u8)
    }
}

pub(crate) fn c12_check_loaded(back: &DbValue, is_string: bool, data: &[u8; 17], n: usize) {
    match back {
        DbValue::Bytes(v) => {
            assert!(!is_string, "loaded value has a different type");
            assert!(same_bytes(v.as_slice(), data, n), "bytes read back identical");
        }
        DbValue::String(v) => {
            assert!(is_string, "loaded value has a different type");
            assert!(same_bytes(v.as_bytes(), data, n), "string reads back identical");
        }
        _ => panic!("loaded value has a different type"),
    }
}

/// Inline case (n <= 15): store into `s`, load from `s` and - through the
/// serialized index - from the unrelated storage `other`.
fn c12_inline_roundtrip(
    s: &mut Storage<ArrStorage>,
    other: &Storage<ArrStorage>,
    is_string: bool,
    data: &[u8; 17],
    n: usize,
) {
    let (val, ty) = c12_make(is_string, data, n);
    let len0 = s.len();
    let idx = ok(val.store_db_value(s));
    c12_check_inline_index(&idx, ty, data, n);
    assert!(backend_calls(s) == 0 && s.len() == len0, "inline value must not touch the storage");
    assert!(!is_ok(s.value_size(StorageIndex(1))), "inline value must not allocate a record");
    let img = idx.serialize();
    let idx2 = ok(DbValueIndex::deserialize(&img));
    assert!(same_bytes(&idx2.data(), &idx.data(), 16), "index survives its serialized form");
    let back = ok(DbValue::load_db_value(idx, s));
    c12_check_loaded(&back, is_string, data, n);
    let back2 = ok(DbValue::load_db_value(idx2, other));
    c12_check_loaded(&back2, is_string, data, n);
    std::mem::forget(back);
    std::mem::forget(back2);
    std::mem::forget(img);
    std::mem::forget(val);
}

/// Out-of-line case (n >= 16): one record; load from the storage and from a
/// storage reopened through the real open path from a copy of the bytes.
fn c12_stored_roundtrip(is_string: bool, n: usize) {
    let data: [u8; 17] = kani::any();
    if is_string {
        kani::assume(all_ascii(&data));
    }
    c12_stored_roundtrip_of(is_string, n, data);
}

fn c12_stored_roundtrip_of(is_string: bool, n: usize, data: [u8; 17]) {
    let mut s = fresh_arr_storage();
    let (val, ty) = c12_make(is_string, &data, n);
    let len0 = s.len();
    let idx = ok(val.store_db_value(&mut s));
    // Bytes are stored raw, a String with its 8-byte length prefix
    let record = if is_string { 8 + n as u64 } else { n as u64 };
    c12_check_stored_index(&idx, ty, &s, record);
    assert!(idx.index() == 1, "first record of an empty storage");
    assert!(s.len() == len0 + 16 + record, "exactly one record appended");
    assert!(!is_ok(s.value_size(StorageIndex(2))), "only one record allocated");
    let img = idx.serialize();
    let idx2 = ok(DbValueIndex::deserialize(&img));
    assert!(same_bytes(&idx2.data(), &idx.data(), 16), "index survives its serialized form");
    let back = ok(DbValue::load_db_value(idx, &s));
    c12_check_loaded(&back, is_string, &data, n);
    let s2 = reopen(&s);
    let back2 = ok(DbValue::load_db_value(idx2, &s2));
    c12_check_loaded(&back2, is_string, &data, n);
    std::mem::forget(back);
    std::mem::forget(back2);
    std::mem::forget(img);
    std::mem::forget(val);
    std::mem::forget(s);
    std::mem::forget(s2);
}

/// Content for the inline String sweep. `String::from_utf8_lossy` (used by
/// `load_db_value` for inline strings) over symbolic bytes explodes in CBMC
/// (1 length with 2 symbolic bytes: 146 s; fully symbolic: no result in 400 s;
/// concrete: 1 s), so the sweep uses position-dependent concrete ASCII.
/// Symbolic string content is covered by `c12_string_utf8_inline` (<= 4 bytes)
/// and the out-of-line harnesses; symbolic payload bytes of every inline
/// length by the Bytes sweep and `c12_index_set_value_every_length`.
fn c12_sweep_string_data(_n: usize) -> [u8; 17] {
    [
        b'a', b'B', b'c', b'D', b'e', b'F', b'g', b'H', b'i', b'J', b'k', b'L', b'm', b'N', b'o', b'P', b'q',
    ]
}

/// Every length 0..=15 (unrolled: `n` is a literal in each call).
fn c12_inline_sweep(is_string: bool) {
    let mut s = fresh_arr_storage();
    let other = fresh_arr_storage();
    macro_rules! each {
        ($($n:literal)*) => { $(
            let data: [u8; 17] = if is_string { c12_sweep_string_data($n) } else { kani::any() };
            c12_inline_roundtrip(&mut s, &other, is_string, &data, $n);
        )* };
    }
    each!(0 1 2 3 4 5 6 7 8 9 10 11 12 13 14 15);
    kani::cover!(true, "end of harness reachable");
    std::mem::forget(s);
    std::mem::forget(other);
}

//@ id=C12 tier=quick timeout=600 bounds="Bytes, every length 0..=15 (enumerated), content fully symbolic" desc="every inline-size Bytes value is stored inline (type tag, size, payload) without any back-end write or record, and load_db_value returns identical content from the same and from an unrelated storage" kernel="DbValue::store_db_value,DbValue::load_db_value,DbValueIndex::set_value,DbValueIndex::set_index,DbValueIndex::is_value,Storage::insert_bytes,Storage::insert,Storage::value,Storage::value_as_bytes,Storage::with_data,String::serialize,String::deserialize"
#[kani::proof]
#[kani::stub(std::fmt::format, crate::verif_support::fmt_stub)]
#[kani::stub(crate::DbError::new, crate::verif_support::dberror_new_stub)]
#[kani::stub(<crate::DbError as std::convert::From<std::string::FromUtf8Error>>::from, crate::verif_support::utf8err_stub)]
#[kani::unwind(4)]
fn c12_bytes_inline_all_lengths() {
    c12_inline_sweep(false);
}

//@ id=C12 tier=quick timeout=900 bounds="ASCII String, every length 0..=15 (enumerated); content: distinct concrete letters (prefixes of aBcDeFgHiJkLmNo)" desc="every inline-size String is stored inline (type tag, size, payload) without any back-end write or record, and load_db_value returns the identical string from the same and from an unrelated storage" cbmc="--unwindset _RNvXs2_NtNtCs8xvirJzNMvV_4core3str5lossyNtB5_10Utf8ChunksNtNtNtNtB9_4iter6traits8iterator8Iterator4next.0:17" kernel="DbValue::store_db_value,DbValue::load_db_value,DbValueIndex::set_value,DbValueIndex::set_index,DbValueIndex::is_value,Storage::insert_bytes,Storage::insert,Storage::value,Storage::value_as_bytes,Storage::with_data,String::serialize,String::deserialize"
#[kani::proof]
#[kani::stub(std::fmt::format, crate::verif_support::fmt_stub)]
#[kani::stub(crate::DbError::new, crate::verif_support::dberror_new_stub)]
#[kani::stub(<crate::DbError as std::convert::From<std::string::FromUtf8Error>>::from, crate::verif_support::utf8err_stub)]
#[kani::unwind(4)]
fn c12_string_inline_all_lengths() {
    c12_inline_sweep(true);
}

pub(crate) fn c12_data_from_str(t: &str) -> [u8; 17] {
    let b = t.as_bytes();
    let mut data = [0u8; 17];
    macro_rules! at {
        ($($i:literal)*) => { $( if $i < b.len() { data[$i] = b[$i]; } )* };
    }
    at!(0 1 2 3 4 5 6 7 8 9 10 11 12 13 14 15 16);
    data
}

// Symbolic non-ASCII content is out of reach for the inline path: 2 symbolic
// UTF-8 bytes through `String::from_utf8_lossy` made the solver run out of
// memory (10 GB) - measured. Concrete multi-byte strings instead, including a
// 15-byte one (largest inline) whose last scalar is 4 bytes wide.
//@ id=C12 tier=quick timeout=600 bounds="concrete non-ASCII strings: 2-, 3-, 4-byte scalars alone (U+00E9, U+20AC, U+1F600, U+10FFFF) and a 15-byte mix of all widths" desc="multi-byte UTF-8 strings up to the inline limit are stored inline and read back with identical bytes from the same and from an unrelated storage" cbmc="--unwindset _RNvXs2_NtNtCs8xvirJzNMvV_4core3str5lossyNtB5_10Utf8ChunksNtNtNtNtB9_4iter6traits8iterator8Iterator4next.0:17" kernel="DbValue::store_db_value,DbValue::load_db_value,DbValueIndex::set_value,DbValueIndex::set_index,DbValueIndex::is_value,Storage::insert,Storage::value,Storage::with_data,String::serialize,String::deserialize"
#[kani::proof]
#[kani::stub(std::fmt::format, crate::verif_support::fmt_stub)]
#[kani::stub(crate::DbError::new, crate::verif_support::dberror_new_stub)]
#[kani::stub(<crate::DbError as std::convert::From<std::string::FromUtf8Error>>::from, crate::verif_support::utf8err_stub)]
#[kani::unwind(4)]
fn c12_string_utf8_inline() {
    let mut s = fresh_arr_storage();
    let other = fresh_arr_storage();
    macro_rules! each {
        ($(($t:literal, $n:literal))*) => { $(
            assert!($t.len() == $n);
            let data = c12_data_from_str($t);
            c12_inline_roundtrip(&mut s, &other, true, &data, $n);
        )* };
    }
    each!(("\u{e9}", 2) ("\u{20ac}", 3) ("\u{1f600}", 4) ("\u{10ffff}", 4) ("ab\u{e9}\u{20ac}cdef\u{1f600}", 15));
    kani::cover!(true, "end of harness reachable");
    std::mem::forget(s);
    std::mem::forget(other);
}

//@ id=C12 tier=quick timeout=900 bounds="Bytes of exactly 16 symbolic bytes (smallest out-of-line size)" desc="16-byte Bytes goes to exactly one storage record (raw bytes) and reads back identical from the storage and from a storage reopened via Storage::with_data from a copy of the bytes" cbmc="--max-field-sensitivity-array-size 200" kernel="DbValue::store_db_value,DbValue::load_db_value,DbValueIndex::set_value,DbValueIndex::set_index,DbValueIndex::is_value,Storage::insert_bytes,Storage::insert,Storage::value,Storage::value_as_bytes,Storage::with_data,String::serialize,String::deserialize"
#[kani::proof]
#[kani::stub(std::fmt::format, crate::verif_support::fmt_stub)]
#[kani::stub(crate::DbError::new, crate::verif_support::dberror_new_stub)]
#[kani::stub(<crate::DbError as std::convert::From<std::string::FromUtf8Error>>::from, crate::verif_support::utf8err_stub)]
#[kani::unwind(4)]
fn c12_bytes16_reopen() {
    c12_stored_roundtrip(false, 16);
    kani::cover!(true, "end of harness reachable");
}

//@ id=C12 tier=quick timeout=900 bounds="Bytes of exactly 17 symbolic bytes (one past the boundary)" desc="17-byte Bytes goes to exactly one storage record (raw bytes) and reads back identical from the storage and from a storage reopened via Storage::with_data from a copy of the bytes" cbmc="--max-field-sensitivity-array-size 200" kernel="DbValue::store_db_value,DbValue::load_db_value,DbValueIndex::set_value,DbValueIndex::set_index,DbValueIndex::is_value,Storage::insert_bytes,Storage::insert,Storage::value,Storage::value_as_bytes,Storage::with_data,String::serialize,String::deserialize"
#[kani::proof]
#[kani::stub(std::fmt::format, crate::verif_support::fmt_stub)]
#[kani::stub(crate::DbError::new, crate::verif_support::dberror_new_stub)]
#[kani::stub(<crate::DbError as std::convert::From<std::string::FromUtf8Error>>::from, crate::verif_support::utf8err_stub)]
#[kani::unwind(4)]
fn c12_bytes17_reopen() {
    c12_stored_roundtrip(false, 17);
    kani::cover!(true, "end of harness reachable");
}

//@ id=C12 tier=quick timeout=900 bounds="ASCII String of exactly 16 symbolic bytes (smallest out-of-line size)" desc="16-byte ASCII String goes to exactly one storage record (8-byte length + bytes) and reads back identical from the storage and from a storage reopened via Storage::with_data from a copy of the bytes" cbmc="--max-field-sensitivity-array-size 200" kernel="DbValue::store_db_value,DbValue::load_db_value,DbValueIndex::set_value,DbValueIndex::set_index,DbValueIndex::is_value,Storage::insert_bytes,Storage::insert,Storage::value,Storage::value_as_bytes,Storage::with_data,String::serialize,String::deserialize"
#[kani::proof]
#[kani::stub(std::fmt::format, crate::verif_support::fmt_stub)]
#[kani::stub(crate::DbError::new, crate::verif_support::dberror_new_stub)]
#[kani::stub(<crate::DbError as std::convert::From<std::string::FromUtf8Error>>::from, crate::verif_support::utf8err_stub)]
#[kani::unwind(4)]
fn c12_string16_reopen() {
    c12_stored_roundtrip(true, 16);
    kani::cover!(true, "end of harness reachable");
}

//@ id=C12 tier=quick timeout=900 bounds="ASCII String of exactly 17 symbolic bytes (one past the boundary)" desc="17-byte ASCII String goes to exactly one storage record (8-byte length + bytes) and reads back identical from the storage and from a storage reopened via Storage::with_data from a copy of the bytes" cbmc="--max-field-sensitivity-array-size 200" kernel="DbValue::store_db_value,DbValue::load_db_value,DbValueIndex::set_value,DbValueIndex::set_index,DbValueIndex::is_value,Storage::insert_bytes,Storage::insert,Storage::value,Storage::value_as_bytes,Storage::with_data,String::serialize,String::deserialize"
#[kani::proof]
#[kani::stub(std::fmt::format, crate::verif_support::fmt_stub)]
#[kani::stub(crate::DbError::new, crate::verif_support::dberror_new_stub)]
#[kani::stub(<crate::DbError as std::convert::From<std::string::FromUtf8Error>>::from, crate::verif_support::utf8err_stub)]
#[kani::unwind(4)]
fn c12_string17_reopen() {
    c12_stored_roundtrip(true, 17);
    kani::cover!(true, "end of harness reachable");
}

/// Store half only (no UTF-8 validation of bytes read back, which is what makes
/// the load of out-of-line non-ASCII strings infeasible): where does a
/// non-ASCII string of `bytes` go, judged by its BYTE length?
fn c12_store_placement(text: &str) {
    let mut s = fresh_arr_storage();
    let len0 = s.len();
    let n = text.len();
    let val = DbValue::String(text.to_string());
    let idx = ok(val.store_db_value(&mut s));
    if n <= 15 {
        assert!(idx.is_value(), "a string of <= 15 BYTES is stored inline");
        assert!(idx.size() as usize == n, "inline size is the byte length");
        assert!(s.len() == len0, "inline values allocate nothing");
    } else {
        assert!(!idx.is_value(), "a string of >= 16 BYTES is stored out of line whatever its character count");
        assert!(idx.index() == 1, "first record of an empty storage");
        assert!(s.len() == len0 + 16 + 8 + n as u64, "exactly one record of 8 + byte length");
        let raw = ok(s.value_as_bytes(StorageIndex(1)));
        assert!(raw.len() == 8 + n, "record holds length prefix + bytes");
        assert!(raw[0] as usize == n && raw[1] == 0, "length prefix is the byte length");
        let tb = text.as_bytes();
        assert!(raw[8] == tb[0] && raw[8 + n - 1] == tb[n - 1], "first and last byte stored");
        std::mem::forget(raw);
    }
    std::mem::forget(val);
    std::mem::forget(s);
}

//@ id=C12 tier=quick timeout=900 bounds="five concrete non-ASCII strings: 8 chars/16 bytes, 4 chars/16 bytes, 15 chars/16 bytes, 7 chars/14 bytes, 15 chars/17 bytes" desc="inline vs out-of-line placement of a string is decided by its BYTE length: a non-ASCII string of 16+ bytes but fewer than 16 characters is written to a storage record of exactly 8 + byte-length bytes (not dropped, not truncated)" cbmc="--max-field-sensitivity-array-size 200" kernel="DbValue::store_db_value,DbValueIndex::set_value,DbValueIndex::set_index,Storage::insert,String::serialize"
#[kani::proof]
#[kani::stub(std::fmt::format, crate::verif_support::fmt_stub)]
#[kani::stub(crate::DbError::new, crate::verif_support::dberror_new_stub)]
#[kani::unwind(20)]
fn c12_string_nonascii_placement_by_byte_length() {
    c12_store_placement("\u{e9}\u{e9}\u{e9}\u{e9}\u{e9}\u{e9}\u{e9}\u{e9}");
    c12_store_placement("\u{1f980}\u{1f980}\u{1f980}\u{1f980}");
    c12_store_placement("aaaaaaaaaaaaaa\u{e9}");
    c12_store_placement("\u{e9}\u{e9}\u{e9}\u{e9}\u{e9}\u{e9}\u{e9}");
    c12_store_placement("aaaaaaaaaaaaa\u{e9}\u{e9}");
    kani::cover!(true, "end of harness reachable");
}

// Out-of-line NON-ASCII strings are not covered: a 16-byte string with a
// symbolic valid-UTF-8 tail of 4 bytes, and even two concrete multi-byte
// strings of 16/17 bytes with reopen, did not finish in 900 s (UTF-8
// validation of bytes read back from the 192-byte storage array).

// ---------------------------------------------------------------------------
// C12: vectors (always out of line), 0, 1 and 2 elements, in one storage
// ---------------------------------------------------------------------------

pub(crate) fn c12_make_num_vec(which: u8, e: &[u64]) -> DbValue {
    match which {
        0 => {
            let mut v = Vec::with_capacity(2);
            if e.len() > 0 { v.push(e[0] as i64); }
            if e.len() > 1 { v.push(e[1] as i64); }
            DbValue::VecI64(v)
        }
        1 => {
            let mut v = Vec::with_capacity(2);
            if e.len() > 0 { v.push(e[0]); }
            if e.len() > 1 { v.push(e[1]); }
            DbValue::VecU64(v)
        }
        _ => {
            let mut v = Vec::with_capacity(2);
            if e.len() > 0 { v.push(DbF64::from(f64::from_bits(e[0]))); }
            if e.len() > 1 { v.push(DbF64::from(f64::from_bits(e[1]))); }
            DbValue::VecF64(v)
        }
    }
}

pub(crate) fn c12_check_num_vec(back: &DbValue, which: u8, e: &[u64]) {
    match (which, back) {
        (0, DbValue::VecI64(v)) => {
            assert!(v.len() == e.len(), "vector length");
            if e.len() > 0 { assert!(v[0] as u64 == e[0], "first element"); }
            if e.len() > 1 { assert!(v[1] as u64 == e[1], "second element"); }
        }
        (1, DbValue::VecU64(v)) => {
            assert!(v.len() == e.len(), "vector length");
            if e.len() > 0 { assert!(v[0] == e[0], "first element"); }
            if e.len() > 1 { assert!(v[1] == e[1], "second element"); }
        }
        (2, DbValue::VecF64(v)) => {
            assert!(v.len() == e.len(), "vector length");
            if e.len() > 0 { assert!(v[0].to_f64().to_bits() == e[0], "first element bit for bit"); }
            if e.len() > 1 { assert!(v[1].to_f64().to_bits() == e[1], "second element bit for bit"); }
        }
        _ => panic!("loaded value has a different type"),
    }
}

fn c12_num_vec_roundtrip(which: u8) {
    let ty = 6 + which;
    let mut s = fresh_arr_storage();
    let e: [u64; 3] = kani::any();
    let v0 = c12_make_num_vec(which, &e[0..0]);
    let v1 = c12_make_num_vec(which, &e[0..1]);
    let v2 = c12_make_num_vec(which, &e[1..3]);
    let i0 = ok(v0.store_db_value(&mut s));
    let i1 = ok(v1.store_db_value(&mut s));
    let i2 = ok(v2.store_db_value(&mut s));
    // vectors are always out of line, even the empty one: 8-byte count + 8 per element
    c12_check_stored_index(&i0, ty, &s, 8);
    c12_check_stored_index(&i1, ty, &s, 16);
    c12_check_stored_index(&i2, ty, &s, 24);
    assert!(i0.index() == 1 && i1.index() == 2 && i2.index() == 3, "three distinct records");
    assert!(s.len() == 24 + (16 + 8) + (16 + 16) + (16 + 24), "exactly three records appended");
    let b0 = ok(DbValue::load_db_value(i0, &s));
    let b1 = ok(DbValue::load_db_value(i1, &s));
    let b2 = ok(DbValue::load_db_value(i2, &s));
    c12_check_num_vec(&b0, which, &e[0..0]);
    c12_check_num_vec(&b1, which, &e[0..1]);
    c12_check_num_vec(&b2, which, &e[1..3]);
    let s2 = reopen(&s);
    let j0 = ok(DbValueIndex::deserialize(&i0.serialize()));
    let j1 = ok(DbValueIndex::deserialize(&i1.serialize()));
    let j2 = ok(DbValueIndex::deserialize(&i2.serialize()));
    let r0 = ok(DbValue::load_db_value(j0, &s2));
    let r1 = ok(DbValue::load_db_value(j1, &s2));
    let r2 = ok(DbValue::load_db_value(j2, &s2));
    c12_check_num_vec(&r0, which, &e[0..0]);
    c12_check_num_vec(&r1, which, &e[0..1]);
    c12_check_num_vec(&r2, which, &e[1..3]);
    kani::cover!(e[1] != e[2], "two different elements");
    kani::cover!(true, "end of harness reachable");
    std::mem::forget((v0, v1, v2, b0, b1, b2, r0, r1, r2));
    std::mem::forget(s);
    std::mem::forget(s2);
}

//@ id=C12 tier=quick timeout=900 bounds="VecI64: vectors of 0, 1 and 2 elements (enumerated) stored in one storage, elements all 2^64 values" desc="each vector goes to its own record of 8+8n bytes (also the empty one), and reads back with the same length and elements from the storage and after reopen via Storage::with_data" cbmc="--max-field-sensitivity-array-size 200" kernel="DbValue::store_db_value,DbValue::load_db_value,DbValueIndex::set_index,DbValueIndex::index,DbValueIndex::is_value,Storage::insert,Storage::value,Storage::with_data,Vec<T>::serialize,Vec<T>::deserialize,DbF64::serialize,DbF64::deserialize"
#[kani::proof]
#[kani::stub(std::fmt::format, crate::verif_support::fmt_stub)]
#[kani::stub(crate::DbError::new, crate::verif_support::dberror_new_stub)]
#[kani::stub(<crate::DbError as std::convert::From<std::string::FromUtf8Error>>::from, crate::verif_support::utf8err_stub)]
#[kani::unwind(6)]
fn c12_vec_i64_roundtrip() {
    c12_num_vec_roundtrip(0);
}

//@ id=C12 tier=quick timeout=900 bounds="VecU64: vectors of 0, 1 and 2 elements (enumerated) stored in one storage, elements all 2^64 values" desc="each vector goes to its own record of 8+8n bytes (also the empty one), and reads back with the same length and elements from the storage and after reopen via Storage::with_data" cbmc="--max-field-sensitivity-array-size 200" kernel="DbValue::store_db_value,DbValue::load_db_value,DbValueIndex::set_index,DbValueIndex::index,DbValueIndex::is_value,Storage::insert,Storage::value,Storage::with_data,Vec<T>::serialize,Vec<T>::deserialize,DbF64::serialize,DbF64::deserialize"
#[kani::proof]
#[kani::stub(std::fmt::format, crate::verif_support::fmt_stub)]
#[kani::stub(crate::DbError::new, crate::verif_support::dberror_new_stub)]
#[kani::stub(<crate::DbError as std::convert::From<std::string::FromUtf8Error>>::from, crate::verif_support::utf8err_stub)]
#[kani::unwind(6)]
fn c12_vec_u64_roundtrip() {
    c12_num_vec_roundtrip(1);
}

//@ id=C12 tier=quick timeout=900 bounds="VecF64 (all bit patterns, compared by to_bits): vectors of 0, 1 and 2 elements (enumerated) stored in one storage, elements all 2^64 values" desc="each vector goes to its own record of 8+8n bytes (also the empty one), and reads back with the same length and elements from the storage and after reopen via Storage::with_data" cbmc="--max-field-sensitivity-array-size 200" kernel="DbValue::store_db_value,DbValue::load_db_value,DbValueIndex::set_index,DbValueIndex::index,DbValueIndex::is_value,Storage::insert,Storage::value,Storage::with_data,Vec<T>::serialize,Vec<T>::deserialize,DbF64::serialize,DbF64::deserialize"
#[kani::proof]
#[kani::stub(std::fmt::format, crate::verif_support::fmt_stub)]
#[kani::stub(crate::DbError::new, crate::verif_support::dberror_new_stub)]
#[kani::stub(<crate::DbError as std::convert::From<std::string::FromUtf8Error>>::from, crate::verif_support::utf8err_stub)]
#[kani::unwind(6)]
fn c12_vec_f64_roundtrip() {
    c12_num_vec_roundtrip(2);
}

fn c12_check_str_vec(back: &DbValue, n: usize, a: &[u8; 3], la: usize, b: &[u8; 3], lb: usize) {
    match back {
        DbValue::VecString(v) => {
            assert!(v.len() == n, "vector length");
            if n > 0 { assert!(same_bytes(v[0].as_bytes(), a, la), "first string identical"); }
            if n > 1 { assert!(same_bytes(v[1].as_bytes(), b, lb), "second string identical"); }
        }
        _ => panic!("loaded value has a different type"),
    }
}

//@ id=C12 tier=quick timeout=900 bounds="VecString: [], [s1] and [s2, s3] stored in one storage; s1 = 2, s2 = 0, s3 = 3 symbolic ASCII bytes" desc="each string vector goes to its own record of 8 + sum(8+len) bytes (also the empty one) and reads back with the same length and identical strings (incl. an empty string element) from the storage and after reopen via Storage::with_data" cbmc="--max-field-sensitivity-array-size 200" kernel="DbValue::store_db_value,DbValue::load_db_value,DbValueIndex::set_index,DbValueIndex::index,DbValueIndex::is_value,Storage::insert,Storage::value,Storage::with_data,Vec<String>::serialize,Vec<String>::deserialize,String::serialize,String::deserialize"
#[kani::proof]
#[kani::stub(std::fmt::format, crate::verif_support::fmt_stub)]
#[kani::stub(crate::DbError::new, crate::verif_support::dberror_new_stub)]
#[kani::stub(<crate::DbError as std::convert::From<std::string::FromUtf8Error>>::from, crate::verif_support::utf8err_stub)]
#[kani::unwind(6)]
fn c12_vec_string_roundtrip() {
    let mut s = fresh_arr_storage();
    let a: [u8; 3] = kani::any();
    let b: [u8; 3] = kani::any();
    kani::assume(all_ascii(&a) && all_ascii(&b));
    let none = [0u8; 3];
    let v0 = DbValue::VecString(Vec::new());
    let mut w1 = Vec::with_capacity(1);
    w1.push(ascii_string_of(&a, 2));
    let v1 = DbValue::VecString(w1);
    let mut w2 = Vec::with_capacity(2);
    w2.push(String::new());
    w2.push(ascii_string_of(&b, 3));
    let v2 = DbValue::VecString(w2);
    let i0 = ok(v0.store_db_value(&mut s));
    let i1 = ok(v1.store_db_value(&mut s));
    let i2 = ok(v2.store_db_value(&mut s));
    c12_check_stored_index(&i0, 9, &s, 8);
    c12_check_stored_index(&i1, 9, &s, 8 + 8 + 2);
    c12_check_stored_index(&i2, 9, &s, 8 + 8 + 0 + 8 + 3);
    assert!(i0.index() == 1 && i1.index() == 2 && i2.index() == 3, "three distinct records");
    let b0 = ok(DbValue::load_db_value(i0, &s));
    let b1 = ok(DbValue::load_db_value(i1, &s));
    let b2 = ok(DbValue::load_db_value(i2, &s));
    c12_check_str_vec(&b0, 0, &none, 0, &none, 0);
    c12_check_str_vec(&b1, 1, &a, 2, &none, 0);
    c12_check_str_vec(&b2, 2, &none, 0, &b, 3);
    let s2 = reopen(&s);
    let j0 = ok(DbValueIndex::deserialize(&i0.serialize()));
    let j1 = ok(DbValueIndex::deserialize(&i1.serialize()));
    let j2 = ok(DbValueIndex::deserialize(&i2.serialize()));
    let r0 = ok(DbValue::load_db_value(j0, &s2));
    let r1 = ok(DbValue::load_db_value(j1, &s2));
    let r2 = ok(DbValue::load_db_value(j2, &s2));
    c12_check_str_vec(&r0, 0, &none, 0, &none, 0);
    c12_check_str_vec(&r1, 1, &a, 2, &none, 0);
    c12_check_str_vec(&r2, 2, &none, 0, &b, 3);
    kani::cover!(a[0] != a[1], "different characters");
    kani::cover!(true, "end of harness reachable");
    std::mem::forget((v0, v1, v2, b0, b1, b2, r0, r1, r2));
    std::mem::forget(s);
    std::mem::forget(s2);
}

// ---------------------------------------------------------------------------
// C07: decoding a damaged value index never panics
// ---------------------------------------------------------------------------

/// A small VALID storage: record 1 = String "abc" (8-byte length + 3 bytes),
/// record 2 = Vec<i64> [7] (8-byte count + 8 bytes).
pub(crate) fn c07_small_storage() -> Storage<ArrStorage> {
    let mut s = fresh_arr_storage();
    let i1 = ok(s.insert(&String::from("abc")));
    let mut v = Vec::with_capacity(1);
    v.push(7_i64);
    let i2 = ok(s.insert(&v));
    assert!(i1.0 == 1 && i2.0 == 2);
    std::mem::forget(v);
    s
}

// Encoding note: a symbolic type nibble makes CBMC walk all nine arms of
// `load_db_value` including the storage reads with symbolic record index
// (3.3 M steps, solver out of memory at 10 GB - measured). The type/size byte
// is therefore ENUMERATED (all 256 values of byte 15 that are in scope) and
// only the 15 payload bytes are symbolic; storage indexes are enumerated too.

/// One decode of an index with byte 15 = (t << 4) | sz and arbitrary payload,
/// for the (t, sz) that make `load_db_value` decide WITHOUT reading the
/// storage: every tag except the vector tags 6..=9; Bytes/String only when
/// `is_value()` (sz != 0, or sz == 0 with storage index 0).
/// Restriction for cost (stated in `bounds`): inline String of at most 2 bytes
/// (`String::from_utf8_lossy` over more symbolic bytes does not finish).
fn c07_decode_inline(s: &Storage<ArrStorage>, t: u8, sz: u8, wellformed_only: bool) {
    if t >= 6 && t <= 9 {
        return;
    }
    if t == 5 && sz > 2 {
        return;
    }
    if wellformed_only {
        // what store_db_value can write into byte 15
        if t < 1 || t > 5 {
            return;
        }
        if t >= 2 && t <= 4 && sz != 8 {
            return;
        }
    }
    let mut raw: [u8; 16] = kani::any();
    raw[15] = (t << 4) | sz;
    if (t == 1 || t == 5) && sz == 0 {
        // empty inline value: storage index 0
        raw[0] = 0; raw[1] = 0; raw[2] = 0; raw[3] = 0;
        raw[4] = 0; raw[5] = 0; raw[6] = 0; raw[7] = 0;
    }
    let idx = ok(DbValueIndex::deserialize(&raw));
    let r = DbValue::load_db_value(idx, s);
    if wellformed_only {
        let n = sz as usize;
        match &r {
            Ok(DbValue::Bytes(v)) => assert!(t == 1 && same_bytes(v.as_slice(), &raw, n), "inline bytes are the payload"),
            Ok(DbValue::I64(v)) => assert!(t == 2 && same_bytes(&v.to_le_bytes(), &raw, 8), "inline i64 is the payload"),
            Ok(DbValue::U64(v)) => assert!(t == 3 && same_bytes(&v.to_le_bytes(), &raw, 8), "inline u64 is the payload"),
            Ok(DbValue::F64(v)) => assert!(t == 4 && same_bytes(&v.to_f64().to_bits().to_le_bytes(), &raw, 8), "inline f64 is the payload"),
            Ok(DbValue::String(v)) => assert!(t == 5 && v.len() <= 3 * n, "inline string (lossy: a bad byte becomes U+FFFD)"),
            _ => panic!("a well-formed inline index must decode to its own type"),
        }
    }
    std::mem::forget(r);
}

/// All 16 size nibbles for one type tag (unrolled: literals keep byte 15 constant).
fn c07_decode_inline_sizes(s: &Storage<ArrStorage>, t: u8, wellformed_only: bool) {
    macro_rules! each {
        ($($sz:literal)*) => { $( c07_decode_inline(s, t, $sz, wellformed_only); )* };
    }
    each!(0 1 2 3 4 5 6 7 8 9 10 11 12 13 14 15);
}

//@ id=C07 tier=quick timeout=600 bounds="byte 15 enumerated: type tag 0 and 10..=15 (no DbValue variant) with every size nibble 0..=15; other 15 bytes symbolic" desc="DbValue::load_db_value on an index with an unknown type tag returns Err (or Ok) and never panics" kernel="DbValue::load_db_value,DbValueIndex::deserialize,DbValueIndex::get_type,DbValueIndex::value,DbValueIndex::is_value,DbValueIndex::index"
#[kani::proof]
#[kani::stub(std::fmt::format, crate::verif_support::fmt_stub)]
#[kani::stub(crate::DbError::new, crate::verif_support::dberror_new_stub)]
#[kani::stub(<crate::DbError as std::convert::From<std::string::FromUtf8Error>>::from, crate::verif_support::utf8err_stub)]
#[kani::stub(<crate::DbError as std::convert::From<std::array::TryFromSliceError>>::from, crate::verif_support::sliceerr_stub)]
#[kani::stub(<crate::DbError as std::convert::From<std::num::TryFromIntError>>::from, crate::verif_support::interr_stub)]
#[kani::unwind(4)]
fn c07_load_db_value_unknown_tag() {
    let s = c07_small_storage();
    c07_decode_inline_sizes(&s, 0, false);
    c07_decode_inline_sizes(&s, 10, false);
    c07_decode_inline_sizes(&s, 11, false);
    c07_decode_inline_sizes(&s, 12, false);
    c07_decode_inline_sizes(&s, 13, false);
    c07_decode_inline_sizes(&s, 14, false);
    c07_decode_inline_sizes(&s, 15, false);
    kani::cover!(true, "end of harness reachable");
    std::mem::forget(s);
}

//@ id=C07 tier=quick timeout=600 bounds="byte 15 enumerated: type tag 2, 3, 4 (I64/U64/F64) with every size nibble 0..=15; other 15 bytes symbolic" desc="DbValue::load_db_value on a scalar index whose inline size is not 8 returns Err (or Ok) and never panics" kernel="DbValue::load_db_value,DbValueIndex::deserialize,DbValueIndex::get_type,DbValueIndex::value,DbValueIndex::is_value,DbValueIndex::index"
#[kani::proof]
#[kani::stub(std::fmt::format, crate::verif_support::fmt_stub)]
#[kani::stub(crate::DbError::new, crate::verif_support::dberror_new_stub)]
#[kani::stub(<crate::DbError as std::convert::From<std::string::FromUtf8Error>>::from, crate::verif_support::utf8err_stub)]
#[kani::stub(<crate::DbError as std::convert::From<std::array::TryFromSliceError>>::from, crate::verif_support::sliceerr_stub)]
#[kani::stub(<crate::DbError as std::convert::From<std::num::TryFromIntError>>::from, crate::verif_support::interr_stub)]
#[kani::unwind(4)]
fn c07_load_db_value_scalar_any_size() {
    let s = c07_small_storage();
    c07_decode_inline_sizes(&s, 2, false);
    c07_decode_inline_sizes(&s, 3, false);
    c07_decode_inline_sizes(&s, 4, false);
    kani::cover!(true, "end of harness reachable");
    std::mem::forget(s);
}

//@ id=C07 tier=quick timeout=600 bounds="byte 15 enumerated: Bytes inline with every size 0..=15, I64/U64/F64 with size 8; payload symbolic" desc="a well-formed inline Bytes/I64/U64/F64 index always decodes (Ok) to a value of its own type made of exactly the payload bytes, whatever they are; never panics" kernel="DbValue::load_db_value,DbValueIndex::deserialize,DbValueIndex::get_type,DbValueIndex::value,DbValueIndex::is_value,DbValueIndex::index"
#[kani::proof]
#[kani::stub(std::fmt::format, crate::verif_support::fmt_stub)]
#[kani::stub(crate::DbError::new, crate::verif_support::dberror_new_stub)]
#[kani::stub(<crate::DbError as std::convert::From<std::string::FromUtf8Error>>::from, crate::verif_support::utf8err_stub)]
#[kani::stub(<crate::DbError as std::convert::From<std::array::TryFromSliceError>>::from, crate::verif_support::sliceerr_stub)]
#[kani::stub(<crate::DbError as std::convert::From<std::num::TryFromIntError>>::from, crate::verif_support::interr_stub)]
#[kani::unwind(4)]
fn c07_load_db_value_wellformed_inline() {
    let s = c07_small_storage();
    c07_decode_inline_sizes(&s, 1, true);
    c07_decode_inline_sizes(&s, 2, true);
    c07_decode_inline_sizes(&s, 3, true);
    c07_decode_inline_sizes(&s, 4, true);
    kani::cover!(true, "end of harness reachable");
    std::mem::forget(s);
}

//@ id=C07 tier=quick timeout=900 bounds="String index with inline size 0, 1, 2 (enumerated), payload bytes symbolic (valid or invalid UTF-8)" desc="an inline String index with arbitrary (also invalid UTF-8) payload decodes to Ok(String) and never panics" kernel="DbValue::load_db_value,DbValueIndex::deserialize,DbValueIndex::get_type,DbValueIndex::value,DbValueIndex::is_value,DbValueIndex::index"
#[kani::proof]
#[kani::stub(std::fmt::format, crate::verif_support::fmt_stub)]
#[kani::stub(crate::DbError::new, crate::verif_support::dberror_new_stub)]
#[kani::stub(<crate::DbError as std::convert::From<std::string::FromUtf8Error>>::from, crate::verif_support::utf8err_stub)]
#[kani::stub(<crate::DbError as std::convert::From<std::array::TryFromSliceError>>::from, crate::verif_support::sliceerr_stub)]
#[kani::stub(<crate::DbError as std::convert::From<std::num::TryFromIntError>>::from, crate::verif_support::interr_stub)]
#[kani::unwind(5)]
fn c07_load_db_value_inline_string() {
    let s = c07_small_storage();
    c07_decode_inline(&s, 5, 0, true);
    c07_decode_inline(&s, 5, 1, true);
    c07_decode_inline(&s, 5, 2, true);
    kani::cover!(true, "end of harness reachable");
    std::mem::forget(s);
}

// Not covered (measured): out-of-line indexes naming records of another type.
// Even 4 enumerated (type, record) cases over the 2-record storage exhausted
// 10 GB in the solver (16 cases: 4.3 M steps, 1041 s, out of memory): the bytes
// read back from the 192-byte storage array are not constants for CBMC, so
// every deserializer loop is unrolled symbolically. Decoding arbitrary record
// CONTENT is the subject of the C21 harnesses (Serialize impls).

// ---------------------------------------------------------------------------
// C07: fixed-size index records (file headers) decoded from arbitrary short buffers
// ---------------------------------------------------------------------------

/// `T::deserialize(&buf[..n])` for symbolic `n <= SIZE + 2` and symbolic bytes:
/// never panics; Ok exactly when at least `SIZE` bytes are present; an accepted
/// record re-serializes to the same `SIZE` bytes (so every field was read from
/// its own offset).
fn c07_fixed_record<T: Serialize, const SIZE: usize, const CAP: usize>() {
    assert!(CAP == SIZE + 2);
    let n: usize = kani::any();
    kani::assume(n <= CAP);
    let buf: [u8; CAP] = kani::any();
    match T::deserialize(&buf[..n]) {
        Ok(v) => {
            assert!(n >= SIZE, "Ok needs the full record");
            assert!(v.serialized_size() == SIZE as u64, "serialized_size");
            let back = v.serialize();
            assert!(back.len() == SIZE, "serialized length");
            let mut i = 0;
            while i < SIZE {
                assert!(back[i] == buf[i], "field bytes round trip");
                i += 1;
            }
            std::mem::forget(back);
            std::mem::forget(v);
        }
        Err(e) => {
            assert!(n < SIZE, "a full record must be accepted");
            std::mem::forget(e);
        }
    }
    kani::cover!(n == SIZE, "exact size");
    kani::cover!(n + 1 == SIZE, "one byte short");
    kani::cover!(n == CAP, "longer than needed");
    kani::cover!(n == 0, "empty buffer");
    kani::cover!(true, "end of harness reachable");
}

//@ id=C07 tier=quick timeout=900 bounds="buffer length 0..=50 symbolic, bytes symbolic" desc="DbStorageIndex::deserialize (root record of a database file) never panics: Err below 48 bytes, otherwise all six fields read from their offsets" kernel="DbStorageIndex::deserialize,DbStorageIndex::serialize,StorageIndex::deserialize,u64::deserialize"
#[kani::proof]
#[kani::stub(std::fmt::format, crate::verif_support::fmt_stub)]
#[kani::stub(crate::DbError::new, crate::verif_support::dberror_new_stub)]
#[kani::stub(<crate::DbError as std::convert::From<std::array::TryFromSliceError>>::from, crate::verif_support::sliceerr_stub)]
#[kani::unwind(52)]
fn c07_db_storage_index_arbitrary() {
    c07_fixed_record::<crate::db::DbStorageIndex, 48, 50>();
}

//@ id=C07 tier=quick timeout=900 bounds="buffer length 0..=34 symbolic, bytes symbolic" desc="GraphDataStorageIndexes::deserialize never panics: Err below 32 bytes, otherwise the four storage indexes read from their offsets" kernel="GraphDataStorageIndexes::deserialize,GraphDataStorageIndexes::serialize,StorageIndex::deserialize"
#[kani::proof]
#[kani::stub(std::fmt::format, crate::verif_support::fmt_stub)]
#[kani::stub(crate::DbError::new, crate::verif_support::dberror_new_stub)]
#[kani::stub(<crate::DbError as std::convert::From<std::array::TryFromSliceError>>::from, crate::verif_support::sliceerr_stub)]
#[kani::unwind(36)]
fn c07_graph_storage_indexes_arbitrary() {
    c07_fixed_record::<crate::graph::GraphDataStorageIndexes, 32, 34>();
}

//@ id=C07 tier=quick timeout=900 bounds="buffer length 0..=34 symbolic, bytes symbolic" desc="MapDataIndex::deserialize never panics: Err below 32 bytes, otherwise len and the three storage indexes read from their offsets" kernel="MapDataIndex::deserialize,MapDataIndex::serialize,StorageIndex::deserialize,u64::deserialize"
#[kani::proof]
#[kani::stub(std::fmt::format, crate::verif_support::fmt_stub)]
#[kani::stub(crate::DbError::new, crate::verif_support::dberror_new_stub)]
#[kani::stub(<crate::DbError as std::convert::From<std::array::TryFromSliceError>>::from, crate::verif_support::sliceerr_stub)]
#[kani::unwind(36)]
fn c07_map_data_index_arbitrary() {
    c07_fixed_record::<crate::collections::map::MapDataIndex, 32, 34>();
}

//@ id=C07 tier=quick timeout=300 bounds="buffer length 0..=10 symbolic, bytes symbolic" desc="StorageIndex::deserialize never panics: Err below 8 bytes, otherwise the little-endian u64" kernel="StorageIndex::deserialize,StorageIndex::serialize,u64::deserialize"
#[kani::proof]
#[kani::stub(std::fmt::format, crate::verif_support::fmt_stub)]
#[kani::stub(crate::DbError::new, crate::verif_support::dberror_new_stub)]
#[kani::stub(<crate::DbError as std::convert::From<std::array::TryFromSliceError>>::from, crate::verif_support::sliceerr_stub)]
#[kani::unwind(12)]
fn c07_storage_index_arbitrary() {
    c07_fixed_record::<StorageIndex, 8, 10>();
}

//@ id=C07 tier=quick timeout=300 bounds="buffer length 0..=3 symbolic, bytes symbolic" desc="MapValueState::deserialize never panics: 0/1/2 in the first byte decode to Empty/Valid/Deleted, anything else or an empty buffer is Err; accepted states re-serialize to the same byte" kernel="MapValueState::deserialize,MapValueState::serialize"
#[kani::proof]
#[kani::stub(std::fmt::format, crate::verif_support::fmt_stub)]
#[kani::stub(crate::DbError::new, crate::verif_support::dberror_new_stub)]
#[kani::unwind(5)]
fn c07_map_value_state_arbitrary() {
    use crate::collections::map::MapValueState;
    let n: usize = kani::any();
    kani::assume(n <= 3);
    let buf: [u8; 3] = kani::any();
    match MapValueState::deserialize(&buf[..n]) {
        Ok(st) => {
            assert!(n >= 1 && buf[0] <= 2, "only 0, 1, 2 are states");
            let expect = match buf[0] {
                0 => MapValueState::Empty,
                1 => MapValueState::Valid,
                _ => MapValueState::Deleted,
            };
            assert!(st == expect, "state decoded from the first byte");
            let back = st.serialize();
            assert!(back.len() == 1 && back[0] == buf[0], "state byte round trip");
            std::mem::forget(back);
        }
        Err(e) => {
            assert!(n == 0 || buf[0] > 2, "valid state byte must be accepted");
            std::mem::forget(e);
        }
    }
    kani::cover!(n == 0, "empty buffer");
    kani::cover!(n > 0 && buf[0] == 2, "Deleted");
    kani::cover!(n > 0 && buf[0] == 255, "garbage state");
    kani::cover!(true, "end of harness reachable");
}

//@ id=C12 tier=quick timeout=600 bounds="all 2^64 f64 bit patterns (NaN payloads, signalling NaNs, signed zeros, subnormals)" desc="the element encoding used for f64 vectors (DbF64::serialize / deserialize) is the IEEE bit pattern, little endian, unchanged in both directions" kernel="DbF64::serialize,DbF64::deserialize,DbF64::from,DbF64::to_f64"
#[kani::proof]
#[kani::stub(std::fmt::format, crate::verif_support::fmt_stub)]
#[kani::stub(crate::DbError::new, crate::verif_support::dberror_new_stub)]
#[kani::unwind(10)]
fn c12_f64_vector_element_encoding_is_bit_exact() {
    use crate::DbF64;
    use crate::utilities::serialize::Serialize;
    let bits: u64 = kani::any();
    let x = DbF64::from(f64::from_bits(bits));
    let out = x.serialize();
    assert!(out.len() == 8, "eight bytes per element");
    let le = bits.to_le_bytes();
    assert!(
        out[0] == le[0] && out[1] == le[1] && out[2] == le[2] && out[3] == le[3]
            && out[4] == le[4] && out[5] == le[5] && out[6] == le[6] && out[7] == le[7],
        "C12: f64 vector element is not stored with its exact bit pattern"
    );
    let back = ok(DbF64::deserialize(&le));
    assert!(back.to_f64().to_bits() == bits, "C12: f64 vector element does not read back with its exact bit pattern");
    kani::cover!(f64::from_bits(bits).is_nan() && bits != f64::NAN.to_bits(), "non-canonical NaN");
    kani::cover!(bits == 0x8000_0000_0000_0000, "negative zero");
    kani::cover!(true, "end of harness reachable");
    std::mem::forget(out);
}
