// harnesses mounted as child module of agdb/src/collections/map.rs
#[allow(unused_imports)]
use super::*;

// =============================================================================
// C10 (mapping kernel, one direction): `MapImpl` = the unique-key map both
// directions of the alias mapping are made of, instantiated
// `<u64, u64, ArrStorage, ArrMap<C>>` (`ArrMap`: array-backed implementation of
// the code base's own `MapData` trait; `StableHash for u64` is the identity, so
// keys 0 / 64 / 128 collide in a 64-slot table and the solver controls
// collisions). Histories start from the empty map as `DbMapData::new` creates it
// (capacity 0; the first insert grows it to the minimum capacity 64).
// Oracle: a reference map kept in plain arrays.
// =============================================================================

use crate::storage::verif_h::fresh_arr_storage;
use crate::verif_support::ArrMap;
use crate::verif_support::ArrStorage;
use crate::verif_support::is_ok;
use crate::verif_support::ok;

pub(crate) type C10MapImpl<const C: usize> = MapImpl<u64, u64, ArrStorage, ArrMap<C>>;

/// The empty map exactly as `DbMap::new` builds it (capacity 0, len 0).
pub(crate) fn c10_empty_map<const C: usize>() -> C10MapImpl<C> {
    MapImpl {
        multi_map: MultiMapImpl {
            data: ArrMap::<C>::empty(0),
            phantom_marker: PhantomData,
        },
        storage: PhantomData,
    }
}

pub(crate) fn c10_data<const C: usize>(m: &C10MapImpl<C>) -> &ArrMap<C> {
    &m.multi_map.data
}

// The raw-table checks scan slots 0..C10_SCAN only: with the key domain below
// every home slot is 0 or 1 and each step makes at most one more slot non-Empty
// per table (a removal turns a Valid slot into a tombstone, it does not occupy
// a new one), so after <= 4 steps only slots 0..=4 can be non-Empty and a probe
// takes at most 5 steps: unwind 6. (Scanning all 64 slots would force the
// global unwind bound to 65 for every probe loop.)
pub(crate) const C10_SCAN: usize = 5;

/// Number of Valid slots (among the first C10_SCAN) whose key is `key`
/// (must be <= 1 in a unique-key map).
pub(crate) fn c10_slots_with_key<const C: usize>(d: &ArrMap<C>, key: u64) -> u64 {
    let mut n = 0u64;
    let mut i = 0;
    while i < C10_SCAN {
        if (i as u64) < d.cap && d.states[i] == 1 && d.keys[i] == key {
            n += 1;
        }
        i += 1;
    }
    n
}

pub(crate) fn c10_valid_slots<const C: usize>(d: &ArrMap<C>) -> u64 {
    let mut n = 0u64;
    let mut i = 0;
    while i < C10_SCAN {
        if (i as u64) < d.cap && d.states[i] == 1 {
            n += 1;
        }
        i += 1;
    }
    n
}

// Small symbolic domains: 0 is also `u64::default()` (what removed slots are
// overwritten with), 0 / 64 / 128 share home slot 0, 1 / 65 share home slot 1.
pub(crate) const C10_DOMAIN: [u64; 5] = [0, 64, 1, 65, 128];

pub(crate) fn c10_any_from_domain() -> u64 {
    let i: usize = kani::any();
    kani::assume(i < C10_DOMAIN.len());
    C10_DOMAIN[i]
}

// reference map: at most one value per key
pub(crate) struct C10RefMap {
    pub used: [bool; 4],
    pub keys: [u64; 4],
    pub values: [u64; 4],
}

impl C10RefMap {
    pub fn new() -> Self {
        Self {
            used: [false; 4],
            keys: [0; 4],
            values: [0; 4],
        }
    }
    pub fn get(&self, key: u64) -> Option<u64> {
        let mut r = None;
        let mut i = 0;
        while i < 4 {
            if self.used[i] && self.keys[i] == key {
                r = Some(self.values[i]);
            }
            i += 1;
        }
        r
    }
    pub fn len(&self) -> u64 {
        let mut n = 0;
        let mut i = 0;
        while i < 4 {
            if self.used[i] {
                n += 1;
            }
            i += 1;
        }
        n
    }
    pub fn remove(&mut self, key: u64) {
        let mut i = 0;
        while i < 4 {
            if self.used[i] && self.keys[i] == key {
                self.used[i] = false;
            }
            i += 1;
        }
    }
    /// slot `at` is the step number: never more entries than steps
    pub fn insert(&mut self, at: usize, key: u64, value: u64) -> Option<u64> {
        let old = self.get(key);
        self.remove(key);
        self.used[at] = true;
        self.keys[at] = key;
        self.values[at] = value;
        old
    }
}

fn c10_map_history<const STEPS: usize>() {
    let mut s = fresh_arr_storage();
    let mut m = c10_empty_map::<64>();
    let mut reference = C10RefMap::new();
    let mut replaced = false;
    let mut reinserted_after_remove = false;
    let mut removed_any = false;
    // remove / lookup on the never-used map (capacity 0)
    let k0 = c10_any_from_domain();
    assert!(is_ok(m.remove(&mut s, &k0)), "remove on the empty map returned Err");
    assert!(ok(m.value(&s, &k0)).is_none(), "empty map resolves a key");
    let mut step = 0;
    while step < STEPS {
        let k = c10_any_from_domain();
        // step 0 is always an insert: it grows the table 0 -> 64, after which the
        // capacity is a constant for CBMC (a symbolic first step makes every
        // later step re-explore the growth path: out of memory)
        if step == 0 || kani::any() {
            let v: u64 = kani::any();
            let expect_old = reference.insert(step, k, v);
            let old = ok(m.insert(&mut s, &k, &v));
            assert!(old == expect_old, "insert must return the value it replaced (None for a new key)");
            if expect_old.is_some() {
                replaced = true;
            }
            if removed_any && expect_old.is_none() {
                reinserted_after_remove = true;
            }
        } else {
            if reference.get(k).is_some() {
                removed_any = true;
            }
            reference.remove(k);
            assert!(is_ok(m.remove(&mut s, &k)), "remove returned Err");
        }
        // observable state agrees with the reference for every key of the domain
        let q = c10_any_from_domain();
        let got = ok(m.value(&s, &q));
        assert!(got == reference.get(q), "value() differs from the reference map");
        let has = ok(m.contains(&s, &q));
        assert!(has == reference.get(q).is_some(), "contains() differs from the reference map");
        assert!(m.len() == reference.len(), "len() differs from the reference map");
        assert!(m.is_empty() == (reference.len() == 0), "is_empty() differs from the reference map");
        // structure: a key occupies at most one Valid slot; len counts the Valid slots
        let d = c10_data(&m);
        assert!(c10_slots_with_key(d, q) <= 1, "a key is stored twice");
        assert!(c10_valid_slots(d) == d.len, "len is not the number of Valid slots");
        step += 1;
    }
    kani::cover!(replaced, "an existing key was replaced");
    kani::cover!(reinserted_after_remove, "insert after a removal (tombstone on the probe path)");
    kani::cover!(reference.len() == STEPS as u64, "all steps inserted distinct keys");
    kani::cover!(m.capacity() == 64, "first insert grew the table to the minimum capacity");
    kani::cover!(true, "end of harness reachable");
    std::mem::forget(m);
    std::mem::forget(s);
}

//@ id=C10 tier=quick timeout=1200 bounds="empty map (capacity 0: remove + lookup, then the first insert grows it to 64); then 2 further symbolic steps insert(k, v) / remove(k) (3 steps in all), k from {0,64,1,65,128} (colliding home slots, 0 = default key), v any u64; after every step one symbolic query key" desc="MapImpl (one direction of the alias mapping) behaves like a reference map: insert returns the replaced value, value/contains/len/is_empty agree after every step, a key occupies at most one slot, len == number of Valid slots" kernel="MapImpl::insert,MapImpl::remove,MapImpl::value,MapImpl::contains,MapImpl::len,MultiMapImpl::insert_or_replace,MultiMapImpl::remove_key,MultiMapImpl::rehash" args="--no-assertion-reach-checks"
#[kani::proof]
#[kani::stub(std::fmt::format, crate::verif_support::fmt_stub)]
#[kani::stub(crate::DbError::new, crate::verif_support::dberror_new_stub)]
#[kani::unwind(6)]
fn c10_map_matches_reference_3_steps() {
    c10_map_history::<3>();
}

//@ id=C10 tier=thorough timeout=3000 bounds="as c10_map_matches_reference_3_steps with 4 steps" desc="MapImpl behaves like a reference map over 4-step histories of insert / replace / remove with colliding keys" kernel="MapImpl::insert,MapImpl::remove,MapImpl::value,MapImpl::contains,MapImpl::len,MultiMapImpl::insert_or_replace,MultiMapImpl::remove_key" args="--no-assertion-reach-checks"
#[kani::proof]
#[kani::stub(std::fmt::format, crate::verif_support::fmt_stub)]
#[kani::stub(crate::DbError::new, crate::verif_support::dberror_new_stub)]
#[kani::unwind(6)]
fn c10_map_matches_reference_4_steps() {
    c10_map_history::<4>();
}

//@ id=C10 tier=quick timeout=900 bounds="arbitrary 8-slot table (states, keys, values symbolic; the iterator only reads: same code at every capacity); iteration driven to the end" desc="MapIterator (iter(), what select-all-aliases walks) yields exactly the Valid slots, each once, in slot order, and then None" kernel="MapIterator::next,MapImpl::iter,MultiMapImpl::iter" args="--no-assertion-reach-checks"
#[kani::proof]
#[kani::stub(std::fmt::format, crate::verif_support::fmt_stub)]
#[kani::stub(crate::DbError::new, crate::verif_support::dberror_new_stub)]
#[kani::unwind(10)]
fn c10_map_iter_yields_valid_slots() {
    let s = fresh_arr_storage();
    let data = ArrMap::<8> {
        states: kani::any(),
        keys: kani::any(),
        values: kani::any(),
        len: kani::any(),
        cap: 8,
    };
    let mut i = 0;
    while i < 8 {
        kani::assume(data.states[i] <= 2);
        i += 1;
    }
    let m: C10MapImpl<8> = MapImpl {
        multi_map: MultiMapImpl {
            data,
            phantom_marker: PhantomData,
        },
        storage: PhantomData,
    };
    let d = c10_data(&m);
    let mut it = m.iter(&s);
    let mut slot = 0usize; // next slot the reference expects to be examined
    let mut yielded = 0;
    let mut calls = 0;
    while calls < 9 {
        // reference: next Valid slot at or after `slot`
        while slot < 8 && d.states[slot] != 1 {
            slot += 1;
        }
        match it.next() {
            Some((k, v)) => {
                assert!(slot < 8, "iterator yields more pairs than there are Valid slots");
                assert!(k == d.keys[slot] && v == d.values[slot], "iterator skipped a Valid slot or yielded a non-Valid one");
                slot += 1;
                yielded += 1;
            }
            None => {
                assert!(slot == 8, "iterator ended before the last Valid slot");
            }
        }
        calls += 1;
    }
    kani::cover!(yielded == 8, "full table");
    kani::cover!(yielded == 2 && d.states[0] == 2 && d.states[7] == 1, "tombstone first, Valid last");
    kani::cover!(true, "end of harness reachable");
    std::mem::forget(m);
    std::mem::forget(s);
}
