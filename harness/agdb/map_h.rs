// harnesses mounted as child module of agdb/src/collections/map.rs
#[allow(unused_imports)]
use super::*;
