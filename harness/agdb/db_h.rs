// harnesses mounted as child module of agdb/src/db.rs
#[allow(unused_imports)]
use super::*;
