// harnesses mounted as child module of agdb/src/db.rs
#[allow(unused_imports)]
use super::*;

// =============================================================================
// C15 (4) — the modifier / logic fold of `DbImpl::evaluate_conditions`.
//
// `evaluate_conditions` is a method of `DbImpl`; constructing a `DbImpl` is far
// beyond CBMC (design probe: `DbMemory::with_data` alone > 10 min). The
// condition kinds Distance, Edge, Node and Where-of-those never read `self`, so
// the harness passes a reference to an UNINITIALISED `DbImpl<ArrStorage>`
// (`MaybeUninit`, never read, never dropped). Covered: only these condition
// kinds. NOT covered: EdgeCount*, Ids, KeyValue, Keys (they read the graph /
// aliases / values of the database).
//
// Reference evaluator written from the documentation (queries.md "Truth
// tables", where_.rs doc comments): start with Continue(true); per condition
//   value  : Distance -> CountComparison::compare_distance (its own harness:
//            c15_compare_distance_selects_and_prunes), Edge -> Continue(id < 0),
//            Node -> Continue(0 < id), Where -> the nested list evaluated the
//            same way ("collapsed into single condition")
//   modifier: None -> unchanged; Not -> `!` (value flipped, kind kept);
//            Beyond / NotBeyond -> "only controls traversal, does not affect
//            element selection": the running value is kept, the condition
//            contributes only a control kind — Beyond: Continue if the
//            condition passes (or at distance 0: "does not block traversal
//            from the starting element at distance 0"), else Stop;
//            NotBeyond: Stop if the condition passes, else Continue
//   fold   : And / Or truth table for the kind, && / || for the value.
// =============================================================================

use crate::query::query_condition::verif_h::C15_AND;
use crate::query::query_condition::verif_h::C15_C;
use crate::query::query_condition::verif_h::C15_OR;
use crate::query::query_condition::verif_h::C15_S;
use crate::query::query_condition::verif_h::c15_count_cmp;
use crate::query::query_condition::verif_h::c15_kind;
use crate::query::query_condition::verif_h::c15_val;
use crate::verif_support::ArrStorage;
use crate::verif_support::ok;

fn c15e_reference(index: i64, distance: u64, conditions: &[QueryCondition]) -> (u8, bool) {
    let mut kind = C15_C;
    let mut value = true;
    let mut i = 0;
    while i < conditions.len() {
        let c = &conditions[i];
        let (bk, bv) = match &c.data {
            QueryConditionData::Distance(cmp) => {
                let x = cmp.compare_distance(distance);
                (c15_kind(&x), c15_val(&x))
            }
            QueryConditionData::Edge => (C15_C, index < 0),
            QueryConditionData::Node => (C15_C, 0 < index),
            QueryConditionData::Where(inner) => c15e_reference(index, distance, inner),
            _ => panic!("condition kind outside the harness"),
        };
        // (control kind contributed, value contributed; None = running value kept)
        let (ck, cv): (u8, Option<bool>) = match c.modifier {
            QueryConditionModifier::None => (bk, Some(bv)),
            QueryConditionModifier::Not => (bk, Some(!bv)),
            QueryConditionModifier::Beyond => {
                (if bv || distance == 0 { C15_C } else { C15_S }, None)
            }
            QueryConditionModifier::NotBeyond => (if bv { C15_S } else { C15_C }, None),
        };
        match c.logic {
            QueryConditionLogic::And => {
                kind = C15_AND[kind as usize][ck as usize];
                if let Some(v) = cv {
                    value = value && v;
                }
            }
            QueryConditionLogic::Or => {
                kind = C15_OR[kind as usize][ck as usize];
                if let Some(v) = cv {
                    value = value || v;
                }
            }
        }
        i += 1;
    }
    (kind, value)
}

// kind: 0 Distance, 1 Edge, 2 Node
fn c15e_leaf_data(kind: u8, op: u8, n: u64) -> QueryConditionData {
    match kind {
        0 => QueryConditionData::Distance(c15_count_cmp(op, n)),
        1 => QueryConditionData::Edge,
        _ => QueryConditionData::Node,
    }
}

fn c15e_any_logic() -> QueryConditionLogic {
    if kani::any() {
        QueryConditionLogic::And
    } else {
        QueryConditionLogic::Or
    }
}

fn c15e_any_modifier() -> QueryConditionModifier {
    let m: u8 = kani::any();
    kani::assume(m < 4);
    match m {
        0 => QueryConditionModifier::None,
        1 => QueryConditionModifier::Beyond,
        2 => QueryConditionModifier::Not,
        _ => QueryConditionModifier::NotBeyond,
    }
}

// `kind` (0 Distance, 1 Edge, 2 Node) must be CONCRETE: with a symbolic
// condition kind CBMC executes every arm of `evaluate_condition`, i.e. the ones
// that read the (uninitialised) database.
fn c15e_any_leaf(kind: u8) -> QueryCondition {
    let op: u8 = kani::any();
    kani::assume(op < 6);
    QueryCondition {
        logic: c15e_any_logic(),
        modifier: c15e_any_modifier(),
        data: c15e_leaf_data(kind, op, kani::any()),
    }
}

// One list of `n` (concrete) leaf conditions of the given concrete kinds;
// everything else symbolic.
fn c15e_flat_body(n: usize, kinds: [u8; 3]) {
    let mem = std::mem::MaybeUninit::<DbImpl<ArrStorage>>::uninit();
    let db: &DbImpl<ArrStorage> = unsafe { &*mem.as_ptr() };
    // a stack array, not a Vec: CBMC keeps the (concrete) condition kind of
    // values on the stack, but not of values written into heap memory
    let all = [
        c15e_any_leaf(kinds[0]),
        c15e_any_leaf(kinds[1]),
        c15e_any_leaf(kinds[2]),
    ];
    let conditions = &all[..n];
    let index: i64 = kani::any();
    let distance: u64 = kani::any();

    let got = ok(db.evaluate_conditions(GraphIndex(index), distance, conditions));
    let (kind, value) = c15e_reference(index, distance, conditions);
    assert!(c15_kind(&got) == kind, "control kind differs from the documented fold");
    assert!(c15_val(&got) == value, "selection value differs from the documented fold");

    let m0 = conditions[0].modifier;
    if n == 1 && kinds[0] == 2 {
        kani::cover!(m0 == QueryConditionModifier::Beyond && distance == 0 && index < 0 && c15_kind(&got) == C15_C, "failed Beyond at distance 0 continues");
        kani::cover!(m0 == QueryConditionModifier::Beyond && distance > 0 && c15_kind(&got) == C15_S && value, "failed Beyond stops, element still selected");
        kani::cover!(m0 == QueryConditionModifier::NotBeyond && c15_kind(&got) == C15_S && value, "NotBeyond stops and still selects");
    }
    if n == 1 && kinds[0] == 0 {
        kani::cover!(m0 == QueryConditionModifier::Not && c15_kind(&got) == C15_S && value, "Not applied to Stop(false) gives Stop(true)");
    }
    if n == 2 && kinds[0] == 0 && kinds[1] == 1 {
        kani::cover!(conditions[1].logic == QueryConditionLogic::Or && conditions[1].modifier == QueryConditionModifier::None && c15_kind(&got) == C15_C && distance > 5 && !value, "or with a Continue overrides a Stop");
        kani::cover!(conditions[1].logic == QueryConditionLogic::And && conditions[1].modifier == QueryConditionModifier::Beyond && c15_kind(&got) == C15_S, "and beyond()");
    }
    if n == 3 && kinds[0] == 2 && kinds[1] == 0 && kinds[2] == 1 {
        kani::cover!(conditions[1].logic == QueryConditionLogic::Or && conditions[2].logic == QueryConditionLogic::And && value, "mixed and/or");
    }
    std::mem::forget(all);
}

//@ id=C15 tier=quick timeout=1200 bounds="every list of 1..=3 conditions of kinds Distance(any of 6 comparisons, any u64)/Edge/Node (kind sequences D, E, N, DD, DE, ND, DDD, NDE, END — a Distance leaf alone yields every base control value Continue/Stop x true/false —; the kinds that never read the database: `self` is an uninitialised DbImpl that is never read); modifier None/Not/Beyond/NotBeyond and logic And/Or symbolic per condition; element id any i64, distance any u64" desc="DbImpl::evaluate_conditions folds a flat condition list exactly like the reference evaluator written from the documented truth tables and modifier rules (incl. Beyond at distance 0, Not on a Stop, Beyond/NotBeyond never change the selection value)" kernel="DbImpl::evaluate_conditions,DbImpl::evaluate_condition,SearchControl::and,SearchControl::or,SearchControl::flip" args="--no-assertion-reach-checks"
#[kani::proof]
#[kani::stub(std::fmt::format, crate::verif_support::fmt_stub)]
#[kani::stub(crate::DbError::new, crate::verif_support::dberror_new_stub)]
#[kani::unwind(5)]
fn c15_evaluate_conditions_flat_list() {
    // A Distance leaf alone produces every base control value (Continue/Stop x
    // true/false), so [D, D, D] exercises every fold transition; the other
    // triples add Edge / Node (Continue(id < 0) / Continue(0 < id)) at every position.
    c15e_flat_body(1, [0, 0, 0]);
    c15e_flat_body(1, [1, 0, 0]);
    c15e_flat_body(1, [2, 0, 0]);
    c15e_flat_body(2, [0, 0, 0]);
    c15e_flat_body(2, [0, 1, 0]);
    c15e_flat_body(2, [2, 0, 0]);
    c15e_flat_body(3, [0, 0, 0]);
    c15e_flat_body(3, [2, 0, 1]);
    c15e_flat_body(3, [1, 2, 0]);
    kani::cover!(true, "end of harness reachable");
}

// A `Where` whose inner list lives in a stack array: the Vec handed to the real
// code is made with `Vec::from_raw_parts` over that array (never dropped, never
// grown) so that CBMC keeps the concrete condition kinds of the inner leaves
// (values written to heap memory lose them and every arm of
// `evaluate_condition`, incl. the ones reading the database, would be executed).
fn c15e_where(storage: &mut [QueryCondition; 2], inner_len: usize) -> QueryCondition {
    let inner: Vec<QueryCondition> =
        unsafe { Vec::from_raw_parts(storage.as_mut_ptr(), inner_len, 2) };
    QueryCondition {
        logic: c15e_any_logic(),
        modifier: c15e_any_modifier(),
        data: QueryConditionData::Where(inner),
    }
}

// list = [Where(k0[, k1])] or [Where(..), leaf] or [leaf, Where(..)]; kinds and
// order concrete
fn c15e_nested_body(k0: u8, k1: u8, inner_len: usize, other: Option<u8>, where_first: bool) {
    let mem = std::mem::MaybeUninit::<DbImpl<ArrStorage>>::uninit();
    let db: &DbImpl<ArrStorage> = unsafe { &*mem.as_ptr() };
    let mut inner = std::mem::ManuallyDrop::new([c15e_any_leaf(k0), c15e_any_leaf(k1)]);
    let w = c15e_where(&mut inner, inner_len);
    let index: i64 = kani::any();
    let distance: u64 = kani::any();
    let (got, kind, value, m_where) = match other {
        None => {
            let all = std::mem::ManuallyDrop::new([w]);
            let got = ok(db.evaluate_conditions(GraphIndex(index), distance, &all[..]));
            let (k, v) = c15e_reference(index, distance, &all[..]);
            (got, k, v, all[0].modifier)
        }
        Some(k) => {
            let leaf = c15e_any_leaf(k);
            let m = w.modifier;
            let all = std::mem::ManuallyDrop::new(if where_first { [w, leaf] } else { [leaf, w] });
            let got = ok(db.evaluate_conditions(GraphIndex(index), distance, &all[..]));
            let (k, v) = c15e_reference(index, distance, &all[..]);
            (got, k, v, m)
        }
    };
    assert!(c15_kind(&got) == kind, "control kind differs from the documented fold (nested)");
    assert!(c15_val(&got) == value, "selection value differs from the documented fold (nested)");

    if other.is_none() && k0 == 0 && inner_len == 1 {
        kani::cover!(m_where == QueryConditionModifier::Not && c15_kind(&got) == C15_S && value, "Not on a nested Where that stops");
        kani::cover!(m_where == QueryConditionModifier::Beyond && c15_kind(&got) == C15_S && value && distance > 0, "Beyond on a failing nested Where stops but keeps the selection");
        kani::cover!(m_where == QueryConditionModifier::None && c15_kind(&got) == C15_S, "Stop propagates out of a nested Where");
    }
    if other == Some(1) && k0 == 0 && inner_len == 2 && where_first {
        kani::cover!(where_first && c15_kind(&got) == C15_C && !value && distance > 3, "a later or-ed leaf turns the Where's Stop into Continue");
    }
}

//@ id=C15 tier=quick timeout=1200 bounds="a nested Where of 1..=2 leaves alone, or together with one further leaf before or after it; leaf kinds Distance/Edge/Node (concrete loops over the kinds; never read the database: `self` is an uninitialised DbImpl that is never read); all modifiers (also on the Where) and logic symbolic; id any i64, distance any u64" desc="DbImpl::evaluate_conditions with nested Where: the nested list collapses to one control value to which the outer modifier and logic apply, exactly like the reference evaluator written from the documentation" kernel="DbImpl::evaluate_conditions,DbImpl::evaluate_condition" args="--no-assertion-reach-checks"
#[kani::proof]
#[kani::stub(std::fmt::format, crate::verif_support::fmt_stub)]
#[kani::stub(crate::DbError::new, crate::verif_support::dberror_new_stub)]
#[kani::unwind(5)]
fn c15_evaluate_conditions_nested_where() {
    c15e_nested_body(0, 0, 1, None, true); // where(D)
    c15e_nested_body(0, 0, 2, None, true); // where(D, D)
    c15e_nested_body(1, 2, 2, None, true); // where(E, N)
    c15e_nested_body(0, 0, 1, Some(0), true); // where(D), D
    c15e_nested_body(0, 0, 1, Some(0), false); // D, where(D)
    c15e_nested_body(0, 1, 2, Some(1), true); // where(D, E), E
    c15e_nested_body(2, 0, 2, Some(2), false); // N, where(N, D)
    kani::cover!(true, "end of harness reachable");
}
