// harnesses mounted as child module of agdb/src/storage/file_storage_memory_mapped.rs
#[allow(unused_imports)]
use super::*;
use crate::storage::Storage;
use crate::verif_support::ArrStorage;

// C01 obligation D (second half): the recovery log is cleared (StorageData::flush)
// exactly when the OUTERMOST storage transaction ends, however transactions
// nest. `ArrStorage` counts the flush calls.
//@ id=C01 tier=quick timeout=600 bounds="6 symbolic steps, each begin-transaction or commit(id) with a symbolic id; nesting depth <= 6" desc="Storage::commit succeeds only for the innermost open transaction, and the back end is flushed exactly when the nesting depth returns to zero (never while a transaction is still open, always when the outermost one ends)" kernel="Storage::transaction,Storage::commit,Storage::begin_transaction,Storage::end_transaction"
#[kani::proof]
#[kani::stub(std::fmt::format, crate::verif_support::fmt_stub)]
#[kani::stub(crate::DbError::new, crate::verif_support::dberror_new_stub)]
#[kani::unwind(8)]
fn c01_log_cleared_only_when_outermost_transaction_ends() {
    let mut s: Storage<ArrStorage> = crate::storage::verif_h::fresh_arr_storage();
    let mut depth: u64 = 0;
    let mut expected_flushes: u32 = 0;
    let mut k = 0;
    while k < 6 {
        let begin: bool = kani::any();
        if begin {
            let id = s.transaction();
            depth += 1;
            assert!(id == depth, "C01: transaction id is not the nesting depth");
        } else {
            let id: u64 = kani::any();
            let r = s.commit(id);
            if depth > 0 && id == depth {
                assert!(r.is_ok(), "C01: committing the innermost transaction failed");
                depth -= 1;
                if depth == 0 {
                    expected_flushes += 1;
                }
            } else if depth == 0 && id == 0 {
                // nothing open: committing "transaction 0" is a no-op
                assert!(r.is_ok());
            } else {
                assert!(r.is_err(), "C01: commit of a transaction that is not the innermost one succeeded");
            }
            std::mem::forget(r);
        }
        let flushes = crate::storage::verif_h::data_of(&s).flushes;
        assert!(flushes == expected_flushes, "C01: log cleared at the wrong nesting depth");
        k += 1;
    }
    kani::cover!(expected_flushes == 2, "two outermost commits");
    kani::cover!(depth == 3, "three transactions still open");
    kani::cover!(true, "end of harness reachable");
    std::mem::forget(s);
}
