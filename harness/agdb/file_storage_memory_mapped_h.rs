// harnesses mounted as child module of agdb/src/storage/file_storage_memory_mapped.rs
#[allow(unused_imports)]
use super::*;
