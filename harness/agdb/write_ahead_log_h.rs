// harnesses mounted as child module of agdb/src/storage/write_ahead_log.rs
#[allow(unused_imports)]
use super::*;
