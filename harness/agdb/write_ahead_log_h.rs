// harnesses mounted as child module of agdb/src/storage/write_ahead_log.rs
#[allow(unused_imports)]
use super::*;
use crate::verif_fs;
use crate::verif_support::ok;

// C01 obligation B: opening the log discards exactly a torn tail.
//
// Log = k complete records (k in {0, 1}, appended with the real `insert`)
// followed by a strict prefix of one more record -- what a crash inside the
// three `write_all` calls of `insert` (incl. a torn call) leaves behind.
// The crash point (which of the three calls, how many bytes of it arrived) and
// the value length are ENUMERATED concretely inside the harness (3 x 8 x 3
// scenarios); positions and bytes stay symbolic. (With a symbolic crash point
// CBMC 6.11 reported a spurious invalid `free` in the drop of the `DbError`
// returned by `skip_record` -- the agdb crate contains no `unsafe` -- see
// DESIGN.md §7.)
fn c01_repair_one(k_complete: usize, vlen_first: usize, at: u32, torn: usize, l2: usize) {
    verif_fs::reset(&[]);
    let mut wal = ok(WriteAheadLog::new("db"));
    let p1: u64 = kani::any();
    let v1: [u8; 3] = kani::any();
    if k_complete == 1 {
        ok(wal.insert(p1, &v1[..vlen_first]));
    }
    let complete_len = verif_fs::log_len();
    // the interrupted append: record r2, of which only a strict prefix arrives
    let p2: u64 = kani::any();
    let v2: [u8; 3] = kani::any();
    verif_fs::arm_crash(at, torn);
    ok(wal.insert(p2, &v2[..l2]));
    std::mem::forget(wal);
    assert!(verif_fs::snapped(), "harness: the crash point lies inside the append");
    let partial = verif_fs::snap_log_len() - complete_len;
    verif_fs::restore_snapshot();
    if partial >= 16 + l2 {
        // a crash before the (empty) third call of an empty-value record leaves
        // a complete record: not a torn tail
        return;
    }
    // reopen: repair must cut the log back to the complete records, no more, no less
    let wal2 = ok(WriteAheadLog::new("db"));
    assert!(
        verif_fs::log_len() == complete_len,
        "C01: repair did not truncate the log to exactly the complete records"
    );
    if k_complete == 1 {
        assert!(verif_fs::log_u64(0) == p1, "C01: repair damaged the complete record (position)");
        assert!(verif_fs::log_u64(8) == vlen_first as u64, "C01: repair damaged the complete record (length)");
        assert!(vlen_first < 1 || verif_fs::log_byte(16) == v1[0], "C01: repair damaged the complete record (bytes)");
        assert!(vlen_first < 2 || verif_fs::log_byte(17) == v1[1], "C01: repair damaged the complete record (bytes)");
        assert!(vlen_first < 3 || verif_fs::log_byte(18) == v1[2], "C01: repair damaged the complete record (bytes)");
    }
    std::mem::forget(wal2);
    kani::cover!(partial > 0 && partial < 8, "torn inside the position field");
    kani::cover!(partial == 8, "position written, length missing");
    kani::cover!(partial > 8 && partial < 16, "torn inside the length field");
    kani::cover!(partial == 16 && l2 > 0, "header complete, value missing");
    kani::cover!(partial > 16, "torn inside the value");
}

fn c01_repair_scenario(k_complete: usize, vlen_first: usize) {
    // (call of the append that is interrupted, torn bytes of it, value length)
    c01_repair_one(k_complete, vlen_first, 0, 0, 2);
    c01_repair_one(k_complete, vlen_first, 0, 3, 2);
    c01_repair_one(k_complete, vlen_first, 1, 0, 2);
    c01_repair_one(k_complete, vlen_first, 1, 5, 0);
    c01_repair_one(k_complete, vlen_first, 1, 7, 2);
    c01_repair_one(k_complete, vlen_first, 2, 0, 2);
    c01_repair_one(k_complete, vlen_first, 2, 1, 2);
    c01_repair_one(k_complete, vlen_first, 2, 0, 0);
    kani::cover!(true, "end of harness reachable");
}

//@ id=C01 tier=quick timeout=1500 bounds="empty log + strict prefix of one record: 8 enumerated crash points of the append (before each of its 3 file calls; torn 3/5/7 bytes inside the two header fields, 1 byte inside the value), interrupted record with 0 or 2 value bytes; positions and bytes symbolic" desc="WriteAheadLog::new (repair) truncates a log that holds only a torn record to length 0" kernel="WriteAheadLog::new,WriteAheadLog::repair,WriteAheadLog::skip_record,WriteAheadLog::insert" ignore="^__rust_dealloc\|"
#[kani::proof]
#[kani::stub(std::fmt::format, crate::verif_support::fmt_stub)]
#[kani::stub(crate::DbError::new, crate::verif_support::dberror_new_stub)]
#[kani::stub(<crate::DbError as std::convert::From<std::io::Error>>::from, crate::verif_support::ioerr_stub)]
#[kani::stub(WriteAheadLog::wal_filename, crate::verif_support::wal_name_stub)]
#[kani::stub(std::vec::from_elem, crate::verif_support::from_elem_stub8)]
#[kani::unwind(3)]
fn c01_repair_discards_torn_only_record() {
    c01_repair_scenario(0, 0);
}

//@ id=C01 tier=quick timeout=1500 bounds="one complete record (2 value bytes) + strict prefix of a second: 8 enumerated crash points of the append (before each of its 3 file calls; torn 3/5/7 bytes inside the two header fields, 1 byte inside the value), interrupted record with 0 or 2 value bytes; positions and bytes symbolic" desc="repair truncates the torn tail and keeps the complete record bit-identical" kernel="WriteAheadLog::new,WriteAheadLog::repair,WriteAheadLog::skip_record,WriteAheadLog::insert" ignore="^__rust_dealloc\|"
#[kani::proof]
#[kani::stub(std::fmt::format, crate::verif_support::fmt_stub)]
#[kani::stub(crate::DbError::new, crate::verif_support::dberror_new_stub)]
#[kani::stub(<crate::DbError as std::convert::From<std::io::Error>>::from, crate::verif_support::ioerr_stub)]
#[kani::stub(WriteAheadLog::wal_filename, crate::verif_support::wal_name_stub)]
#[kani::stub(std::vec::from_elem, crate::verif_support::from_elem_stub8)]
#[kani::unwind(3)]
fn c01_repair_discards_torn_tail_after_complete_record() {
    c01_repair_scenario(1, 2);
}

//@ id=C01 tier=quick timeout=1500 bounds="one complete truncation record (empty value) + strict prefix of a second: 8 enumerated crash points of the append (before each of its 3 file calls; torn 3/5/7 bytes inside the two header fields, 1 byte inside the value), interrupted record with 0 or 2 value bytes; positions and bytes symbolic" desc="repair keeps a complete empty-value record and cuts the torn tail behind it" kernel="WriteAheadLog::new,WriteAheadLog::repair,WriteAheadLog::skip_record,WriteAheadLog::insert" ignore="^__rust_dealloc\|"
#[kani::proof]
#[kani::stub(std::fmt::format, crate::verif_support::fmt_stub)]
#[kani::stub(crate::DbError::new, crate::verif_support::dberror_new_stub)]
#[kani::stub(<crate::DbError as std::convert::From<std::io::Error>>::from, crate::verif_support::ioerr_stub)]
#[kani::stub(WriteAheadLog::wal_filename, crate::verif_support::wal_name_stub)]
#[kani::stub(std::vec::from_elem, crate::verif_support::from_elem_stub8)]
#[kani::unwind(3)]
fn c01_repair_discards_torn_tail_after_truncation_record() {
    c01_repair_scenario(1, 0);
}

//@ id=C01 tier=quick timeout=900 bounds="two records appended by the real insert (value lengths 2 and 0..=1), symbolic positions/bytes" desc="records() returns the appended records in append order with identical position and bytes (format round trip)" kernel="WriteAheadLog::insert,WriteAheadLog::records,WriteAheadLog::read_record,WriteAheadLog::read_exact"
#[kani::proof]
#[kani::stub(std::fmt::format, crate::verif_support::fmt_stub)]
#[kani::stub(crate::DbError::new, crate::verif_support::dberror_new_stub)]
#[kani::stub(<crate::DbError as std::convert::From<std::io::Error>>::from, crate::verif_support::ioerr_stub)]
#[kani::stub(WriteAheadLog::wal_filename, crate::verif_support::wal_name_stub)]
#[kani::stub(std::vec::from_elem, crate::verif_support::from_elem_stub8)]
#[kani::unwind(4)]
fn c01_records_round_trip() {
    verif_fs::reset(&[]);
    let mut wal = ok(WriteAheadLog::new("db"));
    let p1: u64 = kani::any();
    let p2: u64 = kani::any();
    let v1: [u8; 2] = kani::any();
    let v2: [u8; 1] = kani::any();
    let second_empty: bool = kani::any();
    ok(wal.insert(p1, &v1));
    if second_empty {
        ok(wal.insert(p2, &[]));
    } else {
        ok(wal.insert(p2, &v2));
    }
    let r = ok(wal.records());
    assert!(r.len() == 2, "C01: records() did not return both records");
    assert!(r[0].pos == p1 && r[1].pos == p2, "C01: records() positions/order wrong");
    assert!(r[0].value.len() == 2 && r[0].value[0] == v1[0] && r[0].value[1] == v1[1], "C01: records() bytes wrong");
    if second_empty {
        assert!(r[1].value.is_empty(), "C01: records() empty value wrong");
    } else {
        assert!(r[1].value.len() == 1 && r[1].value[0] == v2[0], "C01: records() bytes wrong");
    }
    std::mem::forget(r);
    std::mem::forget(wal);
    kani::cover!(second_empty, "truncation record parsed");
    kani::cover!(true, "end of harness reachable");
}
